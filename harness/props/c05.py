"""C05 - output pools are transparent: reuse never changes results or re-simulates.

O1: Pool.tla: histories of runs over one pool (fill, rerun, rerun needing more batches, remove a store,
    replace a downstream node) for every stored set of the stated form; values are terms that record
    which draw of the batch generator they consumed, so a shifted generator is visible.  Invariants
    Transparent, NoResim, PoolFresh; refuted controls: a strict subset of the parameters stored, and a
    removal that leaves only the parameters.
O3: the same histories on real OutputPool / ArrayPool objects with Rejection on a model whose
    simulator output encodes (batch, row, its own random draw); every run has a pool-free twin.
    Validated by Pool_Trace.tla.
"""
import hashlib
import os
import random
import shutil

import numpy as np

from harness import tlc
from harness.util import Hang, time_limit

CALLS = []


class P:
    """recording prior: draws from the batch generator"""

    def __init__(self, name):
        self.name = name

    def rvs(self, *params, size=None, random_state=None):
        return random_state.randint(1, 1000, size=size).astype(float)

    def pdf(self, x):        # (needed by SMC's ModelPrior: support [1, 1000))
        x = np.asarray(x, dtype=float)
        return np.where((x >= 1) & (x < 1000), 1.0 / 999, 0.0)

    def logpdf(self, x):
        with np.errstate(divide="ignore"):
            return np.log(self.pdf(x))


class Sim:
    def __init__(self):
        self.__name__ = "sim"

    def __call__(self, t1, t2, batch_size=1, random_state=None, meta=None):
        bi = int(meta["batch_index"])
        CALLS.append(["sim", bi])
        u = random_state.randint(0, 1000, size=batch_size)
        ids = bi * batch_size + np.arange(batch_size)
        # encodes which draw (id), the parameters it got and its own random draw
        return ids * 1e9 + np.asarray(t1) * 1e6 + np.asarray(t2) * 1e3 + u


class Summ:
    def __init__(self, ver, bs):
        self.ver, self.bs = ver, bs
        self.__name__ = "S"

    def __call__(self, y):
        y = np.asarray(y, dtype=float)
        if len(y) and y[0] >= 1e6:          # (values below 1e6 are the observed data: the observed twin is not a stored node)
            CALLS.append(["S", int(y[0] // 1e9) // self.bs])
        return y * 2 + self.ver


class Disc:
    def __init__(self, ver, bs):
        self.ver, self.bs = ver, bs
        self.__name__ = "d"

    def __call__(self, s, observed=None):
        s = np.asarray(s, dtype=float)
        if len(s) and s[0] >= 1e6:
            CALLS.append(["d", int((s[0] // 2) // 1e9) // self.bs])
        return ((s // 7) % 11 + self.ver * 3) % 13


def build(sc, ver):
    import elfi
    m = elfi.ElfiModel(name="c05")
    elfi.Prior(P("t1"), model=m, name="t1")
    elfi.Prior(P("t2"), model=m, name="t2")
    s = elfi.Simulator(Sim(), m["t1"], m["t2"], model=m, name="sim", observed=np.array([5.0]))
    s.uses_meta = True
    elfi.Summary(Summ(ver["S"], sc["bs"]), m["sim"], model=m, name="S")
    elfi.Discrepancy(Disc(ver["d"], sc["bs"]), m["S"], model=m, name="d")
    return m


def res_digest(res):
    h = hashlib.sha256()
    for k in sorted(res.outputs):
        h.update(k.encode() + np.ascontiguousarray(np.asarray(res.outputs[k], dtype=float)).tobytes())
    h.update(np.asarray([res.threshold], dtype=float).tobytes() + str(int(res.n_sim)).encode())
    return h.hexdigest()[:16]


def arr_digest(a):
    return hashlib.sha256(np.ascontiguousarray(np.asarray(a, dtype=float)).tobytes()).hexdigest()[:12]


def record(sc):
    import elfi
    import elfi.client
    ver = dict(S=0, d=0)
    workdir = sc["workdir"]
    events = []
    kept = {}
    name = "pool_%d_%d" % (os.getpid(), random.getrandbits(40))
    if sc["pool"] == "array":
        pool = elfi.ArrayPool(list(sc["stored"]), name=name, prefix=workdir)
    else:
        pool = elfi.OutputPool(list(sc["stored"]))
    try:
        for a in sc["acts"]:
            e = dict(a=a[0], n=a[1] if len(a) > 1 and isinstance(a[1], str) else "", k=a[1] if a[0] == "run" else 0,
                     raised="", res="", twin="", held0={}, calls=[], pool={}, req=sorted(set(["d", "t1", "t2"] + list(sc["extra"]))), sticky=[])
            try:
                with time_limit(300):
                    if a[0] == "run":
                        k = a[1]
                        m = build(sc, ver)
                        e["held0"] = {n: sorted(int(i) for i in range(64) if pool.stores.get(n) is not None and i in pool.stores[n])
                                      for n in pool.stores}
                        del CALLS[:]
                        # keep_sampler: ONE sampler object serves consecutive runs (while neither the model nor the pool object
                        # was exchanged); otherwise a new sampler per run
                        if sc.get("keep_sampler") and kept.get("r") is not None and kept.get("pool") is pool and kept.get("ver") == dict(ver):
                            r = kept["r"]
                        else:
                            r = elfi.Rejection(m["d"], batch_size=sc["bs"], seed=sc["seed"], pool=pool, output_names=list(sc["extra"]))
                            kept.update(r=r, pool=pool, ver=dict(ver), sticky=set())
                        e["sticky"] = sorted(kept["sticky"])
                        kept["sticky"] |= set(pool.stores)
                        sched = sc.get("sched")
                        if sched:
                            # a THRESHOLD objective on a client that keeps several batches outstanding and finishes them at its own
                            # pace: speculative batches are cancelled when the run ends, some of them already finished - the pool
                            # holds the CONSUMED batches, no others (k = the number of batches the run consumed)
                            from harness.sched_client import ScheduledClient
                            old = elfi.client._client
                            elfi.client.set_client(ScheduledClient(seed=sched["seed"], p_ready=sched["p_ready"], p_run=sched["p_run"], cores=sched["maxpar"]))
                            try:
                                r = elfi.Rejection(m["d"], batch_size=sc["bs"], seed=sc["seed"], pool=pool, output_names=list(sc["extra"]),
                                                   max_parallel_batches=sched["maxpar"])
                                kept.update(r=None)
                                res = r.sample(sc["n"], threshold=sched["thr"], bar=False)
                            finally:
                                elfi.client.set_client(old)
                            k = e["k"] = int(res.n_batches)
                        else:
                            res = r.sample(sc["n"], n_sim=k * sc["bs"], bar=False)
                        e["calls"] = [list(c) for c in CALLS]
                        e["res"] = res_digest(res)
                        twin = elfi.Rejection(build(sc, ver)["d"], batch_size=sc["bs"], seed=sc["seed"], output_names=sc["extra"])
                        if sched:
                            e["twin"] = res_digest(twin.sample(sc["n"], threshold=sched["thr"], bar=False))
                        else:
                            e["twin"] = res_digest(twin.sample(sc["n"], n_sim=k * sc["bs"], bar=False))
                        # pool content vs fresh computation of each held batch
                        from elfi.model.elfi_model import ComputationContext
                        ctx = ComputationContext(batch_size=sc["bs"], seed=sc["seed"])
                        bh = elfi.client.BatchHandler(build(sc, ver), ctx, output_names=["t1", "t2", "sim", "S", "d"], client=elfi.client.get_client())
                        for n in pool.stores:
                            st = pool.stores[n]
                            rows = []
                            for i in range(64):
                                if st is not None and i in st:
                                    fresh = bh.compute(i)
                                    rows.append([i, arr_digest(st[i]), arr_digest(fresh[n])])
                            e["pool"][n] = rows
                    elif a[0] == "remove":
                        st = pool.remove_store(a[1])
                        if hasattr(st, "delete"):
                            st.delete()
                    elif a[0] == "addstore":
                        pool.add_store(a[1])
                    elif a[0] == "replace":
                        ver[a[1]] += 1
                    elif a[0] == "reopen":
                        pool.close()
                        pool = elfi.ArrayPool.open(name, prefix=workdir)
                    elif a[0] == "save":
                        pool.save()
                    elif a[0] == "staleopen":
                        # the process ends without saving again (data flushed, files closed); the pool is then opened
                        # from the OLDER pickle: it makes available the batches it had when it was saved
                        pool.flush()
                        for st in pool.stores.values():
                            if hasattr(st, "close"):
                                st.close()
                        pool = elfi.ArrayPool.open(name, prefix=workdir)
                    elif a[0] == "badctx":
                        kw = dict(batch_size=sc["bs"] + 1, seed=sc["seed"]) if a[1] == "bs" else \
                            dict(batch_size=sc["bs"], seed=(sc["seed"] + 1) if a[1] == "seed" else 0)     # "seed0": seed 0 is a seed like any other
                        elfi.Rejection(build(sc, ver)["d"], pool=pool, **kw)
            except Hang:
                e["raised"] = "Hang"
            except ValueError as ex:
                e["raised"] = "ValueError"
                e["exc"] = str(ex)[:80]
            except Exception as ex:
                e["raised"] = type(ex).__name__
                e["exc"] = str(ex)[:120]
            events.append(e)
            if e["raised"] and a[0] != "badctx":
                break
    finally:
        try:
            if sc["pool"] == "array":
                pool.delete()
        except Exception:
            shutil.rmtree(os.path.join(workdir, name), ignore_errors=True)
    return dict(stored=list(sc["stored"]), events=events)


STATED = [["sim"], ["S"], ["d"], ["sim", "S"], ["sim", "d"], ["S", "d"], ["sim", "S", "d"], ["sim", "t1", "t2"], ["S", "t1", "t2"],
          ["sim", "S", "d", "t1", "t2"], ["d", "t1", "t2"]]


def stated_form(S):
    S = set(S)
    return bool(S & {"sim", "S", "d"}) and (S & {"t1", "t2"}) in (set(), {"t1", "t2"})


def random_history(rnd, stored, pool_kind, n_acts):
    stored = set(stored)
    acts = []
    replaced = set()
    removed_once = set()
    ran = False
    saved_ok = False        # a pickle exists and the set of stores did not change since
    for _ in range(n_acts):
        ch = ["run", "run", "run"]
        if pool_kind == "array" and ran:
            ch.append("save")
            if saved_ok:
                ch += ["staleopen", "staleopen"]
        removable = [n for n in stored if stated_form(stored - {n})]
        if removable and ran:
            ch.append("remove")
        # replacing a node requires that neither it nor anything computed from it is stored
        rep = [n for n in ("S", "d") if n not in stored and not (n == "S" and "d" in stored) and n not in replaced]
        if rep and ran:
            ch.append("replace")
        if pool_kind == "array" and ran:
            ch.append("reopen")
        if ran:
            ch.append("badctx")
        gone = [n for n in ("sim", "S", "d") if n not in stored and n in removed_once and n not in replaced
                and not (n == "S" and "S" in replaced) and not (n == "d" and ("S" in replaced or "d" in replaced))
                and not ({"t1", "t2"} & stored)]
        if gone and ran:
            ch += ["addstore", "addstore"]
        a = rnd.choice(ch)
        if a == "run":
            acts.append(["run", rnd.randint(1, 4)])
            ran = True
        elif a == "save":
            acts.append(["save"])
            saved_ok = True
        elif a == "staleopen":
            acts.append(["staleopen"])
            acts.append(["run", rnd.randint(2, 5)])
        elif a == "remove":
            n = rnd.choice(removable)
            stored.discard(n)
            removed_once.add(n)
            saved_ok = False
            acts.append(["remove", n])
        elif a == "addstore":
            n = rnd.choice(gone)
            stored.add(n)
            saved_ok = False
            acts.append(["addstore", n])
            acts.append(["run", rnd.randint(1, 4)])
        elif a == "replace":
            n = rnd.choice(rep)
            replaced.add(n)
            acts.append(["replace", n])
        elif a == "reopen":
            acts.append(["reopen"])
            saved_ok = True
        else:
            acts.append(["badctx", rnd.choice(["bs", "seed", "seed0"])])
    if not any(a[0] == "run" for a in acts[1:]):
        acts.append(["run", rnd.randint(1, 4)])
    return acts


PINNED_F29 = dict(stored=["d", "t1", "t2"], pool="output", bs=2, n=2, seed=11, extra=["S"], acts=[["run", 2], ["run", 2]], pinned="F29")


def is_f29(sc, tr, v):
    """F29 classifier: all parameters are stored, the simulator is not, and a requested output that is not stored is computed from the
    simulator (so the simulator re-runs on a generator that the loaded parameters did not advance); clause = result differs."""
    if v["verdict"] != "P:same-result-as-without-pool":
        return False
    stored = set(sc["stored"])
    for a in sc["acts"]:
        if a[0] == "remove":
            stored.discard(a[1])      # conservative: evaluated on the smallest stored set of the history
    needs_sim = [o for o in sc["extra"] + ["d"] if o in ("sim", "S", "d") and o not in stored]
    return {"t1", "t2"} <= stored and "sim" not in stored and bool(needs_sim)


def scenarios(ctx):
    rnd = random.Random(ctx.seed)
    out = [dict(PINNED_F29)]
    reps = 2 if ctx.quick else 12
    for stored in STATED:
        for pool_kind in ("output", "array"):
            for _ in range(reps):
                bs = rnd.choice([1, 2, 3])
                out.append(dict(stored=stored, pool=pool_kind, bs=bs, n=rnd.randint(1, bs), seed=rnd.randint(1, 2 ** 31 - 1),
                                keep_sampler=rnd.random() < 0.5, extra=rnd.choice([[], ["S"], ["S", "sim"]]),
                                acts=random_history(rnd, stored, pool_kind, rnd.randint(3, 6))))
    # one sampler object: fill, rerun with every batch held, remove a store that is not a requested output, rerun
    for stored, gone in ((["sim", "S"], "S"), (["sim", "S", "d"], "sim"), (["S", "d"], "S")):
        k = rnd.randint(2, 3)
        out.append(dict(stored=stored, pool="output", bs=2, n=2, seed=rnd.randint(1, 2 ** 31 - 1), extra=[], keep_sampler=True,
                        acts=[["run", k], ["run", k], ["remove", gone], ["run", k]]))
    # F37 (repaired): one sampler object; a run in which the simulator is loaded for every batch (an un-stored summary is requested
    # and computed from it); the simulator's store is removed; rerun - the simulator has to run again
    out.append(dict(stored=["sim", "d"], pool="output", bs=1, n=1, seed=1128080741, keep_sampler=True, extra=["S"],
                    acts=[["run", 3], ["run", 2], ["remove", "sim"], ["run", 3]], pinned="F37 history (fixed)"))
    # threshold runs on a client that keeps batches outstanding (speculative batches, some finished, are cancelled at the end)
    for j, stored in enumerate([["sim"], ["sim", "S"], ["S", "d"], ["sim", "S", "d", "t1", "t2"]] * (1 if ctx.quick else 3)):
        out.append(dict(stored=stored, pool=["output", "array"][j % 2], bs=rnd.choice([1, 2]), n=rnd.choice([2, 3]), seed=rnd.randint(1, 2 ** 31 - 1),
                        extra=[], keep_sampler=False, acts=[["run", 0], ["run", 0]],
                        sched=dict(thr=rnd.choice([1, 2, 3]), maxpar=rnd.choice([2, 3, 4]), seed=rnd.randint(0, 10 ** 6), p_ready=rnd.choice([0.2, 0.5]),
                                   p_run=rnd.choice([0.5, 0.9]))))
    # on-disk pools opened from a pickle that is older than the data files (saved, used further, not saved again)
    for stored in (STATED if not ctx.quick else [["sim"], ["S", "d"], ["sim", "S", "d", "t1", "t2"]]):
        k1, k2, k3 = rnd.randint(1, 2), rnd.randint(3, 4), rnd.randint(5, 7)
        out.append(dict(stored=stored, pool="array", bs=rnd.choice([1, 2, 3]), n=1, seed=rnd.randint(1, 2 ** 31 - 1), extra=[],
                        acts=[["run", k1], ["save"], ["run", k2], ["staleopen"], ["run", k3], ["run", k3]]))
    return out


def mc_cfg(sets, mb, mr, keep, invs, save=False):
    return """SPECIFICATION Spec
CONSTANTS
  StoredSets <- %s
  MaxBatches = %d
  MaxRuns = %d
  KeepForm = %s
  WithSave = %s
%s
CHECK_DEADLOCK FALSE
""" % (sets, mb, mr, "TRUE" if keep else "FALSE", "TRUE" if save else "FALSE", "\n".join("INVARIANT " + i for i in invs))


# ------------------------------------------------------------------ extension: pool API histories (PoolApi.tla)
def record_api(sc):
    import elfi
    from elfi.model.elfi_model import ComputationContext
    workdir = sc["workdir"]
    name = "api_%d_%d" % (os.getpid(), random.getrandbits(40))
    nodes = sc["nodes"]
    if sc["pool"] == "array":
        pool = elfi.ArrayPool(list(nodes), name=name, prefix=workdir)
    else:
        pool = elfi.OutputPool(list(nodes), name=name, prefix=workdir)
    pool.set_context(ComputationContext(batch_size=2, seed=3))
    events = []
    try:
        for op in sc["ops"]:
            e = dict(op=op[0], i=0, n="", ns=[], v=0, raised="", obs=dict(content=[], len=0))
            try:
                if op[0] == "add":
                    e["i"], e["ns"], e["v"] = op[1], op[2], op[3]
                    pool.add_batch({n: np.full(2, float(op[3])) for n in op[2]}, op[1])
                elif op[0] == "remove":
                    e["i"] = op[1]
                    pool.remove_batch(op[1])
                elif op[0] == "rmstore":
                    e["n"] = op[1]
                    st = pool.remove_store(op[1])
                    if hasattr(st, "delete"):
                        st.delete()
                elif op[0] == "clear":
                    pool.clear()
                elif op[0] == "flush":
                    pool.flush()
                elif op[0] == "reopen":
                    pool.close()
                    pool = type(pool).open(name, prefix=workdir)
                content = []
                for n in pool.stores:
                    st = pool.stores[n]
                    for i in range(8):
                        if st is not None and i in st:
                            vals = np.asarray(st[i]).reshape(-1)
                            content.append([n, i, int(vals[0]) if len(vals) and np.all(vals == vals[0]) else -1])
                e["obs"] = dict(content=content, len=int(len(pool)))
            except Exception as ex:
                e["raised"] = "%s: %s" % (type(ex).__name__, str(ex)[:80])
            events.append(e)
            if e["raised"]:
                break
    finally:
        try:
            pool.delete()
        except Exception:
            pass
        shutil.rmtree(os.path.join(workdir, name), ignore_errors=True)
    return dict(nodes=list(nodes), events=events)


def api_scenarios(ctx):
    rnd = random.Random(ctx.seed + 55)
    out = []
    for k in range(60 if ctx.quick else 600):
        pool_kind = rnd.choice(["output", "array"])
        nodes = rnd.sample(["a", "b", "c"], rnd.randint(1, 3))
        # (stores are created on first use; remove_batch / clear on a pool with never-used stores raise - an
        #  observation outside C05, see DESIGN 10 - so every history starts by adding batch 0 to all nodes)
        ops, held = [["add", 0, list(nodes), 1]], {n: [0] for n in nodes}
        live = list(nodes)
        for _ in range(rnd.randint(3, 9)):
            ch = ["add", "add", "add", "remove", "clear", "flush"] + (["reopen"] if pool_kind == "array" else []) + (["rmstore"] if len(live) > 1 else [])
            o = rnd.choice(ch)
            if o == "add":
                # on-disk array stores only support appending the next batch: keep every store contiguous there
                ns = [n for n in rnd.sample(live + ["other"], rnd.randint(1, len(live)))]
                if pool_kind == "array":
                    i = rnd.randint(0, 3)
                    ns = [n for n in ns if n == "other" or i <= len(held[n])]
                    if not ns:
                        continue
                else:
                    i = rnd.randint(0, 4)
                ops.append(["add", i, ns, rnd.randint(1, 9)])
                for n in ns:
                    if n in held and i not in held[n]:
                        held[n].append(i)
            elif o == "remove":
                i = rnd.randint(0, 4)
                if pool_kind == "array" and any(held[n] and i in held[n] and i != max(held[n]) for n in live):
                    continue          # array stores only support removing their last batch
                ops.append(["remove", i])
                for n in live:
                    if i in held[n]:
                        held[n].remove(i)
            elif o == "rmstore":
                n = rnd.choice(live)
                live.remove(n)
                ops.append(["rmstore", n])
            elif o == "clear":
                ops.append(["clear"])
                for n in live:
                    held[n] = []
            else:
                ops.append([o])
        out.append(dict(api=True, pool=pool_kind, nodes=nodes, ops=ops))
    return out


def check_api(ctx, scs):
    workdir = os.path.join(ctx.outdir, "pools")
    os.makedirs(workdir, exist_ok=True)
    traces = []
    for sc in scs:
        sc["workdir"] = workdir
        traces.append(record_api(sc))
    verdicts = ctx.validate("PoolApi_Trace", traces, chunk=200, name="api")
    for sc, tr, v in zip(scs, traces, verdicts):
        pub = {k: sc[k] for k in sc if k != "workdir"}
        ctx.case(str(pub), nontrivial=len(sc["ops"]) >= 4)
        if v["verdict"] != "ok":
            # the API model is an extension beyond the statement of C05: a mismatch is reported as drift, never as a violation
            e = tr["events"][min(v["l"] - 2, len(tr["events"]) - 1)]
            ctx.drifted("E:" + v["verdict"][2:], pub, detail=dict(event=e))
    return traces


# ------------------------------------------------------------------ extension: SMC over a pool (drift only, see DESIGN 5/C05)
def check_smc_pool(ctx):
    import elfi
    rnd = random.Random(ctx.seed + 77)
    traces, scs = [], []
    for k in range(4 if ctx.quick else 30):
        sc = dict(stored=rnd.choice([["sim"], ["S"], ["sim", "S"], ["d"]]), bs=rnd.choice([1, 2, 3]), n=rnd.choice([2, 3]), seed=rnd.randint(1, 10 ** 6),
                  thrs=[12.0, 8.0, 6.0][:rnd.randint(2, 3)], pool="output")
        events = []
        try:
            with time_limit(600):
                pool = elfi.OutputPool(list(sc["stored"]))
                ver = dict(S=0, d=0)

                def smc(pool_):
                    m = build(sc, ver)
                    res = elfi.SMC(m["d"], batch_size=sc["bs"], seed=sc["seed"], pool=pool_).sample(sc["n"], thresholds=sc["thrs"], bar=False)
                    h = hashlib.sha256()
                    for p in res.populations:
                        for kk in sorted(p.outputs):
                            h.update(np.ascontiguousarray(np.asarray(p.outputs[kk], dtype=float)).tobytes())
                        h.update(np.ascontiguousarray(p.weights).tobytes() + str(int(p.n_sim)).encode())
                    return h.hexdigest()[:16]
                twin = smc(None)
                for label in ("fill", "rerun"):
                    del CALLS[:]
                    events.append(dict(a="run", n="", k=0, raised="", res=smc(pool), twin=twin, held0={}, calls=[], pool={}))
        except Exception as ex:
            events.append(dict(a="run", n="", k=0, raised=type(ex).__name__, res="", twin="", held0={}, calls=[], pool={}))
        traces.append(dict(stored=list(sc["stored"]), events=events))
        scs.append(sc)
    verdicts = ctx.validate("Pool_Trace", traces, chunk=100, name="smcpool")
    for sc, tr, v in zip(scs, traces, verdicts):
        ctx.case("smc-pool:" + str(sc), nontrivial=True)
        if v["verdict"] != "ok":
            ctx.drifted("E:smc-" + v["verdict"][2:], sc, detail=tr["events"][-1])


def check_scenarios(ctx, scs):
    if scs and scs[0].get("api"):
        return check_api(ctx, scs)
    workdir = os.path.join(ctx.outdir, "pools")
    os.makedirs(workdir, exist_ok=True)
    traces = []
    for sc in scs:
        sc["workdir"] = workdir
        traces.append(record(sc))
    verdicts = ctx.validate("Pool_Trace", traces, chunk=100)
    for sc, tr, v in zip(scs, traces, verdicts):
        pub = {k: sc[k] for k in sc if k != "workdir"}
        ctx.case(str(pub), nontrivial=sum(1 for a in sc["acts"] if a[0] == "run") >= 2)
        ctx.trace_events += len(tr["events"])
        if v["verdict"] != "ok":
            e = tr["events"][min(v["l"] - 2, len(tr["events"]) - 1)]
            ctx.fail(v["verdict"], pub, detail=dict(event={k: e[k] for k in ("a", "n", "k", "raised", "res", "twin", "held0", "calls")}, exc=e.get("exc")),
                     finding="F29" if is_f29(sc, tr, v) else None)
        elif v["drift"]:
            ctx.drifted(v["drift"], pub)
    return traces


def run(ctx):
    ctx.rule = ("for each of 11 stored sets of the stated form x {OutputPool, ArrayPool on disk}: seeded random histories of 3-6 actions over "
                "{run k batches (fill / rerun / rerun needing more), remove a store (keeping the stated form), replace the summary or the distance, "
                "close+reopen the on-disk pool, a run with another batch_size / seed}; Rejection with batch sizes 1-3; every run has a pool-free twin; "
                "operations count calls per (node, batch).  Non-trivial = at least two runs over the pool.")
    ctx.clauses_decided = ["a: same results with and without pool (filling, reusing, after downstream change)", "b: stored operation never re-invoked for a held batch",
                           "c: pool holds exactly the consumed batches with fresh-computation values", "d: other batch_size / seed refused"]
    ctx.clauses_not_decided = ["SMC / BOLFI with pools (the statement's results are those of Rejection-type runs whose parameters come from the prior)"]
    ctx.tlc("MC_Pool", "MC_Pool_stated", cfg_text=mc_cfg("Stated", 3, 3 if ctx.quick else 4, True, ["Transparent", "NoResim", "PoolFresh"]),
            expect_actions=["Run", "RemoveStore", "Replace"], timeout=900)
    # on-disk pools: saved, used further, opened from the older pickle
    ctx.tlc("MC_Pool", "MC_Pool_save", cfg_text=mc_cfg("StatedSmall" if ctx.quick else "Stated", 3, 3, True, ["Transparent", "NoResim", "PoolFresh"], save=True),
            expect_actions=["Run", "Save", "StaleOpen"], timeout=1500)
    ctx.tlc("MC_Pool", "MC_Pool_partial", cfg_text=mc_cfg("Partial", 2, 2, True, ["Transparent"]), expect_ok=False, timeout=300)
    ctx.tlc("MC_Pool", "MC_Pool_formbreak", cfg_text=mc_cfg("Stated", 2, 2, False, ["Transparent"]), expect_ok=False, timeout=300)
    ctx.tlc("PoolApi", "MC_PoolApi", cfg_text="""SPECIFICATION Spec
CONSTANTS
  Nodes = {"a", "b"}
  Batches = {0, 1, 2}
  Vals = {1, 2}
  MaxOps = 4
INVARIANT LenBounds
INVARIANT OnlyKnownNodes
PROPERTY NeverOverwrites
CHECK_DEADLOCK FALSE
""", expect_actions=["Next"], timeout=900, label="PoolApi (extension)")
    check_api(ctx, api_scenarios(ctx))
    check_smc_pool(ctx)
    from harness.props import x_two_stage
    obs = x_two_stage.check_two_stage(ctx)      # extension: TwoStageSelection and its internal pool (drift only)
    ctx.notes.append("extension TwoStage: %s" % obs)
    scs = scenarios(ctx)
    traces = check_scenarios(ctx, scs)
    for i in (0, len(scs) // 2):
        ctx.sample(dict(scenario={k: scs[i][k] for k in scs[i] if k != "workdir"},
                        events=[{k: e[k] for k in ("a", "n", "k", "res", "twin", "held0")} for e in traces[i]["events"][:3]]))


def replay(ctx, scenario):
    check_scenarios(ctx, [scenario])

"""EXTENSION (no listed property): node NAMING, the DEFAULT MODEL, NODE-REFERENCE bookkeeping and ComputationContext / BatchHandler
bookkeeping (elfi/model/elfi_model.py, elfi/model/graphical_model.py add_node / remove_node / update_node, elfi/client.py BatchHandler,
elfi/loader.py AdditionalNodesLoader).  Graph structure under edits is C14 (ElfiGraph*.tla); this covers what that leaves out.

O1: Naming.tla (machine over NamingOps.tla): every public call runs through the transcribed stages of NodeReference.__init__
    (require / model / name / add / parent / finish) with the environment choosing each random_name() draw from a two-letter alphabet (so
    auto names collide with existing ones); user-level theorems (names unique, node lands in exactly one model under the expected name, auto
    names never refused, other models unchanged, a call that raises changes nothing, only documented exception types, synced references
    round-trip through model[name], become refreshes both references, remove_node takes only Constants along, default model = last set,
    flags follow the class until the setter is used) hold on the REPAIRED machine (eight repairs) and TLC refutes one of them when any single
    repair is left out (eight controls = eight findings), plus two controls no repair helps (stale references revive by name; random model
    names unchecked).  NamingCtx.tla: ComputationContext defaults / pool context / num_submissions / submission_index (two controls).
O3: pinned and seeded-random call histories on REAL elfi objects; node constructors are executed from generated source files so that
    _inspect_name reads real source lines; uuid4 / random_seed are scripted (wrappers, /repo untouched).  Naming_Trace.tla replays every
    history with Run (F = {}: the code as transcribed) and compares models, node order, classes, flags, parents, observed keys, default model,
    every reference object (model, name, type, validity, state class), parameter_names (sorted by code point), draws consumed and outcome.
All failures are E: clauses, reported as drift.
"""
import contextlib
import copy
import io
import logging
import os
import random
import threading
import warnings

from harness import tlc
from harness.util import Hang, time_limit

CALL_LIMIT_S = 20
ALL_FIXES = ["become_class", "become_atomic", "create_atomic", "setter_atomic", "invalid_model_raises", "empty_name_refused",
             "size_reads_attr_dict", "cascade_constants_only"]
INFER_FORMS = ["simple", "bare", "nospace", "spaces", "indented", "multiline", "comment", "deep_alias", "sub_super", "helper_local",
               "semicolon_second", "nested_suffix"]
NOINFER_FORMS = ["underscore", "chained", "attr", "subscript", "expr", "tuple", "annot", "paren", "call_space", "continued", "helper_return",
                 "lambda", "sub_direct", "nested_inner"]
CLASSES = ["Operation", "Prior", "Simulator", "Summary", "Discrepancy", "Constant", "RandomVariable"]
HAS_SIZE = ("Prior", "LogPrior", "DirPrior", "RandomVariable")
OBSERVABLE = ("Simulator", "Summary")

A0 = dict(op="", cls="Operation", marg=0, nk="none", nm="", und=False, form="expr", target="", parents=[], obs=False, keep=True, h=0, x="",
          r1=0, r2=0, P=[], named=False, setdef=False)
B0 = dict(op="", bs=-1, seed=-1, pool=0, rs=0, ctx=0, hd=0, bi=0)


def A(op, **kw):
    a = copy.deepcopy(A0)
    a["op"] = op
    a.update(kw)
    if a["nm"]:
        a["und"] = a["nm"].startswith("_")
    return a


def B(op, **kw):
    b = dict(B0)
    b["op"] = op
    b.update(kw)
    return b


LIT = dict(kind="lit", id=0)


def REF(i):
    return dict(kind="ref", id=i)


# ------------------------------------------------------------------------------ the pieces executed on real elfi
def fop(*a, **k):
    import numpy as np
    return np.zeros(k.get("batch_size", 1))


class _Fake:
    """functions that are no elfi classes but whose NAMES make the regex of _inspect_name match (semicolon_second / nested_suffix)"""

    def __getattr__(self, name):
        if name.startswith("X") or name == "wrap":
            return lambda x=None, *a, **k: x
        return lambda *a, **k: None


_SUB = {}


def subclasses():
    if not _SUB:
        import elfi

        class LogPrior(elfi.Prior):
            def __init__(self, *a, **k):
                super().__init__(*a, **k)

        class DirPrior(elfi.Prior):
            def __init__(self, *a, **k):
                elfi.Prior.__init__(self, *a, **k)
        _SUB.update(LogPrior=LogPrior, DirPrior=DirPrior)
    return _SUB


class _Uuid:
    """stands in for the module `uuid` inside elfi.model.elfi_model: uuid4().hex starts with the scripted four characters"""

    def __init__(self, script, rnd, alpha):
        self.script = list(script)
        self.rnd = rnd
        self.alpha = alpha
        self.log = None

    def uuid4(self):
        if self.script:
            tok = self.script.pop(0)
        elif self.alpha and self.rnd.random() < 0.7:
            tok = self.rnd.choice(self.alpha)
        else:
            tok = "%04x" % self.rnd.randrange(65536)
        if self.log is not None:
            self.log.append(tok)

        class U:
            hex = tok + "0" * 28
        return U()


@contextlib.contextmanager
def quiet():
    lg = logging.getLogger("elfi")
    old = lg.level
    lg.setLevel(logging.CRITICAL)
    try:
        with contextlib.redirect_stdout(io.StringIO()), warnings.catch_warnings():
            warnings.simplefilter("ignore")
            yield
    finally:
        lg.setLevel(old)


def ctor_text(a, prefix):
    cls = a["cls"]
    if cls in ("Prior", "RandomVariable", "LogPrior", "DirPrior"):
        pos = ["'uniform'"]
    elif cls == "Constant":
        pos = ["7"]
    elif cls == "Distance":
        pos = ["'euclidean'"]
    elif cls == "AdaptiveDistance":
        pos = []
    else:
        pos = ["f"]
    for k, p in enumerate(a["parents"]):
        pos.append("R[%d]" % (p["id"] - 1) if p["kind"] == "ref" else str(3 + k))
    if a["marg"] == -1:
        pos.append("model='nomodel'")
    elif a["marg"] > 0:
        pos.append("model=M[%d]" % (a["marg"] - 1))
    if a["nk"] == "plain":
        pos.append("name=%r" % a["nm"])
    elif a["nk"] == "star":
        pos.append("name=%r" % (a["nm"] + "*"))
    elif a["nk"] == "empty":
        pos.append("name=''")
    if a["obs"]:
        pos.append("observed=5")
    if cls in ("LogPrior", "DirPrior"):
        prefix = ""
    return prefix + cls, ", ".join(pos)


def render(a):
    """(source text of the statement, expression that fetches the new reference or None)"""
    form = a["form"] if a["nk"] == "none" else "simple"
    t = a["target"] if (a["nk"] == "none" and form in INFER_FORMS) else "v9"
    prefix = {"bare": "", "deep_alias": "elfi.model.elfi_model."}.get(form, "elfi.")
    fn, args = ctor_text(a, prefix)
    call = "%s(%s)" % (fn, args)
    if form in ("simple", "bare", "deep_alias", "sub_super", "sub_direct"):
        return "%s = %s" % (t, call), t
    if form == "nospace":
        return "%s=%s" % (t, call), t
    if form == "spaces":
        return "%s   =   %s" % (t, call), t
    if form == "indented":
        return "if True:\n    %s = %s" % (t, call), t
    if form == "multiline":
        return "%s = %s(\n    %s)" % (t, fn, args), t
    if form == "comment":
        return "%s = %s  # y9 = %s(" % (t, call, fn), t
    if form == "helper_local":
        return "def mk9():\n    %s = %s\n    return %s\nw9 = mk9()" % (t, call, t), "w9"
    if form == "semicolon_second":
        return "%s = fake.%s(0); w9 = %s" % (t, a["cls"], call), "w9"
    if form == "nested_suffix":
        return "%s = fake.X%s(%s)" % (t, a["cls"], call), t
    if form == "underscore":
        return "_v9 = %s" % call, "_v9"
    if form == "chained":
        return "y9 = v9 = %s" % call, "v9"
    if form == "attr":
        return "o.v9 = %s" % call, "o.v9"
    if form == "subscript":
        return "d['v9'] = %s" % call, "d['v9']"
    if form == "expr":
        return call, None
    if form == "tuple":
        return "v9, y9 = %s, 1" % call, "v9"
    if form == "annot":
        return "v9: object = %s" % call, "v9"
    if form == "paren":
        return "v9 = (%s)" % call, "v9"
    if form == "call_space":
        return "v9 = %s (%s)" % (fn, args), "v9"
    if form == "continued":
        return "v9 = \\\n    %s" % call, "v9"
    if form == "helper_return":
        return "def mk9():\n    return %s\nv9 = mk9()" % call, "v9"
    if form == "lambda":
        return "v9 = (lambda: %s)()" % call, "v9"
    if form == "nested_inner":
        return "v9 = fake.wrap(%s)" % call, "v9"
    raise RuntimeError("unknown form %r" % form)


class World:
    """the real objects of one history + their projection"""

    def __init__(self, srcpath):
        import elfi
        self.M = []
        self.R = []
        self.srcpath = srcpath
        self.lines = 0
        open(srcpath, "w").close()

        class O:
            pass
        self.ns = dict(elfi=elfi, M=self.M, R=self.R, f=fop, o=O(), d={}, fake=_Fake(), **subclasses())
        for c in CLASSES:
            self.ns[c] = getattr(elfi, c)

    def run_source(self, text):
        with open(self.srcpath, "a") as f:
            f.write(text + "\n")
        code = compile("\n" * self.lines + text + "\n", self.srcpath, "exec")
        self.lines += text.count("\n") + 1
        exec(code, self.ns)

    def note_models(self, *objs):
        import elfi.model.elfi_model as em
        for m in list(objs) + [em._default_model]:
            if isinstance(m, em.ElfiModel) and not any(m is k for k in self.M):
                self.M.append(m)

    def hidx(self, m):
        for i, k in enumerate(self.M):
            if k is m:
                return i + 1
        return 0

    def project(self):
        import elfi.model.elfi_model as em
        models = []
        for m in self.M:
            nodes = []
            for n in list(m.source_net.nodes()):
                st = m.source_net.nodes[n].get("attr_dict") or {}
                try:
                    par = list(m.get_parents(n))
                except Exception:
                    par = ["?"]
                nodes.append(dict(name=n, cls=getattr(st.get("_class"), "__name__", "?"), param="_parameter" in st, priv=n.startswith("_"), par=par))
            try:
                pn = list(m.parameter_names)
            except Exception:
                pn = ["?"]
            models.append(dict(mname=str(m.name), nodes=nodes, obs=[str(k) for k in m.observed.keys()], pnames=pn))
        refs = []
        for r in self.R:
            try:
                stcls = r.state["attr_dict"]["_class"].__name__
                valid = True
            except Exception:
                stcls, valid = "", False
            refs.append(dict(h=self.hidx(r.model), name=str(r.name), cls=type(r).__name__, valid=valid, stcls=stcls))
        return dict(models=models, default=self.hidx(em._default_model), refs=refs)


def execute(w, a, extra):
    """one public call on the real objects; returns the handle of a returned model (0 = none)"""
    import elfi
    op = a["op"]
    if op == "create":
        text, fetch = render(a)
        w.run_source(text)
        if a["keep"] and fetch is not None:
            w.R.append(eval(fetch, w.ns))
    elif op == "lookup":
        m = w.M[a["h"] - 1]
        w.R.append(m[a["x"]] if extra.get("via") != "get_reference" else m.get_reference(a["x"]))
    elif op == "parents":
        w.R.extend(w.R[a["r1"] - 1].parents)
    elif op == "remove":
        w.M[a["h"] - 1].remove_node(a["x"])
    elif op == "become":
        w.R[a["r1"] - 1].become(w.R[a["r2"] - 1])
    elif op == "setparams":
        w.M[a["h"] - 1].parameter_names = list(a["P"])
    elif op == "setdefault":
        elfi.set_default_model(None if a["marg"] == 0 else ("nomodel" if a["marg"] == -1 else w.M[a["marg"] - 1]))
    elif op == "newmodel":
        name = a["nm"] if a["named"] else None
        if extra.get("via") == "ctor" and not a["setdef"]:
            m = elfi.ElfiModel(name=name)
        else:
            m = elfi.new_model(name, set_default=a["setdef"])
        w.note_models(m)
        return w.hidx(m)
    elif op == "getdefault":
        m = elfi.get_default_model()
        w.note_models(m)
        return w.hidx(m)
    elif op == "size":
        w.R[a["r1"] - 1].size
    else:
        raise RuntimeError("unknown op %r" % op)
    return 0


def fresh_pair(w, r1, r2):
    """domain of become: when both nodes exist in one model and differ, the replacement has no children and is no descendant"""
    import networkx as nx
    s, o = w.R[r1 - 1], w.R[r2 - 1]
    if s.model is not o.model or s.name == o.name:
        return True
    g = s.model.source_net
    if not (g.has_node(s.name) and g.has_node(o.name)):
        return True
    return not list(g.successors(o.name)) and o.name not in nx.descendants(g, s.name)


# ------------------------------------------------------------------------------ random histories (chosen against the live objects)
NAME_POOL = ["a", "b", "c", "x1", "theta", "X", "_p", "a_b"]
TARGET_POOL = ["a", "b", "c", "x1", "theta", "X", "mu_2"]


def choose_call(rnd, w, k):
    """next call of a random history, as (a, extra) - or None to skip"""
    nM, nR = len(w.M), len(w.R)
    names = {h + 1: list(m.source_net.nodes()) for h, m in enumerate(w.M)}
    ops = [("create", 8), ("newmodel", 1.2 if nM < 4 else 0.1), ("setdefault", 0.8), ("getdefault", 0.4)]
    if nM:
        ops += [("lookup", 1.5), ("remove", 1.6), ("setparams", 1.0)]
    if nR:
        ops += [("parents", 0.6), ("size", 0.5)]
    if nR >= 2:
        ops += [("become", 2.2)]
    op = rnd.choices([o[0] for o in ops], [o[1] for o in ops])[0]
    extra = {}
    if op == "create":
        cls = rnd.choices(CLASSES + ["LogPrior", "DirPrior"], [5, 5, 2, 1.5, 1, 1, 1, 0.7, 0.5])[0]
        marg = rnd.choices([0, "live", -1], [4, 5 if nM else 0, 0.3])[0]
        if marg == "live":
            marg = rnd.randint(1, nM)
        a = A("create", cls=cls, marg=marg)
        u = rnd.random()
        if u < 0.33:
            a.update(nk="plain", nm=rnd.choice(NAME_POOL))
        elif u < 0.48:
            a.update(nk="star", nm=rnd.choice(["a", "b", "_p", "", ""]))
        elif u < 0.50:
            a.update(nk="empty")
        else:
            if cls == "LogPrior":
                form = rnd.choice(["sub_super", "sub_super", "expr", "chained"])
            elif cls == "DirPrior":
                form = rnd.choice(["sub_direct", "sub_direct", "expr"])
            else:
                form = rnd.choice([f for f in INFER_FORMS + NOINFER_FORMS if f not in ("sub_super", "sub_direct")])
            a.update(nk="none", form=form, target=rnd.choice(TARGET_POOL) if form in INFER_FORMS else "")
        a["und"] = a["nm"].startswith("_")
        npar = 0 if cls == "Constant" else rnd.choices([0, 1, 2], [3, 4, 2] if cls not in ("Summary", "Discrepancy") else [0.6, 4, 2])[0]
        used = set()
        for _ in range(npar):
            if nR and rnd.random() < 0.6:
                i = rnd.randint(1, nR)
                r = w.R[i - 1]
                key = (id(r.model), r.name)
                newname = a["nm"] if a["nk"] == "plain" else a["target"]
                if key in used or (r.name == newname):
                    continue
                used.add(key)
                a["parents"].append(REF(i))
            else:
                a["parents"].append(dict(LIT))
        a["obs"] = cls in OBSERVABLE and rnd.random() < 0.35
        a["keep"] = not (a["nk"] == "none" and a["form"] == "expr")
        return a, extra
    if op == "lookup":
        h = rnd.randint(1, nM)
        x = rnd.choice(names[h]) if names[h] and rnd.random() < 0.85 else rnd.choice(NAME_POOL + ["zz"])
        extra["via"] = rnd.choice(["getitem", "get_reference"])
        return A("lookup", h=h, x=x), extra
    if op == "parents":
        return A("parents", r1=rnd.randint(1, nR)), extra
    if op == "remove":
        h = rnd.randint(1, nM)
        x = rnd.choice(names[h]) if names[h] and rnd.random() < 0.9 else "zz"
        return A("remove", h=h, x=x), extra
    if op == "become":
        for _ in range(6):
            r1, r2 = rnd.randint(1, nR), rnd.randint(1, nR)
            if (r1 != r2 or rnd.random() < 0.1) and fresh_pair(w, r1, r2):
                return A("become", r1=r1, r2=r2), extra
        return None
    if op == "setparams":
        h = rnd.randint(1, nM)
        P = [n for n in names[h] if rnd.random() < 0.4]
        if rnd.random() < 0.12:
            P.append("zz")
        return A("setparams", h=h, P=P), extra
    if op == "setdefault":
        marg = rnd.choices([0, "live", -1], [1.5, 3 if nM else 0, 0.3])[0]
        return A("setdefault", marg=rnd.randint(1, nM) if marg == "live" else marg), extra
    if op == "newmodel":
        named = rnd.random() < 0.5
        extra["via"] = rnd.choice(["new_model", "ctor"])
        setdef = rnd.random() < 0.6
        if extra["via"] == "ctor":
            setdef = False
        return A("newmodel", named=named, nm="mod%d_%d" % (k, nM) if named else "", setdef=setdef), extra
    if op == "getdefault":
        return A("getdefault"), extra
    if op == "size":
        cands = [i + 1 for i, r in enumerate(w.R) if type(r).__name__ in HAS_SIZE]
        if not cands:
            return None
        return A("size", r1=rnd.choice(cands)), extra
    return None


# ------------------------------------------------------------------------------ recording (naming)
def record_naming(sc, srcdir, k):
    import elfi.model.elfi_model as em
    rnd = random.Random(sc["seed"])
    saved_default, saved_uuid = em._default_model, em.uuid
    stub = _Uuid(sc.get("script", []), random.Random(sc["seed"] + 17), sc.get("alpha", []))
    em._default_model = None
    em.uuid = stub
    events, calls = [], []
    try:
        with quiet():
            w = World(os.path.join(srcdir, "hist_%04d.py" % k))
            fixed = sc.get("calls")
            n = len(fixed) if fixed is not None else sc["n"]
            for j in range(n):
                if fixed is not None:
                    a, extra = copy.deepcopy(fixed[j][0]), dict(fixed[j][1])
                    if max(a["r1"], a["r2"], *[p["id"] for p in a["parents"]] + [0]) > len(w.R) or max(a["h"], a["marg"]) > len(w.M):
                        break          # a changed tree refused an earlier call of a pinned history: its verdict is already decided
                else:
                    got = choose_call(rnd, w, k)
                    if got is None:
                        continue
                    a, extra = got
                calls.append([a, extra])
                e = dict(a=a, draws=[], raised="", ret=0)
                stub.log = e["draws"]
                try:
                    with time_limit(CALL_LIMIT_S):
                        e["ret"] = execute(w, a, extra)
                except Hang:
                    e["raised"] = "Hang"
                except Exception as ex:
                    e["raised"] = type(ex).__name__
                    e["msg"] = str(ex)[:100]
                stub.log = None
                w.note_models()
                e["obs"] = w.project()
                e.setdefault("msg", "")
                events.append(e)
    finally:
        em._default_model = saved_default
        em.uuid = saved_uuid
    names = {"zz"}
    for e in events:
        for m in e["obs"]["models"]:
            names.update(nd["name"] for nd in m["nodes"])
            names.update(m["pnames"])
        if e["a"]["nm"]:
            names.add(e["a"]["nm"])
    sc["calls"] = calls
    return dict(kind="naming", codes={n: [ord(c) for c in n] for n in names}, events=events)


# ------------------------------------------------------------------------------ recording (context)
def metaop(t, meta=None):
    import numpy as np
    ms = meta["master_seed"]
    ms = -2 if ms == "global" else int(ms)
    return np.array([[meta["batch_index"], meta["submission_index"], ms]] * len(np.atleast_1d(t)))


def record_ctx(sc):
    import elfi
    import elfi.client
    import elfi.model.elfi_model as em
    from elfi.clients.native import Client
    rnd = random.Random(sc["seed"])
    saved_rs, saved_default = em.random_seed, em._default_model
    box = [0]
    em.random_seed = lambda: box[0]
    events, calls = [], []
    try:
        with quiet():
            m = elfi.ElfiModel(name="xnaming_ctx")
            elfi.Prior("uniform", model=m, name="t")
            o = elfi.Operation(metaop, m["t"], model=m, name="o")
            o.uses_meta = True
            ctxs, pools, hds = [], [], []

            def none(v):
                return None if v == -1 else ("global" if v == -2 else v)

            def code(v):
                return -1 if v is None else (-2 if v == "global" else int(v))
            fixed = sc.get("calls")
            n = len(fixed) if fixed is not None else sc["n"]
            for j in range(n):
                if fixed is not None:
                    b = dict(fixed[j])
                    if b["pool"] > len(pools) or b["ctx"] > len(ctxs) or b["hd"] > len(hds):
                        break
                else:
                    ops = [("newctx", 3 if len(ctxs) < 3 else 0.3), ("newpool", 1 if len(pools) < 2 else 0), ("generate", 0.7)]
                    if ctxs:
                        ops.append(("handler", 2 if len(hds) < 3 else 0.2))
                    if hds:
                        ops += [("submit", 6), ("wait", 3), ("cancel", 1), ("reset", 0.7), ("compute", 1)]
                    op = rnd.choices([x[0] for x in ops], [x[1] for x in ops])[0]
                    b = B(op)
                    if op == "newctx":
                        b.update(bs=rnd.choice([-1, -1, 0, 1, 2, 3]), seed=rnd.choice([-1, -1, 0, 0, 5, 9, -2]), rs=rnd.randint(1, 10 ** 6),
                                 pool=rnd.choice([0, 0] + list(range(1, len(pools) + 1))))
                    elif op == "handler":
                        b.update(ctx=rnd.randint(1, len(ctxs)))
                    elif op in ("submit", "wait", "cancel", "reset", "compute"):
                        b.update(hd=rnd.randint(1, len(hds)), bi=rnd.randint(0, 6) if op == "compute" else 0)
                    elif op == "generate":
                        b.update(bs=rnd.choice([1, 2]), seed=rnd.choice([-1, 0, 4]))
                calls.append(b)
                e = dict(b=b, raised="", ret=[], mbi=0)
                try:
                    with time_limit(CALL_LIMIT_S):
                        op = b["op"]
                        if op == "newctx":
                            box[0] = b["rs"]
                            c = em.ComputationContext(batch_size=none(b["bs"]), seed=none(b["seed"]), pool=pools[b["pool"] - 1] if b["pool"] else None)
                            ctxs.append(c)
                        elif op == "newpool":
                            pools.append(elfi.OutputPool())
                        elif op == "handler":
                            hds.append(elfi.client.BatchHandler(m, ctxs[b["ctx"] - 1], ["o"], client=Client()))
                        elif op == "submit":
                            hds[b["hd"] - 1].submit()
                        elif op == "wait":
                            batch, bi = hds[b["hd"] - 1].wait_next()
                            row = batch["o"][0]
                            e["ret"], e["mbi"] = [int(bi), int(row[1]), int(row[2])], int(row[0])
                        elif op == "cancel":
                            hds[b["hd"] - 1].cancel_pending()
                        elif op == "reset":
                            hds[b["hd"] - 1].reset()
                        elif op == "compute":
                            row = hds[b["hd"] - 1].compute(b["bi"])["o"][0]
                            e["ret"], e["mbi"] = [int(b["bi"]), int(row[1]), int(row[2])], int(row[0])
                        elif op == "generate":
                            row = m.generate(b["bs"], ["o"], seed=none(b["seed"]))["o"][0]
                            e["ret"], e["mbi"] = [0, int(row[1]), int(row[2])], int(row[0])
                except Hang:
                    e["raised"] = "Hang"
                except Exception as ex:
                    e["raised"] = type(ex).__name__
                    e["msg"] = str(ex)[:100]
                e.setdefault("msg", "")

                def pidx(p):
                    for i, q in enumerate(pools):
                        if q is p:
                            return i + 1
                    return 0

                def cidx(c):
                    for i, q in enumerate(ctxs):
                        if q is c:
                            return i + 1
                    return 0
                e["obs"] = dict(ctxs=[dict(bs=code(c.batch_size), seed=code(c.seed), pool=pidx(c.pool), nsub=int(c.num_submissions)) for c in ctxs],
                                pools=[dict(bs=code(p.batch_size), seed=code(p.seed)) for p in pools],
                                hds=[dict(ctx=cidx(h.context), next=int(h.next_index), pend=[int(i) for i in h.pending_indices]) for h in hds])
                events.append(e)
    finally:
        em.random_seed = saved_rs
        em._default_model = saved_default
    sc["calls"] = calls
    return dict(kind="ctx", codes={"zz": [122, 122]}, events=events)


# ------------------------------------------------------------------------------ scenarios
def S(calls, script=(), pin=None, seed=1):
    return dict(kind="naming", calls=[[c, {}] if isinstance(c, dict) else [c[0], c[1]] for c in calls], script=list(script), alpha=[], seed=seed, pin=pin)


def mk(cls="Operation", name=None, star=None, h=1, parents=(), form=None, target="", obs=False, keep=True):
    a = A("create", cls=cls, marg=h, parents=[dict(p) for p in parents], obs=obs, keep=keep)
    if name is not None:
        a.update(nk="plain" if name else "empty", nm=name)
    elif star is not None:
        a.update(nk="star", nm=star)
    else:
        a.update(nk="none", form=form or "simple", target=target if (form or "simple") in INFER_FORMS else "")
        if a["form"] == "expr":
            a["keep"] = False
    a["und"] = a["nm"].startswith("_")
    return a


NEWM = A("newmodel", named=True, nm="m1", setdef=False)


def pinned():
    """one deterministic history per finding / rule (reproduced on every run, whatever the seed)"""
    out = [
        S([NEWM, mk("Operation", "a"), mk("Prior", "b"), A("become", r1=1, r2=2), A("lookup", h=1, x="a")],
          pin="become(): type(self) is never updated (state.get('_class') looks into the networkx node dict)"),
        S([NEWM, mk("Operation", "a"), mk("Simulator", "b", obs=True), mk("Operation", "c", parents=[REF(1)]), A("remove", h=1, x="b"),
           A("become", r1=1, r2=2)], pin="become() with a reference whose node is gone: KeyError AFTER self's node was removed"),
        S([NEWM, mk("Operation", "a"), mk("Simulator", "b", obs=True), A("remove", h=1, x="a"), A("become", r1=1, r2=2)],
          pin="become() on a dangling reference: NetworkXError AFTER the other node's observed data were popped"),
        S([NEWM, mk("Operation", "a"), A("lookup", h=1, x="a"), A("become", r1=1, r2=2)], pin="a.become(model['a']): KeyError, node a is gone"),
        S([NEWM, mk("Operation", "a"), A("remove", h=1, x="a"), mk("Operation", "q", parents=[LIT, REF(1), LIT])],
          pin="constructor given a reference to a removed node: ValueError, but q and its first constant stay in the model"),
        S([NEWM, mk("Prior", "a"), mk("Prior", "b"), mk("Operation", "c"), A("setparams", h=1, P=["c", "zz"])],
          pin="parameter_names = [.., unknown]: ValueError AFTER every flag was rewritten"),
        S([NEWM, mk("Operation", "a", h=-1), mk("Operation", star="a", h=-1), mk("Operation", form="simple", target="a", h=-1),
           mk("Operation", form="expr", h=-1)], pin="model='nomodel': _determine_model RETURNS its ValueError -> AttributeError"),
        S([NEWM, mk("Operation", "")], pin="name='': IndexError from name[-1]"),
        S([NEWM, mk("Prior", "a"), A("size", r1=1), mk("RandomVariable", "b"), A("size", r1=2)], pin="RandomVariable.size: KeyError 'size' for every node"),
        S([NEWM, mk("Prior", form="nested_inner"), mk("Operation", "x", parents=[REF(1)]), A("remove", h=1, x="x")], script=["1a2b"],
          pin="remove_node(child) takes the auto-named Prior _prior_1a2b along (leading underscore = 'private')"),
        S([NEWM, mk("Operation", "a"), A("remove", h=1, x="a"), mk("Prior", "a"), A("lookup", h=1, x="a")],
          pin="a stale reference revives when the name is used again (type(ref) Operation, node class Prior)"),
        S([A("newmodel"), A("newmodel"), A("setdefault", marg=0)], script=["c0de", "c0de", "c0de"], pin="three ElfiModel() with the same random suffix share one name"),
        # the '*' rule, auto names and private constants under forced collisions
        S([NEWM, mk("Operation", star="x"), mk("Operation", star="x"), mk("Operation", star="x", parents=[LIT, LIT]), mk("Operation", star=""),
           mk("Prior", star=""), mk("Prior", form="expr"), A("remove", h=1, x="x_aaaa"), mk("Operation", star="x")],
          script=["aaaa", "aaaa", "bbbb", "aaaa", "bbbb", "cccc", "aaaa", "aaaa", "bbbb", "aaaa", "aaaa", "aaaa", "bbbb", "aaaa"],
          pin="'*' names and private constants retried while taken; a freed name is given out again"),
        # where the node lands
        S([mk("Operation", "a", h=0), A("getdefault"), A("newmodel", named=True, nm="m2", setdef=True), mk("Operation", "a", h=0),
           mk("Operation", "b", h=0, parents=[REF(1)]), mk("Operation", "c", h=1, parents=[REF(2)]), mk("Operation", "d", h=0, parents=[REF(1), REF(2)]),
           A("setdefault", marg=1), mk("Operation", "e", h=0), A("newmodel", named=True, nm="m3", setdef=False), mk("Operation", "f", h=0),
           (A("newmodel", setdef=False), dict(via="ctor")), A("setdefault", marg=-1), mk("Operation", "g", h=3, parents=[LIT])], script=["d0d0", "e1e1", "f2f2"],
          pin="model= / parent's model / default model; parents of two models; set_default_model / new_model"),
        # duplicate names
        S([NEWM, mk("Operation", "a"), mk("Prior", "a"), mk("Operation", form="simple", target="a"), mk("Constant", "a"), A("lookup", h=1, x="zz"),
           A("remove", h=1, x="zz"), mk("Summary", "s"), mk("Discrepancy", "d2"), mk("Summary", "s", parents=[REF(1)], obs=True), A("parents", r1=3)],
          script=["9f9f"], pin="duplicate explicit name refused; inferred duplicate gets an auto name; Summary / Discrepancy without parents"),
    ]
    # every source shape once, two targets
    for i, form in enumerate(INFER_FORMS + NOINFER_FORMS):
        cls = "LogPrior" if form == "sub_super" else "DirPrior" if form == "sub_direct" else ["Operation", "Prior", "Simulator"][i % 3]
        out.append(S([NEWM, mk(cls, form=form, target="theta"), mk(cls, form=form, target="theta"), mk(cls, form=form, target="X", h=0),
                      A("setparams", h=1, P=[])], seed=100 + i, pin="source shape %s" % form))
    return out


def ctx_pinned():
    return [dict(kind="ctx", seed=3, pin="context defaults, pool context, batch_size=0", calls=[
        B("newctx", rs=77), B("newctx", bs=0, seed=0, rs=78), B("newctx", bs=3, seed=-2), B("newpool"), B("newctx", bs=2, seed=7, pool=1),
        B("newctx", pool=1, rs=5), B("newctx", bs=3, pool=1), B("newctx", seed=0, pool=1), B("newctx", bs=0, pool=1), B("newctx", bs=2, seed=7, pool=1),
        B("newpool"), B("newctx", seed=-2, pool=2), B("newctx", pool=2)]),
            dict(kind="ctx", seed=4, pin="num_submissions / submission_index under cancel, reset, two handlers, compute, generate", calls=[
                B("newctx", bs=2, seed=5), B("handler", ctx=1), B("submit", hd=1), B("submit", hd=1), B("wait", hd=1), B("cancel", hd=1), B("submit", hd=1),
                B("wait", hd=1), B("submit", hd=1), B("submit", hd=1), B("reset", hd=1), B("submit", hd=1), B("wait", hd=1), B("compute", hd=1, bi=5),
                B("wait", hd=1), B("handler", ctx=1), B("submit", hd=2), B("submit", hd=1), B("wait", hd=2), B("wait", hd=1), B("generate", bs=2, seed=3),
                B("generate", bs=1), B("cancel", hd=2)])]


def scenarios(ctx):
    rnd = random.Random(ctx.seed * 6151 + 977)
    n = 110 if ctx.quick else 1000
    nc = 25 if ctx.quick else 200
    out = pinned()
    for i in range(n):
        out.append(dict(kind="naming", seed=rnd.randrange(10 ** 9), n=rnd.randint(5, 12), script=[],
                        alpha=rnd.sample(["aaaa", "bbbb", "0c0c", "dddd"], rnd.choice([0, 2, 2, 3])), pin=None))
    out += ctx_pinned()
    for i in range(nc):
        out.append(dict(kind="ctx", seed=rnd.randrange(10 ** 9), n=rnd.randint(6, 16), pin=None))
    return out


# ------------------------------------------------------------------------------ design check
INV_MACHINE = ["StagewiseEqualsComposed", "AllDrawsConsumed"]
INV_USER = ["NamesUnique", "Closed", "DefaultIsLast", "RoundTrip", "OnlyDocumentedRaises", "RefusedNothingChanged", "OtherModelsUnchanged",
            "NodeLandsInOneModel", "AutoNameNeverRefused", "RemoveTakesOnlyConstants", "BecomeRefreshesBothRefs", "LookupRoundTrips",
            "DefaultChangesOnlyWhenAsked", "FlagsFollowClass", "SetterSetsExactly", "SizeReturns"]
# what the code as it is (Fix = {}) does keep
INV_CODE = INV_MACHINE + ["NamesUnique", "Closed", "DefaultIsLast", "OtherModelsUnchanged", "NodeLandsInOneModel", "LookupRoundTrips",
                          "DefaultChangesOnlyWhenAsked", "SetterSetsExactly"]
ALL_CALLS = ("create", "lookup", "parents", "remove", "become", "setparams", "setdefault", "newmodel", "getdefault", "size")
REF_CALLS = ("create", "lookup", "parents", "remove", "become", "setparams", "size")
INV_CTX = ["CtxWellFormed", "SeedGivenIsKept", "CtxAgreesWithPool", "NumSubmissionsCounts", "SubmissionIndexIsOrdinal", "PendingConsecutive",
           "WaitReturnsOldest", "GenerateIsFresh"]


def tset(vals):
    def one(v):
        if isinstance(v, bool):
            return "TRUE" if v else "FALSE"
        if isinstance(v, str):
            return '"%s"' % v
        return str(v)
    return "{" + ", ".join(one(v) for v in vals) + "}"


def mc_cfg(fix="AllFixesSet", invs=None, classes=("Operation", "Prior"), plain="MCPlainNames", star="NoNames", forms=(), targets=("a",),
           mnames=("m",), toks=("s", "t"), calls=ALL_CALLS, invalid=True, mm=1, mn=3, mr=2, mp=1, mc=3, md=3):
    invs = INV_MACHINE + INV_USER if invs is None else invs
    return """SPECIFICATION Spec
CONSTANTS
  Fix <- %s
  Classes = %s
  PlainNames <- %s
  StarBases <- %s
  FormsUsed = %s
  Targets = %s
  ModelNames = %s
  Toks = %s
  Calls = %s
  Invalid = %s
  MaxModels = %d
  MaxNodes = %d
  MaxRefs = %d
  MaxPar = %d
  MaxCalls = %d
  MaxDraws = %d
%s
CHECK_DEADLOCK FALSE
""" % (fix, tset(classes), plain, star, tset(forms), tset(targets), tset(mnames), tset(toks), tset(calls), "TRUE" if invalid else "FALSE",
       mm, mn, mr, mp, mc, md, "\n".join("INVARIANT " + i for i in invs))


def ctx_cfg(invs, props=(), bss="MCBatchSizes", seeds="MCSeeds", mo=5, ms=3):
    return """SPECIFICATION Spec
CONSTANTS
  BatchSizes <- %s
  Seeds <- %s
  RandomSeeds = {7}
  MaxCtxs = 2
  MaxPools = 1
  MaxHandlers = 2
  MaxSubmits = %d
  MaxOps = %d
%s
%s
CHECK_DEADLOCK FALSE
""" % (bss, seeds, ms, mo, "\n".join("INVARIANT " + i for i in invs), "\n".join("PROPERTY " + p for p in props))


REFS = dict(plain="MCPlainNames3", calls=REF_CALLS)
NAMES = dict(classes=("Operation",), star="MCStarBases", forms=("simple", "expr"), calls=("create", "remove"), mr=1)
DEFAULT = dict(classes=("Operation",), calls=("create", "setdefault", "newmodel", "getdefault"), mm=3)
# one control per repair: (fix left out, configuration in which only the call it repairs can be the culprit)
CONTROLS = [
    ("become_class", dict(plain="MCPlainNames3", calls=("create", "become"), invalid=False)),
    ("become_atomic", dict(plain="MCPlainNames3", calls=("create", "lookup", "become"), invalid=False, classes=("Operation",))),
    ("create_atomic", dict(plain="MCPlainNames3", calls=("create", "remove"), invalid=False, classes=("Operation",))),
    ("setter_atomic", dict(calls=("create", "setparams"), mc=2)),
    ("invalid_model_raises", dict(calls=("create",), mc=1)),
    ("empty_name_refused", dict(calls=("create",), mc=1)),
    ("size_reads_attr_dict", dict(calls=("create", "size"), mc=2, invalid=False)),
    ("cascade_constants_only", dict(forms=("expr",), plain="MCPlainNames", calls=("create", "remove"), invalid=False, toks=("s",))),
]
ACTIONS = {"refs": ["Create", "LookupCall", "ParentsCall", "RemoveCall", "BecomeCall", "SetParamsCall", "SizeCall", "Draw", "Return"],
           "names": ["Create", "RemoveCall", "Draw", "Return"],
           "default": ["Create", "SetDefaultCall", "NewModelCall", "GetDefaultCall", "Draw", "Return"]}
CTX_ACTIONS = ["NewCtxCall", "NewPoolCall", "NewHandlerCall", "SubmitCall", "WaitCall", "CancelCall", "ResetCall", "ComputeCall", "GenerateCall"]


class _Lane:
    """what ctx.tlc accumulates, per thread (merged by Design.join)"""

    def __init__(self, ctx):
        self.ctx = ctx
        self.states = 0
        self.transitions = 0
        self.tlc_runs = []
        self.negative_controls = []

    def tlc(self, module, cfg, expect_actions=None, expect_ok=True, label=None, **kw):
        kw.setdefault("metadir", os.path.join(self.ctx.outdir, "meta_%s" % cfg))
        r = tlc.run(module, cfg, **kw)
        self.states += r.distinct
        self.transitions += r.generated
        summ = r.as_dict()
        summ["label"] = label or cfg
        summ["expect_ok"] = expect_ok
        self.tlc_runs.append(summ)
        for a in (expect_actions or []):
            if r.coverage.get(a, [0, 0])[1] == 0:
                raise tlc.MachineryFailure("action %s of %s never taken (vacuous run)\n%s" % (a, module, r.out[-1500:]))
        if expect_ok and not r.ok:
            raise tlc.MachineryFailure("design module %s/%s violates %s\n%s" % (module, cfg, r.violated, r.trace_text[:3000]))
        if not expect_ok:
            if r.ok:
                raise tlc.MachineryFailure("negative control %s/%s found no violation" % (module, cfg))
            self.negative_controls.append(dict(run=summ["label"], refuted=r.violated))
        return r


def design_jobs(ctx):
    """lanes of jobs; TLC workers per lane 2 + 2 + 1 + 1 = 6"""
    q = ctx.quick
    lanes = [[], [], [], []]

    def add(lane, name, cfg_text, workers, module="MC_Naming", **kw):
        lanes[lane].append(lambda acc: acc.tlc(module, module + "_" + name, cfg_text=cfg_text, workers=workers, timeout=1800, **kw))

    add(0, "refs", mc_cfg(**dict(REFS, invalid=False, **({} if q else dict(mc=4)))), 2, expect_actions=ACTIONS["refs"],
        label="Naming repaired (eight repairs), references / become / remove / setter: every theorem")
    add(1, "names", mc_cfg(**dict(NAMES, invalid=False, **({} if q else dict(mc=4, mn=4)))), 2, expect_actions=ACTIONS["names"],
        label="Naming repaired, explicit / '*' / inferred / auto names and private constants under colliding draws: every theorem")
    add(1, "default", mc_cfg(**dict(DEFAULT, **({} if q else dict(mc=4, toks=("s",))))), 2, expect_actions=ACTIONS["default"],
        label="Naming repaired, model= / parent's model / default model, set_default_model / new_model / get_default_model: every theorem")
    if not q:
        add(0, "code", mc_cfg(fix="NoFix", invs=INV_CODE, **REFS), 2, expect_actions=ACTIONS["refs"],
            label="Naming as the code is (no repair): what does hold")
        add(0, "refs_invalid", mc_cfg(**REFS), 2, label="Naming repaired, references, invalid arguments too (3 calls)")
        add(1, "names_invalid", mc_cfg(**NAMES), 2, label="Naming repaired, names, invalid arguments too (3 calls)")
        add(1, "code_names", mc_cfg(fix="NoFix", invs=INV_CODE, **NAMES), 2, label="Naming as the code is, names")
    # controls: every one in the thorough tier, the seven most telling ones in the quick tier (each costs a JVM start)
    quick_controls = ("become_class", "become_atomic", "create_atomic", "setter_atomic", "cascade_constants_only")
    cost = [1 if q else 0, 0]
    for fixname, kw in CONTROLS:
        if q and fixname not in quick_controls:
            continue
        k = cost.index(min(cost))
        cost[k] += 1
        add(2 + k, "without_" + fixname, mc_cfg(fix="W_" + fixname, invs=INV_USER, **kw), 1, expect_ok=False,
            label="Naming control: the code's behaviour without the repair '%s'" % fixname)
    add(3, "stale", mc_cfg(invs=["StaleNeverRevives"], plain="MCPlainNames", calls=("create", "remove"), invalid=False, classes=("Operation",)), 1,
        expect_ok=False, label="Naming control: a reference whose node was removed revives when the name is used again (any repair)")
    add(2, "ctx", ctx_cfg(INV_CTX, ["Immutable"], mo=5 if q else 6), 1 if q else 2, module="MC_NamingCtx", expect_actions=CTX_ACTIONS,
        label="NamingCtx: context defaults, pool context, num_submissions / submission_index")
    add(3, "ctx_reuse", ctx_cfg(["BatchIndexNeverReused"], mo=5, bss="MCBatchSizesNoZero", seeds="MCSeedsSmall"), 1, module="MC_NamingCtx", expect_ok=False,
        label="NamingCtx control: a handler submits the same batch index again after cancel_pending / reset (submission_index tells them apart)")
    if not q:
        add(3, "modelnames", mc_cfg(invs=["ModelNamesUnique"], calls=("newmodel",), mm=2, mc=2), 1, expect_ok=False,
            label="Naming control: ElfiModel() does not check its random name (any repair)")
        add(3, "ctx_bs0", ctx_cfg(["GivenBatchSizeKept"], mo=2), 1, module="MC_NamingCtx", expect_ok=False,
            label="NamingCtx control: batch_size=0 silently becomes 1")
    return lanes


class Design:
    """runs the design jobs on four threads (TLC is a subprocess; at most 6 TLC workers at a time)"""

    def __init__(self, ctx):
        self.ctx = ctx
        jobs = design_jobs(ctx)
        self.lanes = [_Lane(ctx) for _ in jobs]
        self.errors = []
        self.threads = [threading.Thread(target=self._run, args=(self.lanes[k], jobs[k]), daemon=True) for k in range(len(jobs))]
        for th in self.threads:
            th.start()

    def _run(self, lane, jobs):
        try:
            for job in jobs:
                job(lane)
        except BaseException as ex:      # re-raised in the main thread by join()
            self.errors.append(ex)

    def join(self):
        for th in self.threads:
            th.join()
        for lane in self.lanes:
            self.ctx.states += lane.states
            self.ctx.transitions += lane.transitions
            self.ctx.tlc_runs += lane.tlc_runs
            self.ctx.negative_controls += lane.negative_controls
        if self.errors:
            raise self.errors[0]


# ------------------------------------------------------------------------------ corrupted copies (binding demonstration)
def corruptions(scs, traces):
    """(what, expected clause, trace, index of the source trace): one field of a real trace is changed; TLC must reject the copy with the
    clause.  Python only picks WHERE to corrupt."""
    out = []

    def cut(tr, j):
        t = copy.deepcopy(tr)
        t["events"] = t["events"][:j + 1]
        return t
    done = set()
    for k, tr in enumerate(traces):
        if tr["kind"] != "naming":
            continue
        for j, e in enumerate(tr["events"]):
            a, o = e["a"], e["obs"]
            if "name" not in done and a["op"] == "create" and e["raised"] == "" and a["nk"] == "none" and a["form"] in INFER_FORMS and a["marg"] > 0 \
                    and any(nd["name"] == a["target"] for nd in o["models"][a["marg"] - 1]["nodes"]) and (j == 0 or not any(
                        nd["name"] == a["target"] for nd in tr["events"][j - 1]["obs"]["models"][a["marg"] - 1]["nodes"])):
                t = cut(tr, j)
                for nd in t["events"][j]["obs"]["models"][a["marg"] - 1]["nodes"]:
                    if nd["name"] == a["target"]:
                        nd["name"] = "zz"
                for r in t["events"][j]["obs"]["refs"]:
                    if r["name"] == a["target"] and r["h"] == a["marg"]:
                        r["name"] = "zz"
                out.append(("a node that got its assignment target as name reported under another name", "E:create-node-names-in-order", t, k))
                done.add("name")
            if "draws" not in done and a["op"] == "create" and e["raised"] == "" and len(e["draws"]) >= 2:
                t = cut(tr, j)
                t["events"][j]["draws"] = t["events"][j]["draws"][:-1]
                out.append(("one random_name() draw of a constructor left out", "E:create-random-name-draws", t, k))
                done.add("draws")
            if "becomecls" not in done and a["op"] == "become" and e["raised"] == "" and o["refs"][a["r1"] - 1]["cls"] != o["refs"][a["r1"] - 1]["stcls"]:
                t = cut(tr, j)
                t["events"][j]["obs"]["refs"][a["r1"] - 1]["cls"] = o["refs"][a["r1"] - 1]["stcls"]
                out.append(("become() reported as having updated type(self)", "E:become-references", t, k))
                done.add("becomecls")
            if "dup" not in done and a["op"] == "create" and e["raised"] == "ValueError" and a["nk"] == "plain" and j > 0 and a["marg"] > 0 \
                    and not a["parents"] and a["cls"] not in ("Summary", "Discrepancy") \
                    and any(nd["name"] == a["nm"] for nd in tr["events"][j - 1]["obs"]["models"][a["marg"] - 1]["nodes"]):
                t = cut(tr, j)
                t["events"][j]["raised"] = ""
                out.append(("a duplicate explicit name reported as accepted", "E:create-raises-as-the-design", t, k))
                done.add("dup")
            if "default" not in done and a["op"] == "newmodel" and a["setdef"] and e["raised"] == "" and j > 0:
                t = cut(tr, j)
                t["events"][j]["obs"]["default"] = tr["events"][j - 1]["obs"]["default"]
                out.append(("new_model(set_default=True) reported as leaving the default model alone", "E:newmodel-default-model", t, k))
                done.add("default")
            if "param" not in done and a["op"] == "create" and e["raised"] == "" and a["cls"] == "Prior" and a["marg"] > 0:
                t = cut(tr, j)
                nd = t["events"][j]["obs"]["models"][a["marg"] - 1]
                new = [x["name"] for x in nd["nodes"] if x["param"]][-1:]
                if new:
                    nd["pnames"] = [p for p in nd["pnames"] if p != new[0]]
                    out.append(("a new Prior missing from parameter_names", "E:create-parameter-names-sorted", t, k))
                    done.add("param")
    for k, tr in enumerate(traces):
        if tr["kind"] != "ctx":
            continue
        for j, e in enumerate(tr["events"]):
            if "nsub" not in done and e["b"]["op"] == "submit" and e["raised"] == "":
                t = cut(tr, j)
                c = t["events"][j]["obs"]["hds"][e["b"]["hd"] - 1]["ctx"]
                t["events"][j]["obs"]["ctxs"][c - 1]["nsub"] -= 1
                out.append(("num_submissions not incremented by submit()", "E:submit-context-attributes", t, k))
                done.add("nsub")
            if "si" not in done and e["b"]["op"] == "wait" and e["raised"] == "" and e["ret"][1] > 0:
                t = cut(tr, j)
                t["events"][j]["ret"][1] -= 1
                out.append(("a batch reported with the submission_index of the batch before", "E:wait-returned-meta", t, k))
                done.add("si")
    return out


# ------------------------------------------------------------------------------ check
CLAUSES_DESIGN = [
    "repaired machine (eight repairs), every history of <= 3 (quick) / 4 (thorough) public calls over 2 classes, <= 3-4 nodes, <= 2 references, "
    "draws from a two-letter alphabet: names unique per model; a new node lands in exactly one model (model= / first node parent's model / "
    "default model) under its explicit, inferred, 'base*' or auto name with one Constant _<child>_<draw> per literal parent; auto names are "
    "never refused; duplicates and parents of two models are refused; a call that raises changes no model; only ValueError / KeyError / "
    "NetworkXError; no call changes another model; synced references round-trip through model[name]; become() leaves both references on the "
    "node with its class; remove_node takes only Constants along; default model = the last one set; flags = Prior-class nodes until the "
    "setter is used, then exactly the given names",
    "each repair is necessary (eight controls); stale references revive by name and random model names are unchecked whatever the repair",
    "the code as transcribed keeps: unique names, closed parents / observed keys, default = last set, other models unchanged, where a node "
    "lands, lookups, setter result",
    "stage by stage execution with one draw at a time = composed Run operator; every draw is consumed",
    "NamingCtx: a context has batch_size >= 1 and a seed; a given seed (0 too) is kept; context and pool agree; num_submissions = batches "
    "submitted on the context by whichever handler, cancelled or not; submission indices are 0,1,2,.. per context; pending batches are "
    "consecutive below next_index; attributes never change; two controls (batch_size=0 -> 1; batch indices are reused after cancel / reset)"]
CLAUSES_TRACE = [
    "after every public call on real elfi objects (constructors executed from generated source files): outcome, number of random_name() "
    "draws, models and their names, default model, node names in insertion order, classes, parameter flags, parents, observed keys, every "
    "reference object (model, name, type, validity, state class), parameter_names = flagged nodes sorted by code point equal the design's Run",
    "26 source shapes of the assignment: exactly the 12 the regex of _inspect_name matches give the target as name",
    "ComputationContext / OutputPool / BatchHandler histories: context attributes, pool context, next_index, pending indices, num_submissions, "
    "and the batch_index / submission_index / master_seed a uses_meta operation saw, equal CRun",
    "the user-level theorems evaluated on every state the code was shown to be in (violations = findings, collected per history)"]


def check_naming(ctx, design=True):
    scs = scenarios(ctx)
    bg = Design(ctx) if design else None
    srcdir = os.path.join(ctx.outdir, "naming_src")
    os.makedirs(srcdir, exist_ok=True)
    traces = []
    for k, sc in enumerate(scs):
        traces.append(record_naming(sc, srcdir, k) if sc["kind"] == "naming" else record_ctx(sc))
    if bg is not None:
        bg.join()
    corr = corruptions(scs, traces)
    allv = ctx.validate("Naming_Trace", traces + [c[2] for c in corr], chunk=max(8, -(-(len(traces) + len(corr)) // (4 if ctx.quick else 6))), name="naming")
    verdicts = allv[:len(traces)]
    ctx.traces_validated -= len(corr)                # corrupted copies are not executions of the real code
    for (what, want, _t, k), v in zip(corr, allv[len(traces):]):
        if verdicts[k]["verdict"] != "ok":
            continue          # the source trace itself fails (changed tree): its copy may fail earlier for that reason
        if v["verdict"] != want:
            raise tlc.MachineryFailure("Naming_Trace did not reject a corrupted trace (%s): expected %s, got %r" % (what, want, v))
        ctx.negative_controls.append(dict(run="corrupted trace / Naming_Trace: " + what, refuted=want))
    if len(corr) < 6 and all(v["verdict"] == "ok" for v in verdicts):
        raise tlc.MachineryFailure("only %d of 8 corrupted-trace controls could be built from the recorded histories" % len(corr))
    ncalls = nraised = 0
    inv_count = {}
    for sc, tr, v in zip(scs, traces, verdicts):
        evs = tr["events"]
        ncalls += len(evs)
        nraised += sum(1 for e in evs if e["raised"])
        brief = dict(kind=sc["kind"], seed=sc["seed"], pin=sc.get("pin"), script=sc.get("script", []), alpha=sc.get("alpha", []), calls=sc["calls"])
        ctx.case("naming:%s:%s:%s" % (sc["kind"], sc["seed"], sc.get("pin")), nontrivial=sum(1 for e in evs if not e["raised"]) >= 3)
        ctx.trace_events += len(evs)
        if v["verdict"] != "ok":
            k = min(max(v["l"] - 2, 0), len(evs) - 1)
            e = evs[k] if evs else {}
            ctx.drifted(v["verdict"], brief, detail=dict(call_index=k, call=e.get("a") or e.get("b"), raised=e.get("raised"), msg=e.get("msg"),
                                                        draws=e.get("draws"), observed=e.get("obs")))
        for name in [x for x in v["drift"].split("|") if x]:
            inv_count[name] = inv_count.get(name, 0) + 1
            ctx.drifted("E:" + name, brief, detail=dict(pinned=sc.get("pin"), outcomes=[e["raised"] for e in evs]))
    ctx.trusted_base += ["harness wrappers: elfi.model.elfi_model.uuid / random_seed replaced by scripted stand-ins and _default_model reset to None "
                         "for the duration of a history (restored afterwards)",
                         "harness projection of models / references / contexts (identity of model, pool and context objects across calls)",
                         "the table NamingOps!InferForms of source shapes (each rendered into a real source file and executed)"]
    ctx.assumptions += ["become(): the replacement has no children and is no descendant of the replaced node (anything else is finding F14 of C14)",
                        "a node is not given the same parent twice; positional parents only (keyword parents: C14)"]
    ctx.clauses_decided = list(ctx.clauses_decided) + ["extension Naming (E: clauses, drift only): " + c for c in CLAUSES_DESIGN + CLAUSES_TRACE]
    ctx.clauses_not_decided = list(ctx.clauses_not_decided) + [
        "extension Naming: keyword parents, copy / save / load (C14); random numbers and sub seeds (C15); pool contents (PoolApi extension); "
        "load_model; multi-line source shapes other than the listed ones"]
    ctx.notes.append("Naming extension: %d histories (%d pinned), %d calls, %d raised; %d corrupted-trace controls rejected; user-level theorems violated "
                     "on states the code was shown to be in (histories): %s"
                     % (len(scs), len(pinned()) + len(ctx_pinned()), ncalls, nraised, len(corr),
                        ", ".join("%s=%d" % kv for kv in sorted(inv_count.items())) or "none"))
    for i in (0, 4):
        if i < len(traces):
            ctx.sample(dict(pinned=scs[i].get("pin"), events=[dict(call={k: v for k, v in e["a"].items() if v != A0.get(k)}, raised=e["raised"], draws=e["draws"],
                                                                   nodes=[[n["name"] for n in m["nodes"]] for m in e["obs"]["models"]],
                                                                   refs=[[r["name"], r["cls"], r["valid"]] for r in e["obs"]["refs"]]) for e in traces[i]["events"]]))
    return dict(histories=len(scs), calls=ncalls, raised=nraised, invariants_violated=inv_count, clauses_design=CLAUSES_DESIGN, clauses_trace=CLAUSES_TRACE)

"""C17 - regression adjustment and model comparison equal their formulas.

O1: LinAdjust.tla exhaustively (all multisets of rows over a small integer domain with non-finite markers,
    1-2 regressors, 1-2 parameters): normal equations / least squares, theta - X.b, finite mask only,
    fixed-point row, affine invariance (integer maps with determinant +-1, +-2); ModelCompare.tla exhaustively
    (2-3 models, free tie order at the n_min cut): shares of the jointly smallest, sum to one, proportionality,
    permutation equivariance.  Negative controls: regression without intercept, singular map, invariance claimed
    for rank-deficient designs, share multiplied by n_sim, "ties never straddle the cut".
O3: the real adjust_posterior(sample, model, summary_names, parameter_names, LinearAdjustment()) and
    compare_models(sample_objs, model_priors) are called on real elfi Sample objects built from small integer data
    (inf / nan entries in summaries, parameters and discrepancies) with a real ElfiModel providing the observed
    summaries; inputs and outputs (fixed point, unit 10^-6) are logged and TLC recomputes the expected values in
    exact integer / rational arithmetic (LinAdjust_Trace.tla, ModelCompare_Trace.tla).
"""
import itertools
import random
import warnings

import numpy as np

from harness import tlc
from harness.util import Hang, time_limit

PINF, NINF, NAN = 100000, -100000, 100001
BIG, FXNAN, FXPINF, FXNINF = 2147000000, 2147000001, 2147000002, -2147000002   # FixedPoint.tla
UNIT = 1000000


# ------------------------------------------------------------------ encoding (never floats in a log)
def dec(v):
    """logged integer / code -> the float handed to elfi"""
    if v == PINF:
        return float("inf")
    if v == NINF:
        return float("-inf")
    if v == NAN:
        return float("nan")
    return float(v)


def fxs(x):
    """float returned by elfi -> fixed-point integer (unit 10^-6) or a code"""
    x = float(x)
    if x != x:
        return FXNAN
    if x == float("inf"):
        return FXPINF
    if x == float("-inf"):
        return FXNINF
    v = int(round(x * UNIT))
    return v if abs(v) < BIG else BIG


def is_fin(v):
    return NINF < v < PINF


# ------------------------------------------------------------------ the elfi model providing the observed summaries
_MODELS = {}


def summary_model(obs):
    """A real ElfiModel: prior -> simulator (observed = the given integer vector) -> one Summary node per
    component.  model[Sk].observed is what LinearAdjustment._input_variables reads."""
    import elfi
    key = tuple(obs)
    if key in _MODELS:
        return _MODELS[key]
    k = len(obs)
    m = elfi.ElfiModel(name="c17_%d" % len(_MODELS))
    elfi.Prior("uniform", 0, 1, model=m, name="t1")

    def sim(t, batch_size=1, random_state=None):
        return np.zeros((batch_size, k))

    elfi.Simulator(sim, m["t1"], model=m, name="sim", observed=np.array([[float(o) for o in obs]]))
    for a in range(k):
        elfi.Summary((lambda a_: (lambda y: y[:, a_]))(a), m["sim"], model=m, name="S%d" % (a + 1))
    if len(_MODELS) > 400:
        _MODELS.clear()
    _MODELS[key] = m
    return m


# ------------------------------------------------------------------ regression adjustment
def map_rows(M, v, S):
    out = []
    for row in S:
        if all(is_fin(x) for x in row):
            out.append([sum(M[a][c] * row[c] for c in range(len(row))) + v[a] for a in range(len(row))])
        else:
            out.append(list(row))
    return out


def map_vec(M, v, s):
    return [sum(M[a][c] * s[c] for c in range(len(s))) + v[a] for a in range(len(s))]


def enc(x):
    """float found in a real Sample -> logged integer / code (the data of this check are integer valued)"""
    x = float(x)
    if x != x:
        return NAN
    if x == float("inf"):
        return PINF
    if x == float("-inf"):
        return NINF
    if x != int(x) or abs(x) >= PINF:
        raise tlc.MachineryFailure("non-integer value %r in a sample that should be integer valued" % x)
    return int(x)


def direct_sample(S, cols_all, extra=None):
    """a real elfi Sample holding the parameter columns t1..tP and the summary columns S1..SK"""
    from elfi.methods.results import Sample
    names_all = ["t%d" % (j + 1) for j in range(len(cols_all))]
    outputs = dict(extra or {})
    for n, col in zip(names_all, cols_all):
        outputs[n] = np.array([dec(x) for x in col], dtype=float)
    for a in range(len(S[0])):
        outputs["S%d" % (a + 1)] = np.array([dec(r[a]) for r in S], dtype=float)
    return Sample("Rejection", outputs, names_all)


_REJ = {}


def rejection_model(k, npar, R, T, obs, nf_rate, shift):
    """integer-valued inference model: randint priors, integer simulator noise, optional inf/nan summaries"""
    import elfi
    key = (k, npar, R, T, tuple(obs), nf_rate, shift)
    if key in _REJ:
        return _REJ[key]
    m = elfi.ElfiModel(name="c17rej_%d" % len(_REJ))
    pri = [elfi.Prior("randint", -T, T + 1, model=m, name="t%d" % (j + 1)) for j in range(npar)]

    def sim(*ts, batch_size=1, random_state=None):
        noise = random_state.randint(0, R + 1, size=(batch_size, k)).astype(float)
        t = np.asarray(ts[0], dtype=float).reshape(-1, 1)
        y = np.mod(noise + np.abs(t) * (1 + np.arange(k)) + shift, R + 1)
        u = random_state.rand(batch_size, k)
        y[u < nf_rate] = np.nan
        y[u < nf_rate / 2] = np.inf
        return y

    elfi.Simulator(sim, *pri, model=m, name="sim", observed=np.array([[float(o) for o in obs]]))
    sums = [elfi.Summary((lambda a_: (lambda y: y[:, a_]))(a), m["sim"], model=m, name="S%d" % (a + 1)) for a in range(k)]

    def disc(*s, observed=None):
        x = np.nan_to_num(np.asarray(s[0], dtype=float), nan=float(R), posinf=float(R), neginf=float(R)).reshape(-1)
        return np.abs(x - np.asarray(observed[0], dtype=float).reshape(-1)[0])

    elfi.Discrepancy(disc, *sums, model=m, name="d")
    _REJ[key] = m
    return m


def rejection_sample(sp):
    """a Sample produced by a real elfi.Rejection run on the integer-valued model"""
    import elfi
    m = rejection_model(sp["k"], sp["npar"], sp["R"], sp["T"], sp["obs"], sp["nf_rate"], sp.get("shift", 0))
    snames = ["S%d" % (a + 1) for a in range(sp["k"])]
    with time_limit(60):
        rej = elfi.Rejection(m["d"], batch_size=sp["bs"], seed=sp["seed"], output_names=snames)
        return rej.sample(sp["n"], quantile=sp["quantile"], bar=False), m


def call_adjust(sample, model, k, names_all, pn, via_string=False):
    """One real call.  pn: indices of the requested parameters in the requested order, or None for
    parameter_names=None; via_string: adjustment='linear' (then the fitted coefficients are not observable)."""
    from elfi.methods.post_processing import LinearAdjustment, adjust_posterior
    snames = ["S%d" % (a + 1) for a in range(k)]
    req = None if pn is None else [names_all[j] for j in pn]
    want = names_all if pn is None else req
    ev = dict(res="ok", out=[], coef=[], hascoef=not via_string, warn=False, names=True, exc="")
    try:
        adj = LinearAdjustment()
        with warnings.catch_warnings(record=True) as wlist:
            warnings.simplefilter("always")
            with time_limit(10):
                if via_string:
                    res = adjust_posterior(sample, model, snames, parameter_names=req)
                else:
                    res = adjust_posterior(sample, model, snames, parameter_names=req, adjustment=adj)
        ev["warn"] = any("Non-finite" in str(w.message) for w in wlist)
        ev["names"] = bool(list(res.parameter_names) == want and set(res.outputs) == set(want))
        ev["out"] = [[fxs(x) for x in np.asarray(res.outputs[n]).reshape(-1)] if n in res.outputs else [] for n in want]
        if via_string:
            ev["coef"] = [[0] * k for _ in want]
        else:
            ev["coef"] = [[fxs(c) for c in np.asarray(adj.regression_models[j].coef_).reshape(-1)]
                          if j < len(adj.regression_models) else [] for j in range(len(want))]
            for j in range(len(want)):
                if len(ev["coef"][j]) != k:
                    ev["coef"][j] = [BIG] * k
    except Hang:
        ev.update(res="hang")
    except Exception as ex:   # an event, judged by the trace spec
        ev.update(res="raise", exc="%s: %s" % (type(ex).__name__, str(ex)[:120]))
    return ev


def record_adj(sc):
    pn = sc.get("pn")
    extra = None
    if sc.get("source") == "rej":
        sp = sc["rej"]
        try:
            sample, model = rejection_sample(sp)
        except Exception as ex:
            raise tlc.MachineryFailure("could not produce the Rejection sample of %r: %r" % (sp, ex))
        k, obs = sp["k"], sp["obs"]
        names_all = list(sample.parameter_names)
        n = sample.n_samples
        S = [[enc(sample.outputs["S%d" % (a + 1)][i]) for a in range(k)] for i in range(n)]
        cols = [[enc(sample.outputs[nm][i]) for i in range(n)] for nm in names_all]
        extra = {"d": sample.outputs["d"]}
    else:
        S, obs, cols = sc["S"], sc["obs"], sc["TH"]
        k = len(obs)
        names_all = ["t%d" % (j + 1) for j in range(len(cols))]
        sample, model = direct_sample(S, cols), summary_model(obs)
    th = cols if pn is None else [cols[j] for j in pn]
    ident = [[1 if a == c else 0 for c in range(k)] for a in range(k)]
    events = []
    e = call_adjust(sample, model, k, names_all, pn, via_string=bool(sc.get("via_string")))
    e.update(ev="adjust", S=S, obs=obs, M=ident, v=[0] * k)
    events.append(e)
    for (M, v) in sc.get("affs", []):
        S2, obs2 = map_rows(M, v, S), map_vec(M, v, obs)
        e = call_adjust(direct_sample(S2, cols, extra), summary_model(obs2), k, names_all, pn)
        e.update(ev="affine", S=S2, obs=obs2, M=M, v=v)
        events.append(e)
    return dict(S=S, obs=obs, TH=th, events=events)


# ------------------------------------------------------------------ model comparison
def direct_cmp_sample(m):
    from elfi.methods.results import Sample
    n = len(m["d"])
    return Sample("Rejection", {"t1": np.arange(n, dtype=float), "d": np.array([dec(x) for x in m["d"]], dtype=float)},
                  ["t1"], discrepancy_name="d", n_sim=int(m["nsim"]), threshold=1.0)


def call_compare(samples, ws, scale):
    """One real call.  scale None -> model_priors=None, else priors w/scale (dyadic, exact in floats)."""
    from elfi.methods.model_selection import compare_models
    priors = None if scale is None else [w / float(scale) for w in ws]
    ev = dict(res="ok", out=[], exc="")
    try:
        with warnings.catch_warnings():
            warnings.simplefilter("ignore")
            with time_limit(10):
                p = compare_models(samples, model_priors=priors)
        ev["out"] = [fxs(x) for x in np.asarray(p, dtype=float).reshape(-1)]
    except Hang:
        ev.update(res="hang")
    except Exception as ex:
        ev.update(res="raise", exc="%s: %s" % (type(ex).__name__, str(ex)[:120]))
    return ev


def record_cmp(sc):
    scale = sc.get("scale")
    if sc.get("source") == "rej":
        samples, ms = [], []
        for sp, w in zip(sc["rej"], sc["ws"]):
            try:
                s, _m = rejection_sample(sp)
            except Exception as ex:
                raise tlc.MachineryFailure("could not produce the Rejection sample of %r: %r" % (sp, ex))
            samples.append(s)
            ms.append(dict(d=[enc(x) for x in np.asarray(s.discrepancies).reshape(-1)], nsim=int(s.n_sim), w=w))
    else:
        ms = sc["ms"]
        samples = [direct_cmp_sample(m) for m in ms]
    n = len(ms)
    ws = [m["w"] for m in ms]
    events = []
    e = call_compare(samples, ws, scale)
    e.update(ev="compare", pi=list(range(1, n + 1)), ms=ms)
    events.append(e)
    for pi in sc.get("perms", []):
        e = call_compare([samples[k - 1] for k in pi], [ws[k - 1] for k in pi], scale)
        e.update(ev="permute", pi=list(pi), ms=[ms[k - 1] for k in pi])
        events.append(e)
    return dict(ms=ms, events=events)


# ------------------------------------------------------------------ scenarios
AFF1 = [([[-1]], [0]), ([[2]], [3]), ([[-2]], [-1]), ([[1]], [5])]
AFF2 = [([[0, 1], [1, 0]], [0, 0]), ([[1, 1], [0, 1]], [1, -2]), ([[1, 1], [-1, 1]], [0, 0]), ([[2, 0], [1, -1]], [0, 3]),
        ([[1, 0], [0, 2]], [2, 2]), ([[1, -1], [1, 1]], [-1, 0]), ([[0, -1], [1, 0]], [0, 0]), ([[1, 2], [0, 1]], [0, 0])]


def adj_safe(S, obs, cols, bound=2147483647):
    """the magnitude rule of LinAdjust_Trace!Safe, so that generated base cases stay inside it"""
    n = len(S)
    k = len(obs)
    bx = max([abs(r[a] - obs[a]) for r in S if all(is_fin(x) for x in r) for a in range(k)] + [1])
    bt = max([abs(x) for c in cols for x in c if is_fin(x)] + [1])
    p1 = n * n * bx * bx
    return n <= 12 and bx <= 100 and bt <= 1000 and p1 <= 46340 and p1 * p1 <= bound // (10 * bt)


def adj_scenarios(ctx):
    rnd = random.Random(ctx.seed * 7919 + 17)
    out = []
    # (1) pinned shapes
    pinned = [
        dict(S=[[3], [4], [6], [1], [2], [NAN]], obs=[3], TH=[[1, 2, 4, 7, PINF, 3]], affs=AFF1[:2]),
        dict(S=[[3, 5], [4, 1], [6, 2], [1, 8], [2, 3], [NAN, 3]], obs=[3, 5], TH=[[1, 2, 4, 7, PINF, 3]], affs=AFF2[:3]),
        dict(S=[[1, 1], [2, 2], [3, 3], [4, 4]], obs=[1, 1], TH=[[1, 2, 4, 3]], affs=AFF2[:2]),          # collinear summaries
        dict(S=[[2], [2], [2]], obs=[2], TH=[[1, 5, 3]], affs=AFF1[:1]),                                  # constant regressor
        dict(S=[[4]], obs=[1], TH=[[2]], affs=[]),                                                         # one row
        dict(S=[[0, 1], [1, 0], [1, 1], [NINF, 0], [2, 2]], obs=[1, 1], TH=[[0, 1, 2, 3, NAN], [NAN, 1, 2, 3, 4], [5, 4, PINF, 2, 1]],
             pn=[2, 0], affs=AFF2[2:4]),
        dict(S=[[0], [1], [2], [3]], obs=[9], TH=[[NAN, NAN, NAN, NAN], [1, 2, 3, 5]], affs=[]),           # a parameter without finite rows
    ]
    out += pinned
    # (2) exhaustive small: one regressor, 3 rows, every placement of values and non-finite markers
    #     (summaries over {0,1,2,nan} with observed 1, parameter over {0,3,inf} quick / {0,1,3,inf} thorough)
    svals, tvals = [0, 1, 2, NAN], ([0, 3, PINF] if ctx.quick else [0, 1, 3, PINF])
    for s in itertools.product(svals, repeat=3):
        for t in itertools.product(tvals, repeat=3):
            affs = [AFF1[rnd.randrange(len(AFF1))]] if (not ctx.quick or rnd.random() < 0.3) else []
            out.append(dict(S=[[x] for x in s], obs=[1], TH=[list(t)], affs=affs))
    # two regressors, 3 rows over {0,1,-inf} x parameter {0,2,nan}: a seeded part of all placements
    for s in itertools.product([0, 1, NINF], repeat=6):
        for t in itertools.product([0, 2, NAN], repeat=3):
            if rnd.random() < (0.98 if ctx.quick else 0.8):
                continue
            out.append(dict(S=[list(s[0:2]), list(s[2:4]), list(s[4:6])], obs=[0, 1], TH=[list(t)],
                            affs=[AFF2[rnd.randrange(len(AFF2))]]))
    n_small = len(out)
    # (3) seeded random
    n_rand = 700 if ctx.quick else 6000
    nf_codes = [PINF, NINF, NAN]
    while len(out) < n_small + n_rand:
        k = rnd.choice([1, 2, 2])
        n = rnd.randint(2, 9)
        npar = rnd.choice([1, 1, 2, 3])
        R = rnd.choice([2, 3, 5, 6])
        obs = [rnd.randint(0, R) for _ in range(k)]
        p_nf = rnd.choice([0.0, 0.1, 0.25])
        S = []
        for _ in range(n):
            r = rnd.random()
            if r < 0.15:
                row = list(obs)                                    # simulated = observed
            elif r < 0.25 and S:
                row = list(rnd.choice(S))                          # duplicate row
            else:
                row = [rnd.randint(0, R) for _ in range(k)]
            row = [x if rnd.random() >= p_nf / k else rnd.choice(nf_codes) for x in row]
            S.append(row)
        T = rnd.choice([3, 9, 20])
        cols = [[(rnd.randint(-T, T) if rnd.random() >= p_nf else rnd.choice(nf_codes)) for _ in range(n)] for _ in range(npar)]
        pn = None
        if npar > 1 and rnd.random() < 0.5:
            pn = rnd.sample(range(npar), rnd.randint(1, npar))
        affl = AFF1 if k == 1 else AFF2
        affs = rnd.sample(affl, rnd.choice([0, 1, 1, 2]))
        if rnd.random() < 0.3:
            affs.append(random_aff(rnd, k))
        if not adj_safe(S, obs, cols):
            continue
        out.append(dict(S=S, obs=obs, TH=cols, pn=pn, affs=[[M, v] for (M, v) in affs], via_string=rnd.random() < 0.2))
    # (4) samples produced by real elfi.Rejection runs on an integer-valued model
    for i in range(12 if ctx.quick else 120):
        k = rnd.choice([1, 2])
        R = rnd.choice([3, 5])
        sp = dict(k=k, npar=rnd.choice([1, 2]), R=R, T=rnd.choice([2, 5]), obs=[rnd.randint(0, R) for _ in range(k)],
                  nf_rate=rnd.choice([0.0, 0.2]), shift=rnd.randint(0, 2), bs=rnd.choice([4, 10]), seed=rnd.randint(0, 10 ** 6),
                  n=rnd.randint(4, 10), quantile=rnd.choice([0.5, 0.25]))
        out.append(dict(source="rej", rej=sp, pn=None, affs=[list(rnd.choice(AFF1 if k == 1 else AFF2))]))
    for sc in out:
        sc["kind"] = "adj"
        sc.setdefault("pn", None)
        sc["affs"] = [[list(map(list, M)), list(v)] for (M, v) in sc.get("affs", [])]
    return out, n_small


def random_aff(rnd, k):
    while True:
        M = [[rnd.randint(-2, 2) for _ in range(k)] for _ in range(k)]
        det = M[0][0] if k == 1 else M[0][0] * M[1][1] - M[0][1] * M[1][0]
        if det in (1, -1, 2, -2):
            return (M, [rnd.randint(-3, 3) for _ in range(k)])


def cmp_scenarios(ctx):
    rnd = random.Random(ctx.seed * 104729 + 5)
    out = []
    pinned = [
        dict(ms=[dict(d=[1, 2, 3], nsim=10, w=1), dict(d=[2, 2, 5], nsim=20, w=1)], scale=None, perms=[[2, 1]]),     # tie straddles the cut
        dict(ms=[dict(d=[0, 1], nsim=4, w=1), dict(d=[2, 3, 4], nsim=8, w=3), dict(d=[0, PINF, NAN], nsim=5, w=2)], scale=4,
             perms=[[3, 1, 2], [2, 1, 3]]),
        dict(ms=[dict(d=[NAN], nsim=3, w=1), dict(d=[NAN, 1], nsim=3, w=1)], scale=None, perms=[[2, 1]]),
        dict(ms=[dict(d=[1, 1], nsim=3, w=0), dict(d=[5, 6], nsim=7, w=1)], scale=1, perms=[[2, 1]]),                # 0/0
    ]
    out += pinned
    # exhaustive small: two models, 1-2 discrepancies each over {0,1,inf,nan}, n_sim in {2,3}, priors none / {1,2}
    dv = [0, 1, PINF, NAN]
    dseqs = [list(x) for n in (1, 2) for x in itertools.product(dv, repeat=n)]
    for d1 in dseqs:
        for d2 in dseqs:
            for (n1, n2) in [(2, 3), (3, 3)]:
                for pr in [None, (1, 2), (2, 1)]:
                    w = pr or (1, 1)
                    out.append(dict(ms=[dict(d=d1, nsim=n1, w=w[0]), dict(d=d2, nsim=n2, w=w[1])],
                                    scale=None if pr is None else rnd.choice([1, 4]), perms=[[2, 1]]))
    n_small = len(out)
    n_rand = 800 if ctx.quick else 8000
    while len(out) < n_small + n_rand:
        M = rnd.choice([2, 2, 3, 3, 4])
        V = rnd.choice([2, 4, 7])
        ms = []
        for _ in range(M):
            n = rnd.randint(1, 5)
            d = []
            for _k in range(n):
                r = rnd.random()
                d.append(rnd.randint(0, V) if r < 0.9 else rnd.choice([PINF, NAN, NINF]))
            ms.append(dict(d=d, nsim=rnd.choice([n, n + 1, 2 * n, 7, 10, 16, 25, 40]), w=1))
        scale = None
        if rnd.random() < 0.6:
            scale = rnd.choice([1, 4, 8])
            for m in ms:
                m["w"] = rnd.choice([0, 1, 1, 2, 3, 4])
        if sum(len(m["d"]) for m in ms) > 16:
            continue
        nmin = min(len(m["d"]) for m in ms)
        prod = 1
        for m in ms:
            prod *= m["nsim"]
        if prod > 200000000 // (M * max([m["w"] for m in ms] + [1]) * nmin):
            continue
        idx = list(range(1, M + 1))
        perms = []
        for _k in range(rnd.choice([1, 1, 2])):
            p = idx[:]
            rnd.shuffle(p)
            perms.append(p)
        out.append(dict(ms=ms, scale=scale, perms=perms))
    # samples produced by real elfi.Rejection runs (real n_sim, discrepancies, n_samples)
    for i in range(8 if ctx.quick else 80):
        M = rnd.choice([2, 3])
        R = rnd.choice([3, 5])
        obs = [rnd.randint(0, R)]
        sps = [dict(k=1, npar=1, R=R, T=2, obs=obs, nf_rate=0.0, shift=j, bs=rnd.choice([4, 10]), seed=rnd.randint(0, 10 ** 6),
                    n=rnd.randint(2, 5), quantile=rnd.choice([0.5, 0.25])) for j in range(M)]
        pr = rnd.random() < 0.5
        idx = list(range(1, M + 1))
        rnd.shuffle(idx)
        out.append(dict(source="rej", rej=sps, ws=[rnd.choice([1, 2, 3]) if pr else 1 for _ in range(M)], scale=4 if pr else None, perms=[idx]))
    for sc in out:
        sc["kind"] = "cmp"
    return out, n_small


# ------------------------------------------------------------------ checking
def check_scenarios(ctx, scs):
    adj = [sc for sc in scs if sc["kind"] == "adj"]
    cmp_ = [sc for sc in scs if sc["kind"] == "cmp"]
    traces = {}
    if adj:
        trs = [record_adj(sc) for sc in adj]
        vs = ctx.validate("LinAdjust_Trace", trs, chunk=max(50, -(-len(trs) // 8)), name="adj")
        for sc, tr, v in zip(adj, trs, vs):
            traces[id(sc)] = tr
            k = len(tr["obs"])
            n_fin = sum(1 for r in tr["S"] if all(is_fin(x) for x in r))
            nonfin = any(not is_fin(x) for r in tr["S"] for x in r) or any(not is_fin(x) for c in tr["TH"] for x in c)
            ctx.case(("adj", core_digest(sc)), nontrivial=(n_fin >= k + 2))
            ctx.trace_events += len(tr["events"])
            if v["verdict"] != "ok":
                e = tr["events"][min(v["l"] - 2, len(tr["events"]) - 1)]
                ctx.fail(v["verdict"], sc, detail=dict(at_event=v["l"] - 1, event=e, TH=tr["TH"], nonfinite_inputs=nonfin))
            elif v["drift"]:
                ctx.drifted(v["drift"], sc)
    if cmp_:
        trs = [record_cmp(sc) for sc in cmp_]
        vs = ctx.validate("ModelCompare_Trace", trs, chunk=max(50, -(-len(trs) // 8)), name="cmp")
        for sc, tr, v in zip(cmp_, trs, vs):
            traces[id(sc)] = tr
            ctx.case(("cmp", core_digest(sc)), nontrivial=len(set(tuple(m["d"]) for m in tr["ms"])) > 1)
            ctx.trace_events += len(tr["events"])
            if v["verdict"] != "ok":
                e = tr["events"][min(v["l"] - 2, len(tr["events"]) - 1)]
                ctx.fail(v["verdict"], sc, detail=dict(at_event=v["l"] - 1, event=e))
            elif v["drift"]:
                ctx.drifted(v["drift"], sc)
    return [traces[id(sc)] for sc in scs]


def core_digest(sc):
    from harness.core import digest
    return digest(sc)


# ------------------------------------------------------------------ O1 configurations
def lin_cfg(k, npar, minn, maxn, svals, thvals, invs, affs="MCAffs", centred=True, obs="MCObs"):
    return """SPECIFICATION Spec
CONSTANTS
  K = %d
  NP = %d
  MinN = %d
  MaxN = %d
  SVals <- %s
  ThVals <- %s
  RowTypes <- MCRowTypes
  ObsSet <- %s
  Affs <- %s
  Grid <- MCGrid
  Centred = %s
%s
CHECK_DEADLOCK FALSE
""" % (k, npar, minn, maxn, svals, thvals, obs, affs, "TRUE" if centred else "FALSE",
       "\n".join("INVARIANT " + i for i in invs))


LIN_INVS = ["NormalEquations", "LeastSquares", "Formula", "MaskOnly", "FixedPointRow", "AffineInvariant"]
LIN_ACTS = ["AddRow", "Call", "Fit", "Raise", "Adjust"]


def cmp_cfg(maxmodels, maxsamples, dvals, nsims, weights, invs, variant="code"):
    return """SPECIFICATION Spec
CONSTANTS
  MaxModels = %d
  MaxSamples = %d
  DVals = {%s}
  NSims = {%s}
  Weights = {%s}
  ModelSet <- MCModels
  Variant = "%s"
%s
CHECK_DEADLOCK FALSE
""" % (maxmodels, maxsamples, ", ".join(map(str, dvals)), ", ".join(map(str, nsims)), ", ".join(map(str, weights)), variant,
       "\n".join("INVARIANT " + i for i in invs))


CMP_INVS = ["SharesOfSmallest", "AllSharesReachable", "SelectionsArePrefixes", "SumOne", "Proportional", "Permutes"]
CMP_ACTS = ["AddModel", "CompareAny", "RefuseAny"]


def design_level(ctx):
    W = 8
    q = ctx.quick
    # regression adjustment
    if q:
        runs = [("k2", lin_cfg(2, 1, 1, 3, "SV_nan", "TV_pinf", LIN_INVS, obs="MCObsOne")),
                ("k1p2", lin_cfg(1, 2, 1, 3, "SV_ninf", "TV_nan3", LIN_INVS)),
                ("k1", lin_cfg(1, 1, 1, 4, "SV_wide", "TV_neg", LIN_INVS))]
    else:
        runs = [("k2", lin_cfg(2, 1, 1, 3, "SV_nan", "TV_pinf", LIN_INVS)),
                ("k2n4", lin_cfg(2, 1, 4, 4, "SV_nan", "TV_pinf", LIN_INVS, obs="MCObsOne")),
                ("k1p2", lin_cfg(1, 2, 1, 4, "SV_ninf", "TV_nan3", LIN_INVS)),
                ("k1", lin_cfg(1, 1, 1, 5, "SV_wide", "TV_neg", LIN_INVS))]
    for (name, cfg) in runs:
        ctx.tlc("MC_LinAdjust", "MC_LinAdjust_" + name, cfg_text=cfg, expect_actions=LIN_ACTS, workers=W, timeout=2400)
    # negative controls (must be refuted)
    ctx.tlc("MC_LinAdjust", "MC_LinAdjust_neg_nointercept", cfg_text=lin_cfg(2, 1, 1, 3, "SV_fin", "TV_fin", ["NormalEquations", "LeastSquares"], centred=False),
            expect_ok=False, workers=W, timeout=600)
    ctx.tlc("MC_LinAdjust", "MC_LinAdjust_neg_singular", cfg_text=lin_cfg(2, 1, 1, 3, "SV_fin", "TV_fin", ["AffineInvariant"], affs="MCAffsSingular"),
            expect_ok=False, workers=W, timeout=600)
    ctx.tlc("MC_LinAdjust", "MC_LinAdjust_neg_degenerate", cfg_text=lin_cfg(2, 1, 1, 3, "SV_fin", "TV_fin", ["AffineInvariantAlsoDegenerate"]),
            expect_ok=False, workers=W, timeout=600)
    # model comparison
    if q:
        runs = [("m2", cmp_cfg(2, 2, [0, 1, NAN], [2, 3], [0, 1, 2], CMP_INVS), CMP_ACTS),
                ("m3", cmp_cfg(3, 1, [0, 1, 2], [1, 2], [1, 2], CMP_INVS), CMP_ACTS[:2])]
    else:
        runs = [("m2", cmp_cfg(2, 2, [0, 1, PINF, NAN], [2, 3], [0, 1, 2], CMP_INVS), CMP_ACTS),
                ("m2s3", cmp_cfg(2, 3, [0, 1, NAN], [2, 3], [0, 1], CMP_INVS), CMP_ACTS),
                ("m3", cmp_cfg(3, 2, [0, 1], [1, 2], [1, 2], CMP_INVS), CMP_ACTS[:2])]
    for (name, cfg, acts) in runs:
        ctx.tlc("MC_ModelCompare", "MC_ModelCompare_" + name, cfg_text=cfg, expect_actions=acts, workers=W, timeout=2400)
    ctx.tlc("MC_ModelCompare", "MC_ModelCompare_neg_times_nsim", cfg_text=cmp_cfg(2, 2, [0, 1], [2, 3], [1, 2], ["Proportional"], variant="times-nsim"),
            expect_ok=False, workers=W, timeout=600)
    ctx.tlc("MC_ModelCompare", "MC_ModelCompare_neg_determined", cfg_text=cmp_cfg(2, 2, [0, 1], [2, 3], [1, 2], ["DeterminedAlways"]),
            expect_ok=False, workers=W, timeout=600)


def run(ctx):
    ctx.rule = ("real adjust_posterior / compare_models calls on elfi Sample objects built from integer data with inf/nan codes: "
                "pinned shapes, every placement of values and non-finite markers for 3 rows and 1 regressor (a seeded part for 2 regressors), "
                "seeded random samples (1-2 summaries, 2-9 rows, 1-3 parameters, requested parameter subsets/orders, rows equal to the "
                "observed summaries, duplicates) each followed by calls on integer affine re-expressions (det +-1, +-2); model lists: "
                "every pair of 1-2 discrepancies over {0,1,inf,nan}, seeded random lists of 2-4 models with ties, priors none/weights, "
                "each followed by calls on permuted lists.  distinct = distinct scenario; non-trivial = at least K+2 finite rows "
                "(adjustment) / at least two different discrepancy vectors (comparison).")
    ctx.clauses_decided = [
        "a: adjusted = theta - least-squares slope . (simulated - observed) [P:normal-equations, P:adjusted; exact rationals, unit 10^-6, "
        "where the slope is unique and the centred Gram matrix has condition <= 10^4]",
        "b: only rows with finite summaries and parameter are used, per parameter [P:finite-mask: returned length always; which rows via P:adjusted]",
        "c: a draw whose summaries equal the observed ones is unchanged [P:fixed-point-row, exact, always]",
        "d: invariant under invertible affine re-expression [P:affine-invariant, integer maps det +-1, +-2, both calls real]",
        "e: probabilities sum to one [P:sum-one], are proportional to share/n_sim*prior with free tie order at the cut [P:probabilities], "
        "permute with the models when the shares are determined [P:permute]"]
    ctx.clauses_not_decided = [
        "rank-deficient designs (collinear summaries, constant regressor, < K+1 distinct finite rows): the least-squares slope is not "
        "unique, the statement fixes no result; only P:finite-mask and P:fixed-point-row are judged (the code's minimum-norm choice is an M: clause)",
        "a requested parameter without any finite row: sklearn refuses the empty design matrix, the whole call raises; accepted either way",
        "non-integer data, more than 2 summaries, nonlinear (non-affine) re-expressions",
        "model comparison where every model inside the cut has weight 0 (0/0): all-nan accepted"]
    ctx.trusted_base += ["sklearn.linear_model.LinearRegression is the regression engine the code delegates to (its result is checked, not trusted)"]
    ctx.assumptions += ["float results on integer data with condition number <= 10^4 are within 10^-6/2 of the exact rational (measured margin > 10^6)"]
    design_level(ctx)
    a_scs, a_small = adj_scenarios(ctx)
    c_scs, c_small = cmp_scenarios(ctx)
    scs = a_scs + c_scs
    traces = check_scenarios(ctx, scs)
    ctx.exhaustive = True
    ctx.notes.append("adjustment: %d pinned/exhaustive-small + %d random scenarios; comparison: %d pinned/exhaustive-small + %d random"
                     % (a_small, len(a_scs) - a_small, c_small, len(c_scs) - c_small))
    for i in (1, 5, len(a_scs) - 1, len(a_scs) + 1, len(scs) - 1):
        ctx.sample(dict(scenario=scs[i], trace=traces[i]))


def replay(ctx, scenario):
    check_scenarios(ctx, [scenario])

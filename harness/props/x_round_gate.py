"""EXTENSION (no listed property): batch / round gating of the non-sampler inference engines.

(a) ModelBased (elfi/methods/inference/parameter_inference.py: __init__ / set_objective / update / _merge_batch / _init_round /
    _process_simulated / prepare_new_batch / _allow_submit / infer) as BSL (bsl.py: sample, _init_state, _init_round with prior
    rejections that lower the objective, current_params) and BOLFIRE (bolfire.py: __init__ -> _init_round, prior draw vs acquire,
    _process_simulated, _should_optimize, fit called again) use it;
(b) BayesianOptimization (bolfi.py: _get_acquisition_index, _allow_submit with async_acq True / False, prepare_new_batch and its
    acquisition queue, update, _should_optimize / update_interval / last_GP_update, set_objective with precomputed evidence),
both on ParameterInference.infer / iterate and BatchHandler.

O1: RoundGate.tla - one action per public call / critical section, every configuration (kind, max_parallel_batches, batch_size,
    batches per round, n_initial_evidence, precomputed evidence, batches_per_acquisition, update_interval, async_acq, one or two
    successive calls) chosen in Init, adversarial client; 23 invariants + termination; eight refuted controls: three mechanism controls (no round gate,
    no re-initialisation) and five that refute three expectations a user could have and the code does not meet (findings).
O3: histories of public calls on REAL elfi.BayesianOptimization / elfi.BOLFIRE / elfi.BSL objects through harness.sched_client
    (every is_ready script of length <= L, then seeded random answers; out-of-order task execution); recording subclasses whose
    overrides call super and log; stub surrogate / acquisition / classifier / likelihood that only tag and log (the GP, the
    acquisition functions and the synthetic likelihood are C11 / C12 / C14 / C20's business).  RoundGate_Trace.tla recomputes every
    guard, counter and hand-over from the logged arguments with RoundGateOps and compares after every event.
All failures are E: clauses, reported as drift (extension beyond the listed properties).
"""
import copy
import hashlib
import itertools
import os
import random
import threading

import numpy as np

from harness import tlc
from harness.util import Hang, time_limit

CALL_LIMIT_S = 20
HANGS = [0]
STEP = 0.015625          # acquired points are k/64: exact floats, exact in fixed point

# ------------------------------------------------------------------------------ the log
LOG = []
CTX = dict(constructing=False, kind="", gp=None)

DEFAULTS = dict(id=-1, bi=-1, ans=False, arg=0, nb=0, ns=0, rd=0, nsr=0, nev=0, last=0, nsmp=0, objb=0, objr=0, np=0, nx=0, ql=0, gpn=0,
                n=0, t=0, pend=0, seen=0, pts=[], rows=[], opt=False, pre=False, cur=0, raised="", left=0, msg="", digest="")


def fx6(x):
    return int(round(float(x) * 1e6))


def log(ev, **kw):
    e = dict(ev=ev)
    e.update(kw)
    LOG.append(e)


def snap(o):
    st = o.state
    try:
        objb = int(o._objective_n_batches)
    except Exception:
        objb = 0
    gp = getattr(o, "target_model", None)
    acq = st.get("acquisition", [])
    return dict(nb=int(st["n_batches"]), ns=int(st["n_sim"]), rd=int(st.get("round", 0)), nsr=int(st.get("n_sim_round", 0)),
                nev=int(st.get("n_evidence", 0)), last=int(st.get("last_GP_update", 0)), nsmp=int(st.get("n_samples", 0)), objb=objb,
                objr=int(o.objective.get("round", 0)), np=int(o.batches.num_pending), nx=int(o.batches.next_index), ql=int(len(acq)),
                gpn=int(gp.n_evidence) if gp is not None else 0)


# ------------------------------------------------------------------------------ tiny models whose values are their provenance
class Sim:
    """row r of batch b -> [64 * b + r, theta]: a simulated row says which batch it came from and at which parameter value"""

    def __init__(self):
        self.__name__ = "sim"

    def __call__(self, t, batch_size=1, random_state=None, meta=None):
        t = np.asarray(t, dtype=float).reshape(-1)
        out = np.zeros((batch_size, 2))
        out[:, 0] = 64 * int(meta["batch_index"]) + np.arange(batch_size)
        out[:, 1] = t
        return out


def s_first(y):
    return np.asarray(y, dtype=float)[:, 0]


def s_second(y):
    return np.asarray(y, dtype=float)[:, 1]


def d_ident(s, observed=None):
    return np.asarray(s, dtype=float)


def build_model(with_d):
    import elfi
    m = elfi.ElfiModel(name="xrg")
    elfi.Prior("uniform", 0, 8, model=m, name="t")
    s = elfi.Simulator(Sim(), m["t"], model=m, name="y", observed=np.zeros((1, 2)))
    s.uses_meta = True
    elfi.Summary(s_first, m["y"], model=m, name="S1")
    if with_d:
        elfi.Discrepancy(d_ident, m["S1"], model=m, name="d")
    else:
        elfi.Summary(s_second, m["y"], model=m, name="S2")
    return m


# ------------------------------------------------------------------------------ stubs and recording subclasses
_CLS = {}


def classes():
    """recording subclasses of the real engines (overrides call super and log) and logging stubs for their collaborators"""
    if _CLS:
        return _CLS
    import elfi
    from elfi.methods.bo.acquisition import AcquisitionBase
    from elfi.methods.bo.gpy_regression import GPyRegression
    from elfi.methods.classifier import Classifier
    from elfi.methods.inference.bolfire import BOLFIRE

    class FakeGP(GPyRegression):
        """a surrogate that only stores and logs what it is given (no GPy model is ever built)"""

        def __init__(self, names, bounds):
            super().__init__(names, bounds=bounds)
            self.x_rows = []

        def update(self, x, y, optimize=False):
            x = np.asarray(x, dtype=float).reshape((-1, self.input_dim))
            y = np.asarray(y, dtype=float).reshape(-1)
            rows = []
            for a, b in zip(x, y):
                self.x_rows.append((float(a[0]), float(b)))
                bo = CTX["kind"] == "bo"
                rows.append([fx6(a[0]), int(b) // 64 if bo else 0, int(b) % 64 if bo else 0])
            log("gp", rows=rows, opt=bool(optimize), pre=bool(CTX["constructing"] and CTX["kind"] == "bo"))

        @property
        def n_evidence(self):
            return len(self.x_rows)

        @property
        def X(self):
            return np.array([[r[0]] for r in self.x_rows])

        @property
        def Y(self):
            return np.array([[r[1]] for r in self.x_rows])

        def predict_mean(self, x):
            return np.zeros((np.atleast_2d(x).shape[0], 1))        # flat: extract_result's minimiser converges at once

    class TagAcq(AcquisitionBase):
        """acquire(n, t) returns the next n tagged points k/64 and logs what the surrogate held and what was outstanding"""

        def __init__(self, model):
            self.model = model
            self.k = 0
            self.owner = None

        def acquire(self, n, t=None):
            pts = [STEP * (self.k + i + 1) for i in range(int(n))]
            self.k += int(n)
            log("acq", n=int(n), t=int(t) if t is not None else -1, pend=int(self.owner.batches.num_pending) if self.owner is not None else 0,
                seen=int(self.model.n_evidence), pts=[fx6(p) for p in pts])
            return np.array(pts).reshape(-1, 1)

    class ConstCls(Classifier):
        def __init__(self):
            pass

        def fit(self, X, y):
            pass

        def predict_log_likelihood_ratio(self, X):
            return np.array([[0.5]])

        @property
        def attributes(self):
            return {}

    class Rec:
        def _allow_submit(self, batch_index):
            ans = super()._allow_submit(batch_index)
            log("allow", bi=int(batch_index), ans=bool(ans))
            return ans

        def set_objective(self, *a, **k):
            super().set_objective(*a, **k)
            log("obj", **snap(self))

        def update(self, batch, batch_index):
            super().update(batch, batch_index)
            log("upd", bi=int(batch_index), **snap(self))

    class RecMb(Rec):
        def prepare_new_batch(self, batch_index):
            b = super().prepare_new_batch(batch_index)
            log("prep", bi=int(batch_index), t=-1, pts=[fx6(v) for v in np.ravel(b["t"])])
            return b

        def _process_simulated(self):
            sim = np.asarray(self.simulated, dtype=float)
            log("proc", rows=[[int(r[0]) // 64, int(r[0]) % 64, fx6(r[1])] for r in sim], cur=fx6(np.ravel(self.current_params)[0]))
            return super()._process_simulated()

    class RecBo(Rec, elfi.BayesianOptimization):
        def prepare_new_batch(self, batch_index):
            b = super().prepare_new_batch(batch_index)
            log("prep", bi=int(batch_index), t=int(self._get_acquisition_index(batch_index)), pts=[] if b is None else [fx6(v) for v in np.ravel(b["t"])],
                ql=int(len(self.state["acquisition"])))
            return b

    class RecBolfire(RecMb, BOLFIRE):
        def _init_round(self):
            super()._init_round()
            log("initr", cur=fx6(np.ravel(self.current_params)[0]), **snap(self))

    class RecBsl(RecMb, elfi.BSL):
        def _init_state(self, *a, **k):
            super()._init_state(*a, **k)
            log("inits", cur=fx6(self.state["params"][0][0]), **snap(self))

        def _init_round(self):
            super()._init_round()
            n = self.state["n_samples"]
            log("initr", cur=fx6(self.state["params"][n][0]) if n < len(self.state["params"]) else 0, **snap(self))

    _CLS.update(FakeGP=FakeGP, TagAcq=TagAcq, ConstCls=ConstCls, RecBo=RecBo, RecBolfire=RecBolfire, RecBsl=RecBsl)
    return _CLS


def flat_lik(simulated, observed):
    """a synthetic 'likelihood' that is flat: with the uniform prior every in-support proposal is accepted"""
    return 0.0


def construct(sc):
    C = classes()
    kind = sc["kind"]
    bpa = sc["bpa"] or None
    if kind == "bo":
        m = build_model(True)
        gp = C["FakeGP"](["t"], {"t": (0, 8)})
        acq = C["TagAcq"](gp)
        init = sc["init"]
        if sc["npre"] > 0:
            xs = np.array([0.5 + 0.25 * i for i in range(sc["npre"])])
            init = {"t": xs, "d": 64.0 * 900 + np.arange(sc["npre"])}
        o = C["RecBo"](m["d"], target_model=gp, acquisition_method=acq, initial_evidence=init, update_interval=sc["upd"], batch_size=sc["bs"],
                       batches_per_acquisition=bpa, async_acq=bool(sc["async"]), max_parallel_batches=sc["maxpar"], seed=sc["seed"])
        acq.owner = o
    elif kind == "bolfire":
        m = build_model(False)
        gp = C["FakeGP"](["t"], {"t": (0, 8)})
        acq = C["TagAcq"](gp)
        n = sc["k"] * sc["bs"]
        o = C["RecBolfire"](m, n, feature_names=["S1", "S2"], marginal=np.zeros((n, 2)), classifier=C["ConstCls"](), target_model=gp,
                            acquisition_method=acq, n_initial_evidence=sc["init"], update_interval=sc["upd"], batch_size=sc["bs"],
                            max_parallel_batches=sc["maxpar"], seed=sc["seed"])
        acq.owner = o
    else:
        m = build_model(False)
        o = C["RecBsl"](m, sc["k"] * sc["bs"], feature_names=["S1", "S2"], likelihood=flat_lik, batch_size=sc["bs"], max_parallel_batches=sc["maxpar"],
                        seed=sc["seed"])
    return o


def result_digest(sc, o):
    """what the history produced: the surrogate's evidence in order (BO, BOLFIRE) / the chain (BSL), and the simulation count"""
    h = hashlib.sha256()
    if sc["kind"] == "bsl":
        h.update(np.ascontiguousarray(np.asarray(o.state["params"], dtype=float)).tobytes())
    else:
        h.update(np.ascontiguousarray(np.asarray(o.target_model.x_rows, dtype=float)).tobytes())
    h.update(str(int(o.state["n_sim"])).encode())
    return h.hexdigest()[:16]


_SEQ = {}


def seq_digest(sc):
    """the same history under the native client, one batch at a time (batches_per_acquisition as in the scenario)"""
    key = str({k: sc[k] for k in sc if k not in ("maxpar", "script", "sched_seed", "p_ready", "p_run", "pin", "bpa")}) + str(sc["bpa"] or sc["maxpar"])
    if key not in _SEQ:
        tr = record(dict(sc, maxpar=1, bpa=sc["bpa"] or sc["maxpar"]), native=True)
        _SEQ[key] = tr["events"][-1]["digest"] if tr["events"] and not tr["events"][-1]["raised"] else "sequential run raised"
    return _SEQ[key]


def record(sc, native=False):
    """one history of public calls on one real object, under a scheduled client (native=True: the sequential reference run)"""
    import elfi.client
    import elfi.clients.native
    from harness.sched_client import ScheduledClient
    import logging
    seq = "" if native or (sc["kind"] == "bo" and sc["async"]) else seq_digest(sc)
    del LOG[:]
    CTX.update(constructing=True, kind=sc["kind"])
    if native:
        cl = elfi.clients.native.Client()
    else:
        cl = ScheduledClient(script=sc.get("script"), seed=sc.get("sched_seed", 0), p_ready=sc.get("p_ready", 0.5), p_run=sc.get("p_run", 0.5))
        cl.events = LOG
    old = elfi.client._client
    elfi.client.set_client(cl)
    lg = logging.getLogger("elfi")
    lvl = lg.level
    lg.setLevel(logging.CRITICAL)
    try:
        try:
            with time_limit(CALL_LIMIT_S):
                o = construct(sc)
            CTX["constructing"] = False
            log("new", **snap(o))
        except Exception as ex:          # the constructor died: a history with nothing but a failed call
            log("ret", raised="constructor " + type(ex).__name__, msg=str(ex)[:100])
            o = None
        for arg in (sc["calls"] if o is not None else []):
            log("call", arg=int(arg))
            raised, msg = "", ""
            try:
                with time_limit(CALL_LIMIT_S):
                    if sc["kind"] == "bo":
                        o.infer(n_evidence=arg, bar=False)
                    elif sc["kind"] == "bolfire":
                        o.fit(arg, bar=False)
                    else:
                        o.sample(arg, np.array([[float(sc["sigma"])]]), params0=np.array([4.0]), bar=False)
            except Hang:
                raised = "Hang"
                HANGS[0] += 1
            except Exception as ex:
                raised, msg = type(ex).__name__, str(ex)[:100]
            try:
                s = snap(o)
            except Exception:
                s = {}
            dg = ""
            if not raised:
                try:
                    dg = result_digest(sc, o)
                except Exception as ex:
                    dg = "digest raised " + type(ex).__name__
            log("ret", raised=raised, msg=msg, left=len(cl.tasks), digest=dg, **s)
            if raised:
                break
    finally:
        CTX["constructing"] = False
        lg.setLevel(lvl)
        elfi.client.set_client(old)
    events = []
    for e in LOG:
        f = dict(DEFAULTS)
        f.update(e)
        events.append(f)
    return dict(kind=sc["kind"], maxpar=sc["maxpar"], bs=sc["bs"], k=sc["k"], init=sc["init"], npre=sc["npre"], bpa=sc["bpa"], upd=sc["upd"],
                seq=seq, events=events, **{"async": bool(sc["async"])})


# ------------------------------------------------------------------------------ scenarios
def S(kind, calls, maxpar=2, bs=1, k=1, init=0, npre=0, bpa=1, upd=1, asy=False, sigma=16.0, seed=1, script=None, sched_seed=0, p_ready=0.5,
      p_run=0.5, pin=None):
    return dict(kind=kind, calls=list(calls), maxpar=maxpar, bs=bs, k=k, init=init, npre=npre, bpa=bpa, upd=upd, sigma=sigma, seed=seed,
                script=script, sched_seed=sched_seed, p_ready=p_ready, p_run=p_run, pin=pin, **{"async": bool(asy)})


def pinned():
    """deterministic histories: one per finding (reproduced whatever the seed) and one plain history per engine"""
    return [
        S("bo", [7], maxpar=3, init=4, asy=True, upd=1, script=[False] * 40, p_ready=0.0,
          pin="async_acq=True: the first acquisition runs while initial-evidence batches are outstanding (surrogate holds 2 of 4 points)"),
        S("bo", [6], maxpar=2, init=2, upd=3, script=[True] * 40, p_ready=1.0,
          pin="update_interval=3: points are acquired from a GP whose hyperparameters were never optimised (first optimisation at n_initial + 3)"),
        S("bo", [5], maxpar=2, init=2, bpa=2, upd=1, pin="batches_per_acquisition=2, 3 acquired batches needed: one acquired slice is never simulated"),
        S("bo", [5, 8], maxpar=2, init=2, bpa=2, upd=1, pin="... and a later infer() simulates the left-over slice first (acquired from 4 points, run at 5)"),
        S("bolfire", [2, 2, 3], maxpar=2, k=2, init=0, upd=1, pin="BOLFIRE.fit with a target already reached acquires a point that the next fit() drops"),
        S("bolfire", [3, 5], maxpar=3, bs=2, k=3, init=2, upd=2, pin="BOLFIRE plain: two fits, prior rounds then acquired rounds"),
        S("bsl", [5, 3], maxpar=3, bs=1, k=3, sigma=16.0, pin="BSL plain: two sample() calls on one object, prior rejections"),
        S("bo", [4, 9], maxpar=3, bs=2, npre=3, bpa=0, upd=2, pin="BO plain: precomputed evidence, batches_per_acquisition defaults to max_parallel_batches"),
        S("bo", [5, 3], maxpar=2, bs=2, init=3, upd=0, pin="BO plain: initial evidence rounded up to a multiple of batch_size; second target already reached"),
    ]


def script_bases(quick):
    out = [
        S("bo", [6], maxpar=3, init=2, bpa=2, upd=2),
        S("bo", [7, 10], maxpar=3, bs=2, init=4, bpa=1, upd=3, asy=True),
        S("bolfire", [2, 4], maxpar=3, k=3, init=1, upd=2),
        S("bsl", [4], maxpar=3, k=3, sigma=16.0),
    ]
    if not quick:
        out += [
            S("bo", [8], maxpar=4, npre=3, bpa=0, upd=1, asy=True),
            S("bo", [9], maxpar=2, bs=2, init=2, bpa=2, upd=4),
            S("bolfire", [3], maxpar=2, bs=2, k=2, init=0, upd=1),
            S("bolfire", [2, 2, 4], maxpar=4, k=4, init=2, upd=3),
            S("bsl", [3, 3], maxpar=2, bs=2, k=2, sigma=100.0),
            S("bsl", [5], maxpar=4, k=4, sigma=4.0),
        ]
    return out


def random_scenario(rnd, i):
    kind = ["bo", "bo", "bolfire", "bsl"][i % 4]
    maxpar = rnd.choice([1, 2, 2, 3, 3, 4, 5])
    bs = rnd.choice([1, 1, 2, 3])
    sched = dict(sched_seed=rnd.randint(0, 10 ** 6), p_ready=rnd.choice([0.0, 0.2, 0.5, 0.8, 1.0]), p_run=rnd.choice([0.0, 0.5, 1.0]))
    if rnd.random() < 0.3:
        sched["script"] = [rnd.random() < 0.5 for _ in range(rnd.randint(1, 12))]
    if kind == "bo":
        npre = rnd.choice([0, 0, 0, 3, 5])
        init = 0 if npre else rnd.choice([0, 1, 2, 3, 4, 6])
        n0 = npre if npre else -(-init // bs) * bs
        calls = [n0 + rnd.randint(0, 4) * bs + rnd.randint(0, bs - 1)]
        if calls[0] == 0:
            calls[0] = bs
        for _ in range(rnd.choice([0, 0, 1, 1, 2])):
            calls.append(max(1, calls[-1] + rnd.randint(-2, 3 * bs)))
        return S("bo", calls, maxpar=maxpar, bs=bs, init=init, npre=npre, bpa=rnd.choice([0, 1, 1, 2, 3]), upd=rnd.choice([0, 1, 2, 3, 5, 10]),
                 asy=rnd.random() < 0.5, seed=rnd.choice([0, 1, 7, 12345]), **sched)
    k = rnd.choice([1, 2, 2, 3, 4])
    if kind == "bolfire":
        calls = [rnd.randint(1, 4)]
        for _ in range(rnd.choice([0, 1, 1, 2])):
            calls.append(max(1, calls[-1] + rnd.randint(-1, 3)))
        return S("bolfire", calls, maxpar=maxpar, bs=bs, k=k, init=rnd.choice([0, 0, 1, 2, 3]), upd=rnd.choice([0, 1, 1, 2, 3]),
                 seed=rnd.choice([0, 1, 7, 12345]), **sched)
    calls = [rnd.randint(1, 6) for _ in range(rnd.choice([1, 1, 2]))]
    return S("bsl", calls, maxpar=maxpar, bs=bs, k=k, sigma=rnd.choice([0.25, 4.0, 16.0, 100.0]), seed=rnd.choice([0, 1, 7, 12345]), **sched)


def scenarios(ctx):
    rnd = random.Random(ctx.seed * 7919 + 1717)
    out = pinned()
    L = 4 if ctx.quick else 5
    for b in script_bases(ctx.quick):
        for n in range(L + 1):
            for script in itertools.product([False, True], repeat=n):
                out.append(dict(b, script=list(script), sched_seed=rnd.randint(0, 10 ** 6), p_ready=rnd.choice([0.0, 0.5, 1.0]), p_run=rnd.choice([0.0, 0.5, 1.0])))
    out += [random_scenario(rnd, i) for i in range(120 if ctx.quick else 1500)]
    return out


# ------------------------------------------------------------------------------ design check
INV_COMMON = ["Bounded", "NothingCancelled", "NoLeak", "PendingAreTasks", "NeverWaitsOnNothing", "PendingInIndexOrder", "SimCounts"]
INV_MB = ["MbRoundExact", "MbNoEarlySubmit", "MbFreshPointPerRound", "MbCounters", "MbTermination", "BolfireAcqSeesAll", "BolfireFedPerRound"]
INV_BO = ["BoFedInOrderOnce", "BoQueueExact", "BoAcquiredAccounted", "BoAcqWindow", "BoSyncSeesAll", "BoSyncEvidenceScheduleFree", "UpdateGate",
          "BoTotal", "SyncAcqAfterInitialEvidence"]
ACTIONS = ["CallBo", "CallBolfire", "CallBsl", "SubmitBo", "SubmitMb", "GoWait", "ConsumeBo", "ConsumeMb", "Finish"]
BASE = dict(Kinds=["bo"], MaxPars=[2], BSs=[1], Ks=[1], NInits=[2], NPres=[0], BPAs=[1], Upds=[1], Asyncs=[False], BoO1s=[5], BoO2s=[0], MbO1s=[2],
            MbO2s=[0], Gates=[True], ReInits=[True])


def tset(vals):
    def one(v):
        if isinstance(v, bool):
            return "TRUE" if v else "FALSE"
        if isinstance(v, str):
            return '"%s"' % v
        return str(v)
    return "{" + ", ".join(one(v) for v in vals) + "}"


def mc_cfg(invs, props=(), **kw):
    d = dict(BASE)
    d.update(kw)
    return ("SPECIFICATION Spec\nCONSTANTS\n" + "\n".join("  %s = %s" % (k, tset(v)) for k, v in d.items()) + "\n"
            + "\n".join("INVARIANT " + i for i in invs) + "\n" + "\n".join("PROPERTY " + p for p in props) + "\nCHECK_DEADLOCK FALSE\n")


class _Lane:
    """what ctx.tlc accumulates, per thread (merged by Design.join)"""

    def __init__(self, ctx):
        self.ctx = ctx
        self.states = 0
        self.transitions = 0
        self.tlc_runs = []
        self.negative_controls = []

    def tlc(self, module, cfg, expect_actions=None, expect_ok=True, label=None, **kw):
        kw.setdefault("metadir", os.path.join(self.ctx.outdir, "meta_%s" % cfg))
        r = tlc.run(module, cfg, **kw)
        self.states += r.distinct
        self.transitions += r.generated
        summ = r.as_dict()
        summ["label"] = label or cfg
        summ["expect_ok"] = expect_ok
        self.tlc_runs.append(summ)
        for a in (expect_actions or []):
            if r.coverage.get(a, [0, 0])[1] == 0:
                raise tlc.MachineryFailure("action %s of %s never taken (vacuous run)\n%s" % (a, module, r.out[-1500:]))
        if expect_ok and not r.ok:
            raise tlc.MachineryFailure("design module %s/%s violates %s\n%s" % (module, cfg, r.violated, r.trace_text[:3000]))
        if not expect_ok:
            if r.ok:
                raise tlc.MachineryFailure("negative control %s/%s found no violation" % (module, cfg))
            self.negative_controls.append(dict(run=summ["label"], refuted=r.violated))
        return r


def design_jobs(ctx):
    """three lanes; TLC workers per lane 3 + 1 + 1"""
    q = ctx.quick
    lanes = [[], [], []]

    def add(lane, name, cfg_text, workers, **kw):
        lanes[lane].append(lambda acc: acc.tlc("RoundGate", "MC_RoundGate_" + name, cfg_text=cfg_text, workers=workers, timeout=1800, **kw))

    if q:
        main = dict(Kinds=["bo", "bolfire", "bsl"], MaxPars=[3], BSs=[1, 2], Ks=[1, 3], NInits=[0, 2], NPres=[0, 2], BPAs=[1, 2], Upds=[0, 2],
                    Asyncs=[False, True], BoO1s=[6], BoO2s=[0, 8], MbO1s=[2], MbO2s=[0, 3])
    else:
        main = dict(Kinds=["bo", "bolfire", "bsl"], MaxPars=[1, 2, 3], BSs=[1, 2], Ks=[1, 2, 3], NInits=[0, 2, 4], NPres=[0, 2], BPAs=[1, 2], Upds=[0, 1, 3],
                    Asyncs=[False, True], BoO1s=[5, 8], BoO2s=[0, 9], MbO1s=[1, 3], MbO2s=[0, 2, 4])
        big = dict(Kinds=["bo", "bolfire", "bsl"], MaxPars=[4, 5], BSs=[3], Ks=[4], NInits=[0, 3, 6], NPres=[0, 3], BPAs=[2, 3], Upds=[2, 5],
                   Asyncs=[False, True], BoO1s=[12], BoO2s=[0, 17], MbO1s=[2], MbO2s=[0, 3])
        add(1, "big", mc_cfg(INV_COMMON + INV_MB + INV_BO, ["Terminates"], **big), 1, expect_actions=ACTIONS,
            label="RoundGate: larger parameters (max_parallel_batches 4-5, batch_size 3, 4 batches per round)")
    add(0, "all", mc_cfg(INV_COMMON + INV_MB + INV_BO, ["Terminates"], **main), 3, expect_actions=ACTIONS,
        label="RoundGate: every configuration, every schedule: %d invariants + termination" % len(INV_COMMON + INV_MB + INV_BO))
    ctl = [
        ("nogate", ["MbRoundExact"], dict(Kinds=["bolfire"], Ks=[2], MaxPars=[3], Gates=[False]),
         "ModelBased._allow_submit without the round gate: a round's evaluation gets a batch prepared at another point"),
        ("nogate_early", ["MbNoEarlySubmit"], dict(Kinds=["bsl"], Ks=[2], Gates=[False]),
         "ModelBased._allow_submit without the round gate: a batch of the next round is submitted early"),
        ("noreinit", ["MbCounters"], dict(Kinds=["bolfire"], Ks=[2], MbO1s=[1], MbO2s=[2], ReInits=[False]),
         "ModelBased.infer without re-initialising the round: a continued fit writes past n_sim_round"),
        ("async_initial", ["AcqAfterInitialEvidence"], dict(Asyncs=[True]),
         "FINDING async_acq=True: an acquisition runs before the initial evidence is in the surrogate"),
        ("async_pending", ["AcqSeesAllSubmitted"], dict(Asyncs=[True]), "async_acq=True: acquisitions run with batches outstanding (as documented)"),
        ("gp_never_optimised", ["GpOptimisedBeforeFirstAcq"], dict(Upds=[1]),
         "FINDING update_interval >= 1: the first points are acquired from a GP whose hyperparameters were never optimised"),
        ("left_bo", ["NoAcquiredPointLeftBehind"], dict(BPAs=[2]), "FINDING BO: an acquired slice is left in the queue when the acquisition size does not divide what is left"),
        ("left_bolfire", ["NoAcquiredPointLeftBehind"], dict(Kinds=["bolfire"], NInits=[0], MbO1s=[2], MbO2s=[1]),
         "FINDING BOLFIRE.fit with a target already reached acquires a point that is never simulated"),
    ]
    for i, (name, invs, kw, label) in enumerate(ctl):
        add(1 + i % 2, "ctl_" + name, mc_cfg(invs, **kw), 1, expect_ok=False, label="RoundGate control: " + label)
    # the same expectations DO hold where the code meets them (so the controls are not refuted for a trivial reason)
    add(1, "sync_ok", mc_cfg(["AcqAfterInitialEvidence", "AcqSeesAllSubmitted"], MaxPars=[1, 2, 3], NInits=[0, 2], BoO1s=[6]), 1,
        label="RoundGate: async_acq=False: every acquisition after the initial evidence, nothing outstanding")
    add(2, "upd0_ok", mc_cfg(["GpOptimisedBeforeFirstAcq", "NoAcquiredPointLeftBehind"], Upds=[0], MaxPars=[1, 2]), 1,
        label="RoundGate: update_interval=0, batches_per_acquisition=1: GP optimised before every acquisition, no point left behind")
    return lanes


class Design:
    """runs the design jobs on three threads (TLC is a subprocess; at most 5 TLC workers at a time)"""

    def __init__(self, ctx):
        self.ctx = ctx
        jobs = design_jobs(ctx)
        self.lanes = [_Lane(ctx) for _ in jobs]
        self.errors = []
        self.threads = [threading.Thread(target=self._run, args=(self.lanes[k], jobs[k]), daemon=True) for k in range(len(jobs))]
        for th in self.threads:
            th.start()

    def _run(self, lane, jobs):
        try:
            for job in jobs:
                job(lane)
        except BaseException as ex:      # re-raised in the main thread by join()
            self.errors.append(ex)

    def join(self):
        for th in self.threads:
            th.join()
        for lane in self.lanes:
            self.ctx.states += lane.states
            self.ctx.transitions += lane.transitions
            self.ctx.tlc_runs += lane.tlc_runs
            self.ctx.negative_controls += lane.negative_controls
        if self.errors:
            raise self.errors[0]


# ------------------------------------------------------------------------------ corrupted copies (binding demonstration)
def corruptions(scs, traces):
    """(what, expected clause, trace, index of the source trace): ONE observed field of a real trace is changed; TLC must reject the
    copy with the clause.  Python only picks WHERE to corrupt."""
    out = []

    def first(pred):
        for k, (sc, tr) in enumerate(zip(scs, traces)):
            if pred(sc, tr):
                return k, sc, tr
        return None

    def cut(tr, j):
        t = copy.deepcopy(tr)
        t["events"] = t["events"][:j + 1]
        return t

    # 1. two rows of different batches swapped in what a round hands to its evaluation
    hit = first(lambda sc, tr: sc["kind"] != "bo" and sc["k"] >= 2 and any(e["ev"] == "proc" for e in tr["events"]))
    if hit:
        k, sc, tr = hit
        j = next(i for i, e in enumerate(tr["events"]) if e["ev"] == "proc")
        t = cut(tr, j)
        rows = t["events"][j]["rows"]
        rows[0], rows[-1] = rows[-1], rows[0]
        out.append(("rows of a round not in batch-index order", "E:round-rows-are-its-batches-in-batch-index-order", t, k))
        t = cut(tr, j)
        t["events"][j]["rows"][-1][2] += 1
        out.append(("a row of a round simulated at another parameter value", "E:round-simulated-at-the-round-parameter-point", t, k))
    # 2. the optimise flag of a surrogate update flipped
    hit = first(lambda sc, tr: sc["kind"] == "bo" and any(e["ev"] == "gp" and not e["pre"] for e in tr["events"]))
    if hit:
        k, sc, tr = hit
        j = next(i for i, e in enumerate(tr["events"]) if e["ev"] == "gp" and not e["pre"])
        t = cut(tr, j)
        t["events"][j]["opt"] = not t["events"][j]["opt"]
        out.append(("optimise flag of a surrogate update flipped", "E:update_interval-gates-optimisation", t, k))
    # 3. a synchronous acquisition reported with one batch outstanding
    hit = first(lambda sc, tr: sc["kind"] == "bo" and not sc["async"] and any(e["ev"] == "acq" for e in tr["events"]))
    if hit:
        k, sc, tr = hit
        j = next(i for i, e in enumerate(tr["events"]) if e["ev"] == "acq")
        t = cut(tr, j)
        t["events"][j]["pend"] = 1
        out.append(("synchronous acquisition with a batch outstanding", "E:num_pending", t, k))
        t = cut(tr, j)
        t["events"][j]["seen"] += 1
        out.append(("acquisition reported to have seen one more evidence point", "E:acquisition-sees-exactly-the-consumed-evidence", t, k))
    # 4. n_batches off by one after an update
    hit = first(lambda sc, tr: any(e["ev"] == "upd" for e in tr["events"]))
    if hit:
        k, sc, tr = hit
        j = next(i for i, e in enumerate(tr["events"]) if e["ev"] == "upd")
        t = cut(tr, j)
        t["events"][j]["nb"] += 1
        out.append(("n_batches off by one after update()", "E:state-n_batches-counts-consumed-batches", t, k))
    # 5. a result consumed out of index order
    for k, (sc, tr) in enumerate(zip(scs, traces)):
        evs = tr["events"]
        gets = [i for i, e in enumerate(evs) if e["ev"] == "get"]
        j = None
        for g in gets:
            u = next((e for e in evs[g + 1:] if e["ev"] in ("upd", "ret")), None)
            if u is not None and u["ev"] == "upd" and u["np"] >= 1:
                j = g
                break
        nxt = next((i for i in gets if j is not None and i > j), None)
        if nxt is None:
            continue
        t = cut(tr, j)
        t["events"][j]["id"] = evs[nxt]["id"]
        out.append(("the second-oldest batch consumed first", "E:consumed-in-index-order", t, k))
        break
    # 6. a task left in the client on return
    hit = first(lambda sc, tr: tr["events"] and tr["events"][-1]["ev"] == "ret" and tr["events"][-1]["raised"] == "")
    if hit:
        k, sc, tr = hit
        t = copy.deepcopy(tr)
        t["events"][-1]["left"] = 1
        out.append(("a task left in the client on return", "E:no-task-left-in-client", t, k))
    # 6b. another result than the sequential run's
    hit = first(lambda sc, tr: tr["seq"] and tr["events"] and tr["events"][-1]["ev"] == "ret" and tr["events"][-1]["raised"] == "")
    if hit:
        k, sc, tr = hit
        t = copy.deepcopy(tr)
        t["events"][-1]["digest"] = "0" * 16
        out.append(("a result that differs from the sequential run's", "E:result-independent-of-schedule-and-parallelism", t, k))
    # 7. the first batch of a round let through while a batch is pending
    for k, (sc, tr) in enumerate(zip(scs, traces)):
        if sc["kind"] == "bo" or sc["maxpar"] < 2:
            continue
        evs = tr["events"]
        j = None
        for i, e in enumerate(evs):
            if e["ev"] == "allow" and not e["ans"] and e["bi"] % sc["k"] == 0:
                if sum(1 for x in evs[:i] if x["ev"] == "submit") - sum(1 for x in evs[:i] if x["ev"] == "get") > 0:
                    j = i
                    break
        if j is None:
            continue
        t = cut(tr, j)
        t["events"][j]["ans"] = True
        out.append(("first batch of a round allowed while a batch is pending", "E:round-gate-holds-the-first-batch-of-a-round-until-nothing-is-pending", t, k))
        break
    return out


# ------------------------------------------------------------------------------ check
CLAUSES_DESIGN = [
    "RoundGate.tla, every configuration and client schedule within the bounds: ModelBased - every round evaluates exactly n_sim_round/batch_size "
    "consecutive batches in index order, all prepared at the round's own point; nothing of the next round is submitted before the round is consumed; "
    "a fresh point per round; n_sim / n_batches / round / n_sim_round bookkeeping; termination at the requested rounds (BSL: rounds + prior "
    "rejections = n_samples); BOLFIRE acquisitions see all earlier rounds, the surrogate is fed one (point, value) per round",
    "BayesianOptimization - surrogate fed the consumed batches in index order, each once; batch b is slice (b - off) mod bpa of acquisition (b - off) "
    "div bpa; every acquired slice is queued, outstanding or fed, exactly once; an acquisition has seen precomputed + submitted - outstanding "
    "evidence with at most max_parallel_batches - 1 outstanding (async) / none (sync: hence schedule-free evidence); update_interval gate; "
    "n_evidence on return; never more than max_parallel_batches outstanding; nothing cancelled, nothing left in the client",
    "three expectations refuted on the code-shaped machine (findings) + four mechanism controls"]
CLAUSES_TRACE = [
    "after every event of a real history: _allow_submit's answer and whether is_ready was asked = the transcribed guards; prepare_new_batch = "
    "the current point / the next slice of the acquisition / a prior draw; acquire(n, t): n, t, queue empty, evidence seen, batches outstanding; "
    "surrogate updates: rows of the consumed batch, optimise flag = _should_optimize recomputed; _process_simulated exactly at round ends with "
    "`simulated` = the round's batches in index order at the round's point; _init_round exactly when rounds remain (BSL: rejections lower "
    "the objective); n_batches, n_sim, round, n_sim_round, n_evidence, n_samples, last_GP_update, objective, num_pending, next_index, "
    "acquisition queue after every update and on return; returns exactly when the objective is reached, nothing left in the client"]


def check_round_gate(ctx, design=True):
    bg = Design(ctx) if design else None
    scs = scenarios(ctx)
    traces = []
    for sc in scs:
        if HANGS[0] >= 2:          # the code under test does not terminate: enough evidence, do not burn the time budget
            break
        traces.append(record(sc))
    scs = scs[:len(traces)]
    if bg is not None:
        bg.join()
    corr = corruptions(scs, traces)
    n_all = len(traces) + len(corr)
    allv = ctx.validate("RoundGate_Trace", traces + [c[2] for c in corr], chunk=max(20, -(-n_all // 6)), name="roundgate")
    verdicts = allv[:len(traces)]
    ctx.traces_validated -= len(corr)                # corrupted copies are not executions of the real code
    if len(corr) < 6:
        raise tlc.MachineryFailure("RoundGate: only %d corrupted-trace controls could be built from the recorded histories" % len(corr))
    for (what, want, _t, k), v in zip(corr, allv[len(traces):]):
        if verdicts[k]["verdict"] != "ok":
            continue          # the source trace itself fails (changed tree): its copy may fail earlier for that reason
        if v["verdict"] != want:
            raise tlc.MachineryFailure("RoundGate_Trace did not reject a corrupted trace (%s): expected %s, got %r" % (what, want, v))
        ctx.negative_controls.append(dict(run="corrupted trace / RoundGate_Trace: " + what, refuted=want))
    per_kind = {}
    inv_count = {}
    n_events = n_calls = n_wait = n_acq = n_rej = 0
    for sc, tr, v in zip(scs, traces, verdicts):
        evs = tr["events"]
        n_events += len(evs)
        n_calls += sum(1 for e in evs if e["ev"] == "call")
        n_acq += sum(1 for e in evs if e["ev"] == "acq")
        n_rej += sum(1 for e in evs if e["ev"] == "obj") - sum(1 for e in evs if e["ev"] == "call")
        unready = sum(1 for e in evs if e["ev"] == "ready" and not e["ans"])
        n_wait += unready
        per_kind[sc["kind"]] = per_kind.get(sc["kind"], 0) + 1
        par = max([e["np"] for e in evs if e["ev"] == "upd"] + [0])
        ctx.case("round-gate:" + str({k: sc[k] for k in sc if k != "pin"}) + str([(e["ev"], e["ans"]) for e in evs if e["ev"] == "ready"]),
                 nontrivial=unready > 0 or par > 0)
        ctx.trace_events += len(evs)
        if v["verdict"] != "ok":
            j = min(max(v["l"] - 2, 0), len(evs) - 1)
            e = evs[j]
            ctx.drifted(v["verdict"], sc, detail=dict(event_index=j, event={f: e[f] for f in e if e[f] != DEFAULTS.get(f)},
                                                      before=[x["ev"] for x in evs[max(0, j - 6):j]]))
        for name in [x for x in v["drift"].split("|") if x]:
            inv_count[name] = inv_count.get(name, 0) + 1
            if sc.get("pin") or inv_count[name] <= 2:
                ctx.drifted("E:" + name, sc, detail=dict(pinned=sc.get("pin")))
    ctx.trusted_base += ["harness hooks: recording subclasses of BayesianOptimization / BOLFIRE / BSL whose overrides call super and log",
                         "harness stubs: a surrogate (GPyRegression subclass) and an acquisition method that only tag, store and log; a constant "
                         "classifier; a flat synthetic likelihood (GP, acquisition functions, classifier and likelihood belong to C11 / C12 / C14 / C20)",
                         "harness.sched_client as the client (its contract is the ClientContract extension)"]
    ctx.assumptions += ["one parameter; n_sim_round a multiple of batch_size (the constructor refuses anything else)",
                        "BSL with a flat likelihood and a uniform prior: every in-support proposal is accepted (acceptance is C20's clause)"]
    ctx.clauses_decided += ["extension RoundGate (E: clauses, drift only): " + c for c in CLAUSES_DESIGN + CLAUSES_TRACE]
    ctx.clauses_not_decided += ["RoundGate extension: BOLFI on top of BayesianOptimization (fit = infer), pools, the ipyparallel / dask clients"]
    ctx.notes.append("RoundGate extension: %d real histories (%s; %d pinned), %d public calls, %d events, %d unready answers, %d acquisitions, "
                     "%d BSL prior rejections; %d corrupted-trace controls rejected; user-level expectations not met (histories): %s"
                     % (len(scs), ", ".join("%s=%d" % kv for kv in sorted(per_kind.items())), len(pinned()), n_calls, n_events, n_wait, n_acq, n_rej,
                        len(corr), ", ".join("%s=%d" % kv for kv in sorted(inv_count.items())) or "none"))
    if traces:
        ctx.sample(dict(extension="RoundGate", scenario=scs[0], events=[{f: e[f] for f in e if e[f] != DEFAULTS.get(f)} for e in traces[0]["events"][:14]]))
    return dict(histories=len(scs), calls=n_calls, events=n_events, corrupted=len(corr), invariants_violated=inv_count,
                failed=[(sc, v) for sc, v in zip(scs, verdicts) if v["verdict"] != "ok"])

"""C03 - compiled execution equals the dataflow meaning of the user's graph.

O1: Compile.tla: for every graph with <= 3 nodes (kinds x positional/named parents x observations x
    uses_meta x requested outputs incl. observed twins x with_values) TLC checks
    Execute(Load(Compile(G))) = Meaning(G), the executed set, and the rejection rule.
O2: TLC emits the graphs it explores (Gen_Compile); each is built through the public constructors
    with symbolic operations and run with model.generate on the real elfi.
O3: the returned terms, call counters and exceptions (also for random 4-8 node graphs) go back to
    TLC, which recomputes the meaning from the graph description (Compile_Trace.tla).
"""
import json
import random

from harness import tlc
from harness.symgraph import KEYS, Recorder, build_model, out_name, term
from harness.util import Hang, time_limit


def mc_cfg(names, fan, named, wv, meta, tw, invs):
    def b(x):
        return "TRUE" if x else "FALSE"
    return """SPECIFICATION Spec
CONSTANTS
  Names <- %s
  MaxFanIn = %d
  WithNamed = %s
  WithWV = %s
  WithMeta = %s
  TwinOutputs = %s
%s
CHECK_DEADLOCK FALSE
""" % (names, fan, b(named), b(wv), b(meta), b(tw), "\n".join("INVARIANT " + i for i in invs))


INV = ["RejectWhenRequired", "RejectOnlyRejectable", "ValuesConform", "RunsExactlyNeeded"]


def record(sc):
    """Build the model, run generate, return the trace."""
    g = sc
    rec = Recorder(sc.get("bs", 3))
    tr = dict(nodes=g["nodes"], kind=g["kind"], pos=g["pos"], named=g["named"], obs=g["obs"], meta=g["meta"],
              outs=g["outs"], wv=g["wv"], raised="", result=[], counts={})
    try:
        with time_limit(180):
            m = build_model(g, rec, order=sc.get("order"))
            from harness.symgraph import Sym
            wv = {x: Sym(["wv", x]) for x in g["wv"]} or None
            outs = [out_name(o) for o in g["outs"]]
            from harness import symgraph
            symgraph.EXPECT_META.update(submission_index=0, master_seed=sc.get("seed", 1), model_name="symg")
            try:
                res = m.generate(rec.bs, outs, with_values=wv, seed=sc.get("seed", 1))
            finally:
                symgraph.EXPECT_META.clear()
            tr["result"] = [term(res[n]) for n in outs]
    except Hang:
        tr["raised"] = "Hang"
    except ValueError as ex:
        tr["raised"] = "ValueError"
        tr["exc"] = str(ex)[:200]
    except Exception as ex:
        tr["raised"] = type(ex).__name__
        tr["exc"] = str(ex)[:200]
    if tr["raised"]:
        tr["result"] = [["-"] for _ in g["outs"]]
    tr["counts"] = {x: rec.counts.get(x, 0) for x in g["nodes"]}
    return tr


def record_session(sc):
    """Several batches of ONE BatchHandler / ComputationContext (shared executor cache): per batch another set of nodes is
    supplied - through an output pool that holds the batch for some of its stores (mode pool, what generate(with_values=)
    and reused pools do) or as overriding values of the batch (mode override, what SMC / BOLFI do through
    prepare_new_batch).  Each batch is a trace of its own with the outputs it effectively requested."""
    import elfi
    import elfi.client
    from elfi.model.elfi_model import ComputationContext
    from harness import symgraph
    from harness.symgraph import Sym
    g = sc
    rec = Recorder(sc.get("bs", 3))
    traces = []
    ses = sc["session"]
    names = {out_name(o): o for o in g["outs"]}
    try:
        m = build_model(g, rec, order=sc.get("order"))
        pool = elfi.OutputPool(list(ses["stores"])) if ses["mode"] == "pool" else None
        cctx = ComputationContext(batch_size=rec.bs, seed=sc.get("seed", 1), pool=pool)
        bh = elfi.client.BatchHandler(m, cctx, output_names=[out_name(o) for o in g["outs"]], client=elfi.client.get_client())
        err = None
    except Exception as ex:          # the graph itself is refused (e.g. stochastic observed data): judged by its plain scenario
        return []
    for bi, wv in enumerate(ses["steps"]):
        rec.counts.clear()
        symgraph.EXPECT_BI[0] = bi
        # compute() does not count as a submission; submit() numbers them from 0
        symgraph.EXPECT_META.update(submission_index=(bi if ses["mode"] == "override" else 0), master_seed=sc.get("seed", 1), model_name="symg")
        tr = dict(nodes=g["nodes"], kind=g["kind"], pos=g["pos"], named=g["named"], obs=g["obs"], meta=g["meta"],
                  outs=g["outs"], wv=list(wv), raised="", result=[], counts={}, step=bi)
        try:
            with time_limit(180):
                vals = {x: Sym(["wv", x]) for x in wv}
                if ses["mode"] == "pool":
                    pool.add_batch(vals, bi)
                    res = bh.compute(bi)
                else:
                    bh.submit(vals)
                    res, _bi = bh.wait_next()
                eff = [names.get(k, ["n", k]) for k in sorted(res)]
                tr["outs"] = eff
                tr["result"] = [term(res[out_name(o)]) for o in eff]
        except Hang:
            tr["raised"] = "Hang"
        except Exception as ex:
            tr["raised"] = type(ex).__name__
            tr["exc"] = str(ex)[:200]
        finally:
            symgraph.EXPECT_BI[0] = 0
            symgraph.EXPECT_META.clear()
        if tr["raised"]:
            tr["result"] = [["-"] for _ in tr["outs"]]
        tr["counts"] = {x: rec.counts.get(x, 0) for x in g["nodes"]}
        traces.append(tr)
        if tr["raised"]:
            break
    return traces


def session_graph(rnd):
    """random graph + a session of 2-4 batches over it; supplied nodes are pool stores (mode pool) or any nodes of the batch
    (mode override); never observed-data dependent rejections"""
    for _ in range(50):
        g = random_graph(rnd, rnd.randint(4, 8))
        g["obs"] = []                       # no observed twins: sessions are about supplied values x cached order
        g["outs"] = [o for o in g["outs"] if o[0] == "n"] or [["n", g["nodes"][-1]]]
        nonconst = [x for x in g["nodes"] if g["kind"][x] != "const"]
        if len(nonconst) < 3:
            continue
        mode = rnd.choice(["pool", "override"])
        if mode == "pool":
            stores = rnd.sample(nonconst, rnd.randint(1, min(3, len(nonconst))))
            cand = stores
        else:
            stores = []
            # values may be given for any node of the batch's net (BatchHandler.submit(batch)), requested or not; the net holds
            # the requested outputs and what they depend on
            need, front = set(), {o[1] for o in g["outs"]}
            while front:
                need |= front
                front = {p for x in front for p in list(g["pos"][x]) + [e[1] for e in g["named"][x]]} - need
            cand = [x for x in nonconst if x in need]
            if not cand:
                continue
        steps = [sorted(x for x in cand if rnd.random() < p) for p in rnd.sample([0.0, 0.5, 1.0, 0.5], rnd.randint(2, 4))]
        g["wv"] = []
        g["session"] = dict(mode=mode, stores=stores, steps=steps)
        return g
    return None


def wide_graph(rnd):
    """one node with 11-15 positional parents (declared order unrelated to names), some named ones"""
    k = rnd.randint(11, 15)
    parents = ["p%02d" % i for i in range(k)]
    rnd.shuffle(parents)
    kind = {p: rnd.choice(["const", "prior", "const"]) for p in parents}
    pos = {p: [] for p in parents}
    named = {p: [] for p in parents}
    top = "w"
    kind[top] = rnd.choice(["op", "sim"])
    extra = []
    if rnd.random() < 0.5:
        kind["q"] = "const"
        pos["q"], named["q"] = [], []
        extra = ["q"]
    pos[top] = list(parents)
    named[top] = [["ka", "q"]] if extra else []
    nodes = sorted(parents) + extra + [top]
    outs = [["n", top]]
    if kind[top] == "sim" and rnd.random() < 0.5:
        kind["s"] = "sum"
        pos["s"], named["s"] = [top], []
        nodes.append("s")
        outs = [["n", "s"]]
    return dict(nodes=nodes, kind=kind, pos=pos, named=named, obs=[], meta=[], meta_false=[], outs=outs, wv=[], implicit=[],
                bs=rnd.choice([1, 3]), seed=rnd.randint(0, 10 ** 6))


KINDS = ["const", "op", "prior", "sim", "sum", "disc"]


def random_graph(rnd, n):
    """ELFI-shaped random DAG with n nodes (random fan-in/out, named edges, shared constants)."""
    names = ["n%02d" % i for i in range(n)]
    rnd.shuffle(names)          # name order is unrelated to topological position
    kind, pos, named = {}, {}, {}
    for i, x in enumerate(names):
        earlier = names[:i]
        k = rnd.choice(KINDS if earlier else ["const", "op", "prior", "sim"])
        if k in ("sum", "disc") and not earlier:
            k = "op"
        kind[x] = k
        pos[x], named[x] = [], []
        if k == "const":
            continue
        nmax = min(len(earlier), 3)
        npar = rnd.randint(1 if k in ("sum", "disc") else 0, nmax)
        # bias towards elfi-like wiring: summaries on simulators, discrepancies on summaries
        pool = list(earlier)
        if k == "sum":
            pref = [p for p in earlier if kind[p] in ("sim", "sum")]
            pool = pref * 3 + pool
        if k == "disc":
            pref = [p for p in earlier if kind[p] == "sum"]
            pool = pref * 4 + pool
        chosen = []
        while len(chosen) < npar:
            p = rnd.choice(pool)
            if p not in chosen:
                chosen.append(p)
        pos[x] = chosen
        if k in ("op", "sim", "sum"):
            rest = [p for p in earlier if p not in chosen]
            for param in ("ka", "kb"):
                if rest and rnd.random() < 0.2:
                    p = rnd.choice(rest)
                    rest.remove(p)
                    named[x].append([param, p])
    observable = [x for x in names if kind[x] in ("sim", "sum")]
    obs = [x for x in observable if rnd.random() < 0.6]
    meta = [x for x in names if kind[x] in ("op", "sim", "sum") and rnd.random() < 0.2]
    cand = [["n", x] for x in names] + [["o", x] for x in names if kind[x] in ("sim", "sum", "disc")]
    outs = rnd.sample(cand, rnd.randint(1, min(4, len(cand))))
    wv = [x for x in names if rnd.random() < (0.15 if kind[x] != "const" else 0.1)]        # constants can be given too
    used = {p for x in names for p in pos[x]} - {e[1] for x in names for e in named[x]}
    implicit = [x for x in names if kind[x] == "const" and x in used and ["n", x] not in outs and rnd.random() < 0.4]
    wv = [x for x in wv if x not in implicit]        # an implicit constant has a private auto-name: it cannot be named in with_values
    meta_false = [x for x in names if kind[x] in ("op", "sim", "sum") and x not in meta and rnd.random() < 0.25]
    # edit history with unchanged meaning: some nodes are replaced by an equal fresh node (`become`), which moves them behind
    # their children in the insertion order of the source net
    re = [x for x in names if x not in implicit and rnd.random() < 0.25] if rnd.random() < 0.5 else []
    rnd.shuffle(re)
    return dict(nodes=names, kind=kind, pos=pos, named=named, obs=obs, meta=meta, meta_false=meta_false, outs=outs, wv=wv, implicit=implicit,
                bs=rnd.choice([1, 2, 5]), seed=rnd.randint(0, 10 ** 6), reinsert=re)


def emitted_graphs(ctx, names, fan, named, wv, meta, tw):
    r = ctx.tlc("Gen_Compile", "Gen_Compile_%s" % names, cfg_text=mc_cfg(names, fan, named, wv, meta, tw, []).replace(
        "CHECK_DEADLOCK", "INVARIANT Emit\nCHECK_DEADLOCK"), workers=1, coverage=False, timeout=1500, label="emit graphs %s" % names)
    out = []
    for p in r.printed:
        if isinstance(p, list) and p and p[0] == "G":
            g = json.loads(p[1])
            g["implicit"] = []
            out.append(g)
    return out


PINNED_F20 = dict(nodes=["a", "f"], kind=dict(a="const", f="op"), pos=dict(a=[], f=["a", "a"]), named=dict(a=[], f=[]),
                  obs=[], meta=[], outs=[["n", "f"]], wv=[], implicit=[], pinned="F20")


def has_duplicate_parent(sc):
    for x in sc["nodes"]:
        ps = list(sc["pos"][x]) + [e[1] for e in sc["named"][x]]
        if len(ps) != len(set(ps)):
            return True
    return False


def scenarios(ctx):
    rnd = random.Random(ctx.seed)
    out = [dict(PINNED_F20)]
    g2 = emitted_graphs(ctx, "N2", 1, True, True, True, True)
    g3 = emitted_graphs(ctx, "N3", 2, False, False, False, True)
    n2 = len(g2) if not ctx.quick else min(len(g2), 2500)
    n3 = len(g3) if not ctx.quick else min(len(g3), 3500)
    out += rnd.sample(g2, n2) + rnd.sample(g3, n3)
    n_emitted = len(out) - 1
    for g in out:
        g.setdefault("bs", 3)
    # random insertion order among the topological ones is exercised on the random graphs
    n_rand = 1500 if ctx.quick else 15000
    for _ in range(n_rand):
        g = random_graph(rnd, rnd.randint(3, 8))
        out.append(g)
    for _ in range(40 if ctx.quick else 400):
        out.append(wide_graph(rnd))
    for _ in range(300 if ctx.quick else 3000):
        g = session_graph(rnd)
        if g is not None:
            out.append(g)
    return out, n_emitted


def check_sessions(ctx, scs):
    owner, traces = [], []
    for sc in scs:
        for tr in record_session(sc):
            owner.append(sc)
            traces.append(tr)
    verdicts = ctx.validate("Compile_Trace", traces, chunk=700, timeout=1500, name="sessions") if traces else []
    seen = set()
    for sc, tr, v in zip(owner, traces, verdicts):
        key = json.dumps([sc["kind"], sc["pos"], sc["named"], sc["outs"], sc["session"], tr["step"]], sort_keys=True)
        ctx.case(key, nontrivial=tr["step"] > 0)
        if v["verdict"] != "ok" and id(sc) not in seen:
            seen.add(id(sc))
            ctx.fail(v["verdict"], sc, detail=dict(step=tr["step"], supplied=tr["wv"], outs=tr["outs"], raised=tr["raised"], exc=tr.get("exc"),
                                                   result=tr["result"], counts=tr["counts"]),
                     finding="F20" if has_duplicate_parent(sc) else None)
        elif v["verdict"] == "ok" and v["drift"]:
            ctx.drifted(v["drift"], sc, detail=dict(step=tr["step"], raised=tr["raised"], exc=tr.get("exc")))


def check_scenarios(ctx, scs):
    ses = [sc for sc in scs if "session" in sc]
    scs = [sc for sc in scs if "session" not in sc]
    if ses:
        check_sessions(ctx, ses)
    traces = [record(sc) for sc in scs]
    verdicts = ctx.validate("Compile_Trace", traces, chunk=700, timeout=1500) if traces else []
    for sc, tr, v in zip(scs, traces, verdicts):
        key = json.dumps([sc["kind"], sc["pos"], sc["named"], sc["obs"], sc["meta"], sc["outs"], sc["wv"]], sort_keys=True)
        nontrivial = len([x for x in sc["nodes"] if sc["kind"][x] != "const"]) >= 2
        ctx.case(key, nontrivial=nontrivial)
        if v["verdict"] != "ok":
            finding = "F20" if has_duplicate_parent(sc) else None
            ctx.fail(v["verdict"], sc, detail=dict(raised=tr["raised"], exc=tr.get("exc"), result=tr["result"], counts=tr["counts"]),
                     finding=finding)
        elif v["drift"]:
            ctx.drifted(v["drift"], sc, detail=dict(raised=tr["raised"], exc=tr.get("exc")))
    return traces


def run(ctx):
    ctx.rule = ("graphs emitted by TLC from Compile.tla (all 2-node graphs with named edges / with_values / uses_meta / twin outputs, "
                "3-node graphs with fan-in <= 2; sampled in the quick tier) plus seeded random 3-8 node ELFI-shaped DAGs (random fan-in/out, "
                "mixed positional and named edges, shared and implicit constants, partial observations, requested subsets incl. observed twins, "
                "with_values subsets, name order unrelated to topological order); each built through elfi.Constant/Operation/Prior/Simulator/"
                "Summary/Discrepancy with symbolic operations and run with model.generate; nodes with 11-15 positional parents; sessions of 2-4 batches "
                "over ONE BatchHandler/context (shared executor cache) in which another subset of pool stores / requested outputs is supplied per batch.  "
                "Non-trivial = at least two non-constant nodes (sessions: a batch after the first).")
    ctx.clauses_decided = ["a: value = operation applied to parents (positional order, named by name)", "b: batch_size / generator / meta exactly to declaring nodes",
                           "c: observed twin", "d: discrepancy receives the tuple of observed twins", "e: rejection of stochastic observed data",
                           "f: needed operations once, others never"]
    ctx.clauses_not_decided = ["named parents of Prior and Discrepancy nodes (rvs_from_distribution / args_to_tuple take no keywords: excluded from generation)"]
    ctx.tlc("MC_Compile", "MC_Compile_N2", cfg_text=mc_cfg("N2", 1, True, True, True, True, INV), expect_actions=["Pick"], timeout=600)
    ctx.tlc("MC_Compile", "MC_Compile_N3", cfg_text=mc_cfg("N3", 2, False, False, False, True, INV), expect_actions=["Pick"], timeout=900)
    ctx.tlc("MC_Compile", "MC_Compile_N3_neg", cfg_text=mc_cfg("N3", 1, False, False, False, True, ["NeverNeedsGuard"]), expect_ok=False, timeout=600)
    if not ctx.quick:
        ctx.tlc("MC_Compile", "MC_Compile_N3_wv", cfg_text=mc_cfg("N3", 2, False, True, False, True, INV), expect_actions=["Pick"], timeout=2400)
    scs, n_emitted = scenarios(ctx)
    traces = check_scenarios(ctx, scs)
    plain = [sc for sc in scs if "session" not in sc]
    ctx.notes.append("%d TLC-emitted graphs, %d random / wide graphs, %d multi-batch sessions" % (n_emitted, len(plain) - n_emitted - 1, len(scs) - len(plain)))
    for i in (1, n_emitted // 2, n_emitted + 5, len(plain) - 1):
        ctx.sample(dict(graph={k: plain[i][k] for k in ("nodes", "kind", "pos", "named", "obs", "meta", "outs", "wv")},
                        raised=traces[i]["raised"], result=traces[i]["result"][:2], counts=traces[i]["counts"]))


def replay(ctx, scenario):
    check_scenarios(ctx, [scenario])

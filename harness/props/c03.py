"""C03 - compiled execution equals the dataflow meaning of the user's graph.

O1: Compile.tla: for every graph with <= 3 nodes (kinds x positional/named parents x observations x
    uses_meta x requested outputs incl. observed twins x with_values) TLC checks
    Execute(Load(Compile(G))) = Meaning(G), the executed set, and the rejection rule.
O2: TLC emits the graphs it explores (Gen_Compile); each is built through the public constructors
    with symbolic operations and run with model.generate on the real elfi.
O3: the returned terms, call counters and exceptions (also for random 4-8 node graphs) go back to
    TLC, which recomputes the meaning from the graph description (Compile_Trace.tla).
"""
import json
import random

from harness import tlc
from harness.symgraph import KEYS, Recorder, build_model, out_name, term
from harness.util import Hang, time_limit


def mc_cfg(names, fan, named, wv, meta, tw, invs):
    def b(x):
        return "TRUE" if x else "FALSE"
    return """SPECIFICATION Spec
CONSTANTS
  Names <- %s
  MaxFanIn = %d
  WithNamed = %s
  WithWV = %s
  WithMeta = %s
  TwinOutputs = %s
%s
CHECK_DEADLOCK FALSE
""" % (names, fan, b(named), b(wv), b(meta), b(tw), "\n".join("INVARIANT " + i for i in invs))


INV = ["RejectWhenRequired", "RejectOnlyRejectable", "ValuesConform", "RunsExactlyNeeded"]


def record(sc):
    """Build the model, run generate, return the trace."""
    g = sc
    rec = Recorder(sc.get("bs", 3))
    tr = dict(nodes=g["nodes"], kind=g["kind"], pos=g["pos"], named=g["named"], obs=g["obs"], meta=g["meta"],
              outs=g["outs"], wv=g["wv"], raised="", result=[], counts={})
    try:
        with time_limit(180):
            m = build_model(g, rec, order=sc.get("order"))
            from harness.symgraph import Sym
            wv = {x: Sym(["wv", x]) for x in g["wv"]} or None
            outs = [out_name(o) for o in g["outs"]]
            res = m.generate(rec.bs, outs, with_values=wv, seed=sc.get("seed", 1))
            tr["result"] = [term(res[n]) for n in outs]
    except Hang:
        tr["raised"] = "Hang"
    except ValueError as ex:
        tr["raised"] = "ValueError"
        tr["exc"] = str(ex)[:200]
    except Exception as ex:
        tr["raised"] = type(ex).__name__
        tr["exc"] = str(ex)[:200]
    if tr["raised"]:
        tr["result"] = [["-"] for _ in g["outs"]]
    tr["counts"] = {x: rec.counts.get(x, 0) for x in g["nodes"]}
    return tr


KINDS = ["const", "op", "prior", "sim", "sum", "disc"]


def random_graph(rnd, n):
    """ELFI-shaped random DAG with n nodes (random fan-in/out, named edges, shared constants)."""
    names = ["n%02d" % i for i in range(n)]
    rnd.shuffle(names)          # name order is unrelated to topological position
    kind, pos, named = {}, {}, {}
    for i, x in enumerate(names):
        earlier = names[:i]
        k = rnd.choice(KINDS if earlier else ["const", "op", "prior", "sim"])
        if k in ("sum", "disc") and not earlier:
            k = "op"
        kind[x] = k
        pos[x], named[x] = [], []
        if k == "const":
            continue
        nmax = min(len(earlier), 3)
        npar = rnd.randint(1 if k in ("sum", "disc") else 0, nmax)
        # bias towards elfi-like wiring: summaries on simulators, discrepancies on summaries
        pool = list(earlier)
        if k == "sum":
            pref = [p for p in earlier if kind[p] in ("sim", "sum")]
            pool = pref * 3 + pool
        if k == "disc":
            pref = [p for p in earlier if kind[p] == "sum"]
            pool = pref * 4 + pool
        chosen = []
        while len(chosen) < npar:
            p = rnd.choice(pool)
            if p not in chosen:
                chosen.append(p)
        pos[x] = chosen
        if k in ("op", "sim", "sum"):
            rest = [p for p in earlier if p not in chosen]
            for param in ("ka", "kb"):
                if rest and rnd.random() < 0.2:
                    p = rnd.choice(rest)
                    rest.remove(p)
                    named[x].append([param, p])
    observable = [x for x in names if kind[x] in ("sim", "sum")]
    obs = [x for x in observable if rnd.random() < 0.6]
    meta = [x for x in names if kind[x] in ("op", "sim", "sum") and rnd.random() < 0.2]
    cand = [["n", x] for x in names] + [["o", x] for x in names if kind[x] in ("sim", "sum", "disc")]
    outs = rnd.sample(cand, rnd.randint(1, min(4, len(cand))))
    wv = [x for x in names if kind[x] != "const" and rnd.random() < 0.15]
    used = {p for x in names for p in pos[x]} - {e[1] for x in names for e in named[x]}
    implicit = [x for x in names if kind[x] == "const" and x in used and ["n", x] not in outs and rnd.random() < 0.4]
    meta_false = [x for x in names if kind[x] in ("op", "sim", "sum") and x not in meta and rnd.random() < 0.25]
    return dict(nodes=names, kind=kind, pos=pos, named=named, obs=obs, meta=meta, meta_false=meta_false, outs=outs, wv=wv, implicit=implicit,
                bs=rnd.choice([1, 2, 5]), seed=rnd.randint(0, 10 ** 6))


def emitted_graphs(ctx, names, fan, named, wv, meta, tw):
    r = ctx.tlc("Gen_Compile", "Gen_Compile_%s" % names, cfg_text=mc_cfg(names, fan, named, wv, meta, tw, []).replace(
        "CHECK_DEADLOCK", "INVARIANT Emit\nCHECK_DEADLOCK"), workers=1, coverage=False, timeout=1500, label="emit graphs %s" % names)
    out = []
    for p in r.printed:
        if isinstance(p, list) and p and p[0] == "G":
            g = json.loads(p[1])
            g["implicit"] = []
            out.append(g)
    return out


PINNED_F20 = dict(nodes=["a", "f"], kind=dict(a="const", f="op"), pos=dict(a=[], f=["a", "a"]), named=dict(a=[], f=[]),
                  obs=[], meta=[], outs=[["n", "f"]], wv=[], implicit=[], pinned="F20")


def has_duplicate_parent(sc):
    for x in sc["nodes"]:
        ps = list(sc["pos"][x]) + [e[1] for e in sc["named"][x]]
        if len(ps) != len(set(ps)):
            return True
    return False


def scenarios(ctx):
    rnd = random.Random(ctx.seed)
    out = [dict(PINNED_F20)]
    g2 = emitted_graphs(ctx, "N2", 1, True, True, True, True)
    g3 = emitted_graphs(ctx, "N3", 2, False, False, False, True)
    n2 = len(g2) if not ctx.quick else min(len(g2), 2500)
    n3 = len(g3) if not ctx.quick else min(len(g3), 3500)
    out += rnd.sample(g2, n2) + rnd.sample(g3, n3)
    n_emitted = len(out) - 1
    for g in out:
        g.setdefault("bs", 3)
    # random insertion order among the topological ones is exercised on the random graphs
    n_rand = 1500 if ctx.quick else 15000
    for _ in range(n_rand):
        g = random_graph(rnd, rnd.randint(3, 8))
        out.append(g)
    return out, n_emitted


def check_scenarios(ctx, scs):
    traces = [record(sc) for sc in scs]
    verdicts = ctx.validate("Compile_Trace", traces, chunk=700, timeout=1500)
    for sc, tr, v in zip(scs, traces, verdicts):
        key = json.dumps([sc["kind"], sc["pos"], sc["named"], sc["obs"], sc["meta"], sc["outs"], sc["wv"]], sort_keys=True)
        nontrivial = len([x for x in sc["nodes"] if sc["kind"][x] != "const"]) >= 2
        ctx.case(key, nontrivial=nontrivial)
        if v["verdict"] != "ok":
            finding = "F20" if has_duplicate_parent(sc) else None
            ctx.fail(v["verdict"], sc, detail=dict(raised=tr["raised"], exc=tr.get("exc"), result=tr["result"], counts=tr["counts"]),
                     finding=finding)
        elif v["drift"]:
            ctx.drifted(v["drift"], sc, detail=dict(raised=tr["raised"], exc=tr.get("exc")))
    return traces


def run(ctx):
    ctx.rule = ("graphs emitted by TLC from Compile.tla (all 2-node graphs with named edges / with_values / uses_meta / twin outputs, "
                "3-node graphs with fan-in <= 2; sampled in the quick tier) plus seeded random 3-8 node ELFI-shaped DAGs (random fan-in/out, "
                "mixed positional and named edges, shared and implicit constants, partial observations, requested subsets incl. observed twins, "
                "with_values subsets, name order unrelated to topological order); each built through elfi.Constant/Operation/Prior/Simulator/"
                "Summary/Discrepancy with symbolic operations and run with model.generate.  Non-trivial = at least two non-constant nodes.")
    ctx.clauses_decided = ["a: value = operation applied to parents (positional order, named by name)", "b: batch_size / generator / meta exactly to declaring nodes",
                           "c: observed twin", "d: discrepancy receives the tuple of observed twins", "e: rejection of stochastic observed data",
                           "f: needed operations once, others never"]
    ctx.clauses_not_decided = ["named parents of Prior and Discrepancy nodes (rvs_from_distribution / args_to_tuple take no keywords: excluded from generation)"]
    ctx.tlc("MC_Compile", "MC_Compile_N2", cfg_text=mc_cfg("N2", 1, True, True, True, True, INV), expect_actions=["Pick"], timeout=600)
    ctx.tlc("MC_Compile", "MC_Compile_N3", cfg_text=mc_cfg("N3", 2, False, False, False, True, INV), expect_actions=["Pick"], timeout=900)
    ctx.tlc("MC_Compile", "MC_Compile_N3_neg", cfg_text=mc_cfg("N3", 1, False, False, False, True, ["NeverNeedsGuard"]), expect_ok=False, timeout=600)
    if not ctx.quick:
        ctx.tlc("MC_Compile", "MC_Compile_N3_wv", cfg_text=mc_cfg("N3", 2, False, True, False, True, INV), expect_actions=["Pick"], timeout=2400)
    scs, n_emitted = scenarios(ctx)
    traces = check_scenarios(ctx, scs)
    ctx.notes.append("%d TLC-emitted graphs, %d random graphs" % (n_emitted, len(scs) - n_emitted - 1))
    for i in (1, n_emitted // 2, n_emitted + 5, len(scs) - 1):
        ctx.sample(dict(graph={k: scs[i][k] for k in ("nodes", "kind", "pos", "named", "obs", "meta", "outs", "wv")},
                        raised=traces[i]["raised"], result=traces[i]["result"][:2], counts=traces[i]["counts"]))


def replay(ctx, scenario):
    check_scenarios(ctx, [scenario])

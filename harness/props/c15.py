"""C15 - batch sub-seeds are distinct and depend only on (seed, index).

O1: SubSeed.tla exhaustively (all streams over 0..High-1, all call histories sharing a cache).
O3: real get_sub_seed call histories (direct, and through RandomStateLoader with a shared
    ComputationContext) validated by SubSeed_Trace.tla against the actual numpy stream.
"""
import itertools
import random

import numpy as np

from harness import tlc
from harness.util import Hang, time_limit


def limb(v):
    v = int(v)
    if v < 0:
        return [-1, 0]
    return [v >> 16, v & 0xFFFF]


def stream_for(seed, high, need):
    """The draw stream RandomState(seed).randint(high) obtained from numpy in one chunk, long
    enough to contain `need` distinct values (need <= high)."""
    need = max(1, min(need, high))
    n = max(8, 2 * need)
    while True:
        s = np.random.RandomState(seed).randint(high, size=n, dtype='uint32')
        if len(set(s.tolist())) >= need:
            # cut right after the need-th distinct value plus a margin
            return [int(x) for x in s]
        n *= 2
        if n > 1 << 20:
            raise tlc.MachineryFailure("numpy stream does not reach %d distinct values" % need)


HANGS = [0]


def record(sc):
    """Execute one scenario against the real code and return its trace."""
    from elfi.utils import get_sub_seed
    if HANGS[0] >= 3:      # the code under test loops; enough evidence, do not burn the budget
        return None
    seed, high = sc["seed"], sc["high"]
    calls = []
    max_idx = max([c[0] for c in sc["calls"] if 0 <= c[0] < high] + [0])
    stream = stream_for(seed, high, max_idx + 1)
    if sc.get("kind", "direct") == "direct":
        cache = {}
        for idx, uc in sc["calls"]:
            try:
                with time_limit(10):
                    v = get_sub_seed(seed, idx, high=high, cache=cache if uc else None)
                calls.append(dict(idx=idx, uc=bool(uc), res="val", val=limb(v),
                                  nseen=len(cache.get("seen", ())) if uc else 0))
            except Hang:         # neither a value nor a rejection
                calls.append(dict(idx=idx, uc=bool(uc), res="hang", val=[-1, 0], nseen=0))
                HANGS[0] += 1
                break
            except Exception as ex:  # a rejection of the call, judged by the trace spec
                calls.append(dict(idx=idx, uc=bool(uc), res="raise", val=[0, 0], nseen=0, exc=type(ex).__name__))
    elif sc.get("kind") == "callers":
        # the callers that derive a seed for THEIR item i: SMC round r (samplers.py) and BOLFI chain i (bolfi.py).  Each is
        # run twice with the same master seed under circumstances that must not matter (other thresholds; best evidence
        # partly outside the prior support, so that BOLFI.sample skips initial points): item i gets one and the same seed
        calls = record_callers(sc)
    else:
        # through the loader, as the engine uses it: one ComputationContext shared by all batches
        import networkx as nx
        from elfi.loader import RandomStateLoader
        from elfi.model.elfi_model import ComputationContext
        assert high == 2 ** 31
        ctx = ComputationContext(batch_size=1, seed=seed)
        # value identification: the loaded generator must equal RandomState(v) for the v this index
        # gets in a fresh, cache-free call sequence over the stream (first-occurrence order)
        firsts = list(dict.fromkeys(stream))
        for idx, uc in sc["calls"]:
            net = nx.DiGraph()
            net.add_node("_random_state")
            try:
                with time_limit(20):
                    RandomStateLoader.load(ctx, net, idx)
                rs = net.nodes["_random_state"]["output"]
                st = rs.get_state()
                v = -1
                for cand in firsts[:max_idx + 2]:
                    st2 = np.random.RandomState(cand).get_state()
                    if st[2] == st2[2] and np.array_equal(st[1], st2[1]):
                        v = cand
                        break
                calls.append(dict(idx=idx, uc=True, res="val", val=limb(v), nseen=len(ctx.caches["sub_seed"].get("seen", ()))))
            except Exception as ex:
                calls.append(dict(idx=idx, uc=True, res="raise", val=[0, 0], nseen=0, exc=type(ex).__name__))
    return dict(seed=seed, high=limb(high), stream=[limb(x) for x in stream], calls=calls)


def record_callers(sc):
    import contextlib
    import io
    import elfi
    import elfi.methods.mcmc as mcmc
    seed = sc["seed"]
    calls = []

    def add(idx, v):
        calls.append(dict(idx=int(idx), uc=False, res="val", val=limb(int(v)), nseen=0))
    try:
        with time_limit(300), contextlib.redirect_stdout(io.StringIO()):
            if sc["who"] == "smc":
                seen = []

                class RecSMC(elfi.SMC):
                    def _set_rejection_round(self, round):
                        super()._set_rejection_round(round)
                        if round > 0:
                            seen.append((round, self._rejection.seed))
                for thrs in ([2.0, 1.5, 1.0], [1.8, 1.2, 0.9, 0.7]):
                    m = elfi.ElfiModel(name="c15smc")
                    elfi.Prior("uniform", 0, 2, model=m, name="t")
                    elfi.Simulator(_caller_sim, m["t"], model=m, name="y", observed=np.array([1.0]))
                    elfi.Distance("euclidean", m["y"], model=m, name="d")
                    RecSMC(m["d"], batch_size=4, seed=seed).sample(3, thresholds=thrs, bar=False)
                for r, v in seen:
                    add(r, v)
            else:
                captured = []

                def fake(n_samples, params0, *a, seed=0, **k):
                    captured.append(seed)
                    return np.asarray(params0, dtype=float) + np.zeros((n_samples, len(np.atleast_1d(params0))))
                keep = (mcmc.nuts, mcmc.metropolis)
                mcmc.nuts = mcmc.metropolis = fake
                try:
                    inside = [0.95, 0.9, 0.8, 0.7, 0.5, 0.2, 0.35, 0.1, 0.6, 0.05, 0.45, 0.3]
                    mixed = [1.05, 0.9, 1.2, 0.7, 0.5, 0.2, 0.35, 0.1, 0.6, -0.3, 0.45, 1.6]     # best points outside the support
                    for ev in (inside, mixed):
                        m = elfi.ElfiModel(name="c15bolfi")
                        elfi.Prior("uniform", 0, 1, model=m, name="t")
                        elfi.Simulator(_caller_sim, m["t"], model=m, name="y", observed=np.array([1.0]))
                        elfi.Distance("euclidean", m["y"], model=m, name="d")
                        t_ev = np.asarray(ev, dtype=float)
                        b = elfi.BOLFI(m, "d", batch_size=1, initial_evidence={"t": t_ev, "d": np.abs(t_ev - 1.0)}, bounds={"t": (-1, 2)}, seed=seed)
                        del captured[:]
                        b.sample(10, n_chains=3, n_evidence=len(t_ev), algorithm=sc["alg"])
                        for i, v in enumerate(captured):
                            add(i, v)
                finally:
                    mcmc.nuts, mcmc.metropolis = keep
    except Hang:
        calls.append(dict(idx=0, uc=False, res="hang", val=[-1, 0], nseen=0))
    except Exception as ex:
        calls.append(dict(idx=0, uc=False, res="raise", val=[0, 0], nseen=0, exc="%s: %s" % (type(ex).__name__, str(ex)[:80])))
    return calls


def _caller_sim(t, batch_size=1, random_state=None):
    return np.asarray(t, dtype=float).reshape(-1) + 0.0 * random_state.uniform(size=batch_size)


def scenarios(ctx):
    rnd = random.Random(ctx.seed)
    out = []
    hmax, hist_len, nseeds = (4, 3, 2) if ctx.quick else (5, 4, 3)
    seeds = [ctx.seed * 1000 + k for k in range(nseeds)]
    for high in range(1, hmax + 1):
        alphabet = [(i, uc) for i in range(0, high + 1) for uc in (True, False)]
        for n in range(1, hist_len + 1):
            for h in itertools.product(alphabet, repeat=n):
                for s in seeds:
                    out.append(dict(kind="direct", seed=s, high=high, calls=[list(c) for c in h]))
    n_small = len(out)
    # large ranges, random histories (repeats, decreasing, jumping), including the default high
    n_rand = 400 if ctx.quick else 4000
    for _ in range(n_rand):
        high = rnd.choice([2 ** 31, 2 ** 31, 2 ** 31 - 1, 65536, 65537, 1000, 17, 6])
        n = rnd.randint(2, 9)
        top = min(high, rnd.choice([3, 10, 40]))
        calls = []
        for _k in range(n):
            r = rnd.random()
            idx = rnd.randint(0, top - 1) if r < 0.9 else (high if r < 0.95 and high < 2 ** 31 else (-1 if r < 0.97 else rnd.randint(0, top - 1)))
            calls.append([idx, rnd.random() < 0.7])
        out.append(dict(kind="direct", seed=(0 if rnd.random() < 0.05 else rnd.randint(0, 2 ** 31 - 1)), high=high, calls=calls))
    n_load = 60 if ctx.quick else 600
    for _ in range(n_load):
        n = rnd.randint(2, 8)
        if len([o for o in out if o.get("kind") == "callers"]) < (3 if ctx.quick else 12):
            k = len([o for o in out if o.get("kind") == "callers"])
            out.append(dict(kind="callers", who=["smc", "bolfi", "bolfi"][k % 3], alg=["nuts", "metropolis"][k % 2], high=2 ** 31,
                            seed=rnd.randint(1, 2 ** 31 - 1), calls=[[4, False]]))
        out.append(dict(kind="loader", seed=(0 if rnd.random() < 0.1 else rnd.randint(0, 2 ** 31 - 1)), high=2 ** 31,
                        calls=[[rnd.randint(0, 25), True] for _k in range(n)]))
    return out, n_small


def check_scenarios(ctx, scs):
    traces = [record(sc) for sc in scs]
    scs = [sc for sc, tr in zip(scs, traces) if tr is not None]
    traces = [tr for tr in traces if tr is not None]
    verdicts = ctx.validate("SubSeed_Trace", traces, chunk=4000)
    for sc, tr, v in zip(scs, traces, verdicts):
        hist = tuple((c[0], c[1]) for c in sc["calls"])
        nontrivial = len(sc["calls"]) >= 2 and any(c[1] for c in sc["calls"])
        ctx.case((sc["kind"], sc["seed"], sc["high"], hist), nontrivial=nontrivial)
        ctx.trace_events += len(tr["calls"])
        if v["verdict"] != "ok":
            ctx.fail(v["verdict"], sc, detail=dict(at_call=v["l"] - 1, trace=tr))
        elif v["drift"]:
            ctx.drifted(v["drift"], sc)
    return traces


def run(ctx):
    ctx.rule = ("exhaustive: every call history of length <= L over indices 0..high (high itself must be rejected) x "
                "{shared cache, no cache} for high in 1..H and several master seeds, against the real numpy stream; "
                "random histories for high in {2^31, 2^31-1, 65537, 65536, 1000, 17, 6}; histories through RandomStateLoader "
                "with one shared ComputationContext.  Non-trivial = at least two calls and at least one using the cache.")
    ctx.clauses_decided = ["a: history/cache independence", "b: distinct per index", "c: range", "d: unservable index rejected"]
    acts = ["Call", "Reject"]
    if ctx.quick:
        ctx.tlc("SubSeed", "MC_SubSeed_quick", expect_actions=acts, timeout=300)
    else:
        ctx.tlc("SubSeed", "MC_SubSeed_quick", expect_actions=acts, timeout=300)
        ctx.tlc("SubSeed", "MC_SubSeed_deep", expect_actions=acts, timeout=300)
        ctx.tlc("SubSeed", "MC_SubSeed_thorough", expect_actions=acts, timeout=1200)
    scs, n_small = scenarios(ctx)
    traces = check_scenarios(ctx, scs)
    ctx.exhaustive = True
    ctx.notes.append("%d exhaustive small-high histories + %d random/loader histories" % (n_small, len(scs) - n_small))
    for i in (0, n_small // 2, n_small + 1, len(scs) - 1):
        if i >= len(traces):
            continue
        ctx.sample(dict(scenario=scs[i], trace=dict(high=traces[i]["high"], stream=traces[i]["stream"][:8], calls=traces[i]["calls"])))


def replay(ctx, scenario):
    check_scenarios(ctx, [scenario])

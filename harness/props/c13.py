"""C13 - weighted-sample statistics and the mixture proposal obey their definitions.

O1: WQuantile.tla (scan => definition, least valid element, tie-order irrelevance, monotone in alpha,
    invariant to rescaling), WeightedStats.tla (code-shaped rational evaluation == reliability-weights
    formula / (sum w)^2/sum w^2, scale invariance, zero weights irrelevant), GmRvs.tla (the accept
    loop: exact count, all valid, window disjoint, termination under fairness) - exhaustively, with
    negative controls (swapped comparison, frequency-weights denominator, `n_left -= n_accepted`).
O3: the real functions of elfi.methods.utils are run on the same finite domains (and seeded random
    larger ones); WStats_Trace.tla / GmRvs_Trace.tla recompute the expected values from the logged
    inputs in exact integer / rational arithmetic and compare with the logged outputs.

Float soundness (DESIGN 4/T2, 5/C13).  A weighted-quantile call is `exact` iff alpha = 0, or the sum
of the weights is a power of two, or alpha is on no cumulative-weight boundary (under any tie order)
in exact arithmetic; only then the M: clause "value == WQScan" is evaluated.  The remaining calls
(alpha on a boundary with an inexact normalisation) are judged by the P: clauses only: the
definition accepts both neighbours of a boundary, so it is decided both ways there.  Variance / ESS
are compared in fixed point (10^-6, floor <= logged <= floor + 1) on integer data; the mixture
density on the lattice of GmPdfOps.tla (10^-8).
"""
import concurrent.futures
import itertools
import math
import random

import numpy as np

from harness import tlc
from harness.util import Hang, fx, time_limit

F33 = "F33"
HANGS = [0]


# ---------------------------------------------------------------------------------------------
# helpers (generation filters only - no verdict is computed here)
# ---------------------------------------------------------------------------------------------
def is_pow2(n):
    return n > 0 and (n & (n - 1)) == 0


def boundary_sums(xs, ws):
    """Every value a cumulative weight can take under any ordering of tied sample values."""
    order = sorted(range(len(xs)), key=lambda i: xs[i])
    out = {0}
    base = 0
    for _v, grp in itertools.groupby(order, key=lambda i: xs[i]):
        g = [ws[i] for i in grp]
        sums = {0}
        for w in g:
            sums |= {s + w for s in sums}
        out |= {base + s for s in sums}
        base += sum(g)
    return out


def wq_exact(xs, ws, a, A):
    """Float-soundness rule: the float scan provably equals the exact scan."""
    if a == 0:
        return True
    W = sum(ws)
    if W <= 0:
        return True
    if is_pow2(W):        # w / W and every partial sum are exact; a/A on a boundary is then dyadic, hence exact
        return True
    return all(s * A != a * W for s in boundary_sums(xs, ws))


def cls_of(v):
    v = float(v)
    if math.isnan(v):
        return "nan"
    if math.isinf(v):
        return "inf" if v > 0 else "-inf"
    return "fin"


def fx_cls(v, unit):
    """(fixed-point integer, class): class "fin" | "nan" | "inf" | "-inf" | "big" (finite but outside
    TLC's integer range at this unit; the integer is 0 whenever the class is not "fin")."""
    c = cls_of(v)
    if c != "fin":
        return 0, c
    try:
        return fx(v, unit), "fin"
    except OverflowError:
        return 0, "big"


def var_fits(col, ws):
    """Mirror of WStats_Trace!FxFits for WVarRat (magnitudes representable in TLC's 32-bit ints)."""
    v1 = sum(ws)
    v2 = sum(w * w for w in ws)
    m = sum(w * x for w, x in zip(ws, col))
    terms = [w * (v1 * x - m) ** 2 for w, x in zip(ws, col)]
    num = sum(terms)
    den = v1 * (v1 * v1 - v2)
    if den == 0:
        return True
    big = max([abs(num), abs(den) * 1000, abs(v1 * max(abs(x) for x in col)) + abs(m)] + [abs(t) for t in terms])
    return big < 2 ** 31 and den < 2000000 and num // den < 2147


# ---------------------------------------------------------------------------------------------
# recording: run the REAL code
# ---------------------------------------------------------------------------------------------
def rec_wq(sc):
    from elfi.methods.utils import weighted_sample_quantile
    xs, ws = sc["xs"], sc["ws"]
    x = np.array(xs, dtype=float)
    events = []
    for (a, A, k, wnone) in sc["calls"]:
        w_int = [1] * len(xs) if wnone else [k * w for w in ws]
        e = dict(ev="wq", a=a, A=A, k=k, wnone=bool(wnone), exact=wq_exact(xs, w_int, a, A), res="val", q=0)
        try:
            with time_limit(5):
                v = weighted_sample_quantile(x, a / A, None if wnone else np.array(w_int, dtype=float))
            v = np.asarray(v, dtype=float)
            if v.shape == () and float(v).is_integer() and abs(float(v)) < 2 ** 30:
                e["q"] = int(v)
            else:
                e["res"] = "nonint"
        except Hang:
            e["res"] = "hang"
            HANGS[0] += 1
        except Exception as ex:   # an exception of the code under test is an event
            e["res"] = "raise"
            e["exc"] = type(ex).__name__
        events.append(e)
    return dict(kind="wq", xs=xs, ws=ws, events=events)


def rec_wvar(sc):
    from elfi.methods.utils import weighted_var
    cols, ws = sc["cols"], sc["ws"]
    events = []
    for (k, wnone) in sc["calls"]:
        e = dict(ev="wvar", k=k, wnone=bool(wnone), res="val", vals=[], vcls=[])
        x = np.array(cols, dtype=float).T            # observations in rows
        # off / pw: the code sees (x + off) * 2^pw (exact in floats for the integers used); the variance does not depend on
        # the location and scales by 4^pw, so the logged value / 4^pw is judged against the formula on the small integers
        x = (x + float(sc.get("off", 0))) * 2.0 ** sc.get("pw", 0)
        if sc.get("flat") and len(cols) == 1:
            x = x[:, 0]
        try:
            with time_limit(5), np.errstate(all="ignore"):
                s2 = weighted_var(x, None if wnone else np.array([k * w for w in ws], dtype=float))
            s2 = np.atleast_1d(np.asarray(s2, dtype=float)).ravel() / 4.0 ** sc.get("pw", 0)
            e["vals"], e["vcls"] = [list(t) for t in zip(*[fx_cls(v, 10 ** 6) for v in s2])] if len(s2) else ([], [])
        except Hang:
            e["res"] = "hang"
            HANGS[0] += 1
        except Exception as ex:
            e["res"] = "raise"
            e["exc"] = type(ex).__name__
        events.append(e)
    return dict(kind="wvar", cols=cols, ws=ws, events=events)


def rec_ess(sc):
    from elfi.methods.utils import compute_ess
    ws = sc["ws"]
    events = []
    for k in sc["calls"]:
        e = dict(ev="ess", k=k, res="val", val=0)
        w = [k * v for v in ws]
        try:
            with time_limit(5), np.errstate(all="ignore"):
                # wform: the same weights on another overall scale (the effective sample size does not depend on it): floats
                # times an exact power of two whose SQUARE under- or overflows, or large int64 counts
                wf = sc.get("wform")
                if wf == "int64":
                    arg = np.array(w, dtype=np.int64) * np.int64(3 * 10 ** 9)
                elif wf:
                    arg = np.array(w, dtype=float) * 2.0 ** int(wf)
                else:
                    arg = w if sc.get("aslist") else np.array(w, dtype=float)
                v = compute_ess(arg)
            e["val"], c = fx_cls(float(v), 10 ** 6)
            if c != "fin":
                e["res"] = "nonfinite"
        except Hang:
            e["res"] = "hang"
            HANGS[0] += 1
        except Exception as ex:
            e["res"] = "raise"
            e["exc"] = type(ex).__name__
        events.append(e)
    return dict(kind="ess", ws=ws, events=events)


def gm_args(sc):
    """means / cov / weights arguments in the form the scenario asks for."""
    d = sc["d"]
    means = np.array(sc["means"], dtype=float)          # (K, d)
    if d == 1 and sc.get("means1d", True):
        means = means[:, 0]
    var = [float(s * s) for s in sc["sds"]]
    form = sc["covform"]
    if form == "scalar":
        cov = var[0]
    elif form == "default":
        cov = None
    else:
        cov = np.diag(var)
    wf = sc["wform"]
    weights = None if wf == "none" else (list(sc["wts"]) if wf == "list" else np.array(sc["wts"], dtype=float))
    return means, cov, weights


def rec_gm(sc):
    from elfi.methods.utils import GMDistribution
    d = sc["d"]
    means, cov, weights = gm_args(sc)
    kw = dict(means=means, weights=weights)
    if cov is not None:
        kw["cov"] = cov
    events = []
    for call in sc["calls"]:
        pts = call["pts"]
        form = call["xform"]
        if form == "scalar":
            x = float(pts[0][0])
        elif form == "point":                        # one d-dimensional point as a 1-d array
            x = np.array(pts[0], dtype=float)
        elif form == "1d":                           # d = 1: n points as a 1-d array
            x = np.array([p[0] for p in pts], dtype=float)
        else:
            x = np.array(pts, dtype=float)           # (n, d)
        e = dict(ev="pdf", pts=pts, res="val", ps=[], lps=[], lcls=[], lplogs=[], lplogcls=[])
        try:
            with time_limit(10), np.errstate(all="ignore"):
                p = GMDistribution.pdf(x, **kw)
                lp = GMDistribution.logpdf(x, **kw)
            p = np.atleast_1d(np.asarray(p, dtype=float)).ravel()
            lp = np.atleast_1d(np.asarray(lp, dtype=float)).ravel()
            pc = [fx_cls(v, 10 ** 8) for v in p]
            if not all(c == "fin" for _v, c in pc):
                e["res"] = "nonfinite"
            else:
                e["ps"] = [v for v, _c in pc]
                lc = [fx_cls(v, 10 ** 6) for v in lp]
                e["lps"] = [v for v, _c in lc]
                e["lcls"] = [c for _v, c in lc]
                # oracle field: the logarithm (python's math.log) of the function's own pdf output
                oc = [fx_cls(math.log(v) if v > 0 else -math.inf, 10 ** 6) for v in p]
                e["lplogs"] = [v for v, _c in oc]
                e["lplogcls"] = [c for _v, c in oc]
        except Hang:
            e["res"] = "hang"
            HANGS[0] += 1
        except Exception as ex:
            e["res"] = "raise"
            e["exc"] = type(ex).__name__
        events.append(e)
    wts = sc["wts"] if sc["wform"] != "none" else [1] * len(sc["means"])
    return dict(kind="gm", means=sc["means"], wts=wts, sds=sc["sds"], events=events)


MAX_RVS_EVENTS = 4000      # logging stops there (only a call that does not come to an end gets that far)


class RecordingRandomState(np.random.RandomState):
    """numpy's RandomState that logs the `size` of every choice() call."""

    def __init__(self, seed, log):
        super().__init__(seed)
        self._log = log

    def choice(self, a, size=None, replace=True, p=None):
        k = -1 if size is None else int(size)
        if len(self._log) < MAX_RVS_EVENTS:
            self._log.append(dict(ev="choice", k=abs(k), kneg=k < 0))
        return super().choice(a, size=size, replace=replace, p=p)


def constraint_mask(con, t, x, offset=0):
    """The scripted constraint: which rows of the t-th proposal block (1-based) are valid; `offset` =
    number of proposals shown before this block."""
    n = len(x)
    kind = con["kind"]
    if n == 0:
        return np.zeros(0, dtype=bool)
    if kind == "pattern":
        # per-trial bit patterns over the position in the block, the last one repeats for ever
        pat = con["patterns"][min(t, len(con["patterns"])) - 1]
        return np.array([bool(pat[j % len(pat)]) for j in range(n)], dtype=bool)
    if kind == "serial":
        # one bit pattern over the running number of the proposal (any 1 keeps acceptance possible)
        pat = con["pattern"]
        return np.array([bool(pat[(offset + j) % len(pat)]) for j in range(n)], dtype=bool)
    if kind == "reject-then-all":
        return np.full(n, t > con["n_reject"], dtype=bool)
    if kind == "box":
        x2 = x.reshape(n, -1)
        return np.all((x2 >= np.array(con["lo"], dtype=float)) & (x2 <= np.array(con["hi"], dtype=float)), axis=1)
    raise ValueError(kind)


def rec_rvs(sc):
    from elfi.methods.utils import GMDistribution
    means, cov, weights = gm_args(sc)
    con = sc["constraint"]
    events = []
    blocks = []

    def prior_logpdf(x):
        x = np.asarray(x)
        t = len(blocks) + 1
        blocks.append(np.array(x, copy=True))
        m = constraint_mask(con, t, x, offset=sum(len(b) for b in blocks[:-1]))
        if len(events) < MAX_RVS_EVENTS:
            events.append(dict(ev="prior", n=int(len(x)), mask=[int(b) for b in m]))
        out = np.where(m, -1.5, -np.inf)
        if con.get("nan_invalid"):
            out = np.where(m, -1.5, np.nan)
        return out

    size = sc["size"]
    nowrap = size is None
    kw = dict(means=means, weights=weights, size=size, random_state=RecordingRandomState(sc["seed"], events))
    if cov is not None:
        kw["cov"] = cov
    if con["kind"] != "none":
        kw["prior_logpdf"] = prior_logpdf
    ret = dict(ev="ret", res="val", wrapped=True, nrows=0, dimok=True, rows=[], truncated=False)
    d = sc["d"]
    one = () if d == 1 else (d,)
    try:
        with time_limit(10), np.errstate(all="ignore"):
            out = GMDistribution.rvs(**kw)
        out = np.asarray(out)
        if out.shape == one:
            ret["wrapped"] = False
            rows = [out]
        else:
            rows = list(out)
            ret["dimok"] = out.shape[1:] == one
        ret["nrows"] = len(rows)
        if con["kind"] != "none":
            index = {}
            for t, b in enumerate(blocks, 1):
                for j in range(len(b)):
                    index.setdefault(np.asarray(b[j], dtype=float).tobytes(), (t, j + 1))
            for r in rows:
                r = np.asarray(r, dtype=float)
                t, j = index.get(r.tobytes(), (0, 0))
                if con["kind"] == "box" and r.size == d:
                    sat = int(constraint_mask(con, 1, r.reshape(1, -1))[0])
                else:
                    sat = 1
                ret["rows"].append([t, j, sat])
    except Hang:
        ret["res"] = "hang"
        HANGS[0] += 1
    except Exception as ex:
        ret["res"] = "raise"
        ret["exc"] = type(ex).__name__
    ret["truncated"] = len(events) >= MAX_RVS_EVENTS
    events.append(ret)
    for e in events:
        e.setdefault("k", 0)
        e.setdefault("kneg", False)
        e.setdefault("n", 0)
        e.setdefault("mask", [])
        e.setdefault("truncated", False)
    return dict(kind="rvs", size=1 if nowrap else size, nowrap=nowrap, constrained=con["kind"] != "none",
                possible=True, events=events)


def rec_gmo(sc):
    """GMDistribution.pdf / logpdf with a full covariance matrix against the definition evaluated with numpy (oracle field)"""
    from elfi.methods.utils import GMDistribution
    means = np.array(sc["means"], dtype=float)
    cov = np.array(sc["cov"], dtype=float)
    w = np.array(sc["wts"], dtype=float)
    x = np.array(sc["pts"], dtype=float)
    e = dict(ev="gmo", res="val", lp=[], lq=[], o=[])
    try:
        with time_limit(10), np.errstate(all="ignore"):
            p = np.atleast_1d(np.asarray(GMDistribution.pdf(x, means=means, cov=cov, weights=w), dtype=float)).ravel()
            lq = np.atleast_1d(np.asarray(GMDistribution.logpdf(x, means=means, cov=cov, weights=w), dtype=float)).ravel()
        d = means.shape[1]
        _sign, logdet = np.linalg.slogdet(cov)
        wn = w / w.sum()
        dens = np.zeros(len(x))
        for m, wi in zip(means, wn):
            r = x - m
            dens += wi * np.exp(-0.5 * np.einsum("ij,ij->i", r, np.linalg.solve(cov, r.T).T) - 0.5 * (d * math.log(2 * math.pi) + logdet))
        if not (np.all(np.isfinite(p)) and np.all(p > 0) and np.all(np.isfinite(lq)) and np.all(dens > 0)):
            e["res"] = "nonfinite"
        else:
            e["lp"] = [int(round(math.log(v) * 1e6)) for v in p]
            e["lq"] = [int(round(float(v) * 1e6)) for v in lq]
            e["o"] = [int(round(math.log(v) * 1e6)) for v in dens]
    except Hang:
        e["res"] = "hang"
        HANGS[0] += 1
    except Exception as ex:
        e["res"] = "raise"
        e["exc"] = type(ex).__name__
    return dict(kind="gmo", events=[e])


def gmo_scenarios(ctx, rnd):
    out = []
    for _ in range(60 if ctx.quick else 600):
        d = rnd.choice([2, 2, 3])
        n = rnd.randint(1, 4)
        A = [[rnd.randint(-2, 2) / 2.0 for _j in range(d)] for _i in range(d)]
        cov = (np.array(A) @ np.array(A).T + np.eye(d) * rnd.choice([0.5, 1.0])).tolist()       # symmetric positive definite, correlated
        means = [[rnd.randint(-4, 4) / 2.0 for _j in range(d)] for _i in range(n)]
        wts = [rnd.choice([1, 2, 3]) for _i in range(n)]
        pts = [[m + rnd.randint(-3, 3) / 2.0 for m in rnd.choice(means)] for _k in range(rnd.randint(1, 4))]
        out.append(dict(kind="gmo", means=means, cov=cov, wts=wts, pts=pts))
    return out, 0


RECORDERS = dict(wq=rec_wq, wvar=rec_wvar, ess=rec_ess, gm=rec_gm, rvs=rec_rvs, gmo=rec_gmo)


# ---------------------------------------------------------------------------------------------
# scenarios
# ---------------------------------------------------------------------------------------------
A8 = 8
# alpha = 0, 1/8 .. 1 on the given weights, and three of them again with all weights doubled / x4
STD_WQ_CALLS = [[a, A8, 1, False] for a in range(A8 + 1)] + [[3, A8, 2, False], [4, A8, 2, False], [8, A8, 4, False]]   # shared object
NONE_WQ_CALLS = [[a, A8, 1, True] for a in range(A8 + 1)] + [[a, 3, 1, True] for a in range(4)]


def weight_vectors(n, maxw):
    return [w for w in itertools.product(range(maxw + 1), repeat=n) if any(w)]


def wq_scenarios(ctx, rnd):
    out = []
    nfull = 3
    for n in range(1, nfull + 1):
        for xs in itertools.product(range(4), repeat=n):
            out.append(dict(kind="wq", xs=list(xs), ws=[1] * n, calls=NONE_WQ_CALLS))
            for ws in weight_vectors(n, 3):
                out.append(dict(kind="wq", xs=list(xs), ws=list(ws), calls=STD_WQ_CALLS))
    # samples of four elements: every (xs, ws) pair in the thorough tier, a seeded subset in quick
    all4 = [(xs, ws) for xs in itertools.product(range(4), repeat=4) for ws in weight_vectors(4, 3)]
    pick = all4 if not ctx.quick else rnd.sample(all4, 1000)
    calls4 = STD_WQ_CALLS if ctx.quick else STD_WQ_CALLS[:A8 + 1] + [[5, A8, 2, False]]
    for xs, ws in pick:
        out.append(dict(kind="wq", xs=list(xs), ws=list(ws), calls=calls4))
    n_exh = len(out)
    # seeded random: longer samples, negative values, larger weights, other alpha grids
    for _ in range(800 if ctx.quick else 10000):
        n = rnd.randint(1, 8)
        span = rnd.choice([1, 2, 5, 20])
        xs = [rnd.randint(-span, span) for _i in range(n)]
        maxw = rnd.choice([1, 2, 4, 15])
        ws = [rnd.choice([0, 0, rnd.randint(0, maxw), rnd.randint(1, maxw)]) for _i in range(n)]
        if not any(ws):
            ws[rnd.randrange(n)] = 1
        if rnd.random() < 0.3:            # make the sum a power of two when cheaply possible
            tot = sum(ws)
            p = 1
            while p < tot:
                p *= 2
            ws[rnd.randrange(n)] += p - tot
        A = rnd.choice([8, 16, 4, 3, 5, 10, 7])
        alphas = sorted(set([0, A] + [rnd.randint(0, A) for _i in range(5)]))
        rnd.shuffle(alphas)
        calls = [[a, A, 1, False] for a in alphas]
        calls += [[a, A, rnd.choice([2, 4, 1024]), False] for a in alphas[:3]]
        if rnd.random() < 0.2:
            calls += [[a, A, 1, True] for a in alphas[:3]]
        out.append(dict(kind="wq", xs=xs, ws=ws, calls=calls))
    return out, n_exh


def wvar_scenarios(ctx, rnd):
    out = []
    std = [[1, False], [2, False]]
    nmax = 3 if ctx.quick else 4
    for n in range(1, nmax + 1):
        for xs in itertools.product(range(4), repeat=n):
            out.append(dict(kind="wvar", cols=[list(xs)], ws=[1] * n, calls=[[1, True]], flat=True))
            for ws in weight_vectors(n, 3):
                out.append(dict(kind="wvar", cols=[list(xs)], ws=list(ws), calls=std if n <= 3 else std[:1], flat=(sum(ws) % 2 == 0)))
    n_exh = len(out)
    for _ in range(600 if ctx.quick else 6000):
        n = rnd.randint(2, 8)
        ncol = rnd.randint(1, 3)
        span = rnd.choice([1, 3, 15])
        cols = [[rnd.randint(-span, span) for _i in range(n)] for _c in range(ncol)]
        maxw = rnd.choice([1, 3, 7])
        ws = [rnd.choice([0, rnd.randint(0, maxw), rnd.randint(1, maxw)]) for _i in range(n)]
        if not any(ws):
            ws[rnd.randrange(n)] = 1
        calls = [[1, False]] + ([[rnd.choice([2, 4]), False]] if rnd.random() < 0.5 else []) + ([[1, True]] if rnd.random() < 0.3 else [])
        ok = True
        for (k, wnone) in calls:
            w = [1] * n if wnone else [k * v for v in ws]
            ok = ok and all(var_fits(c, w) for c in cols)
        if ok:
            out.append(dict(kind="wvar", cols=cols, ws=ws, calls=calls, flat=rnd.random() < 0.5))
            if rnd.random() < 0.3:      # the same sample far from the origin and / or on another scale
                out.append(dict(out[-1], off=rnd.choice([0, 10 ** 5, 10 ** 7, 2 ** 24, -10 ** 6]), pw=rnd.choice([0, 0, -20, 12])))
    return out, n_exh


def ess_scenarios(ctx, rnd):
    out = []
    for n in range(1, 5):
        for ws in itertools.product(range(4), repeat=n):      # includes the all-zero vectors (refused)
            out.append(dict(kind="ess", ws=list(ws), calls=[1, 2, 3], aslist=(sum(ws) % 3 == 0)))
    n_exh = len(out)
    for _ in range(300 if ctx.quick else 3000):
        n = rnd.randint(1, 10)
        maxw = rnd.choice([1, 5, 30])
        ws = [rnd.choice([0, rnd.randint(0, maxw), rnd.randint(1, maxw)]) for _i in range(n)]
        out.append(dict(kind="ess", ws=ws, calls=[1, rnd.choice([2, 3, 5])], aslist=rnd.random() < 0.3))
        if rnd.random() < 0.3 and any(ws):
            out.append(dict(kind="ess", ws=ws, calls=[1], wform=rnd.choice(["int64", -540, -620, 520, 300])))
    return out, n_exh


def gm_lattice(rnd, d, K, single_ok=False):
    """A mixture on the lattice of GmPdfOps.tla."""
    sds = [rnd.choice([1, 1, 2, 4]) for _j in range(d)]
    if rnd.random() < 0.4:
        sds = [sds[0]] * d
    reach = 6 if d == 1 else (4 if d == 2 else 3)       # |offset / sd| <= reach keeps k on the table
    base = [rnd.randint(-2, 2) * s for s in sds]
    means = [[base[j] + rnd.randint(-reach // 2, reach // 2) * sds[j] for j in range(d)] for _i in range(K)]
    wts = [rnd.choice([0, 1, 1, 2, 3, 5]) for _i in range(K)]
    if not any(wts):
        wts[rnd.randrange(K)] = 1
    covform = "scalar" if (len(set(sds)) == 1 and rnd.random() < 0.6) else "matrix"
    if covform == "scalar" and sds[0] == 1 and rnd.random() < 0.3:
        covform = "default"
    wform = rnd.choice(["none", "list", "array"])
    sc = dict(d=d, means=means, wts=wts, sds=sds, covform=covform, wform=wform, means1d=rnd.random() < 0.7)
    return sc, base, reach


def gm_scenarios(ctx, rnd):
    out = []
    # small exhaustive core: one dimension, unit / scalar covariance, up to two components
    for K in (1, 2):
        for means in itertools.product((-2, 0, 1), repeat=K):
            for wts in weight_vectors(K, 2):
                for sd in (1, 2):
                    pts = [[sd * z] for z in (-3, -1, 0, 2)]
                    out.append(dict(kind="gm", d=1, means=[[sd * m] for m in means], wts=list(wts), sds=[sd],
                                    covform="scalar", wform="array", means1d=True,
                                    calls=[dict(pts=pts, xform="1d"), dict(pts=pts[:1], xform="scalar")]))
    n_exh = len(out)
    for _ in range(400 if ctx.quick else 4000):
        d = rnd.choice([1, 1, 2, 2, 3])
        K = rnd.randint(2, 4) if d > 1 else rnd.randint(1, 4)
        sc, base, reach = gm_lattice(rnd, d, K)
        calls = []
        for _c in range(rnd.randint(1, 2)):
            npts = rnd.randint(1, 4)
            pts = [[base[j] + rnd.randint(-reach // 2, reach // 2) * sc["sds"][j] for j in range(d)] for _p in range(npts)]
            if _c == 0 and rnd.random() < 0.3:
                # all components at the same Mahalanobis distance from the first point (mirror images of one
                # offset): the mixture density there is that of ONE normal - closed-form log density
                off = [rnd.randint(0, 2) * sc["sds"][j] for j in range(d)]
                sc["means"] = [[pts[0][j] + rnd.choice([-1, 1]) * off[j] for j in range(d)] for _i in range(K)]
            if d == 1:
                xform = "scalar" if (npts == 1 and rnd.random() < 0.5) else rnd.choice(["1d", "2d"])
            else:
                xform = "point" if (npts == 1 and rnd.random() < 0.5) else "2d"
            calls.append(dict(pts=pts, xform=xform))
        sc.update(kind="gm", calls=calls)
        out.append(sc)
    return out, n_exh


# pinned: a mixture with ONE component in dimension 2 (finding F33: _normalize_params squeezes the
# (1, d) means into d one-dimensional components)
PINNED_F33 = [
    dict(kind="gm", d=2, means=[[1, 2]], wts=[1], sds=[1, 1], covform="scalar", wform="none", means1d=False,
         calls=[dict(pts=[[0, 0]], xform="2d"), dict(pts=[[1, 2]], xform="point")], pinned="F33"),
    dict(kind="rvs", d=2, means=[[1, 2]], wts=[1], sds=[1, 1], covform="scalar", wform="none", means1d=False,
         size=3, seed=7, constraint=dict(kind="none"), pinned="F33"),
]


def rvs_scenarios(ctx, rnd):
    out = []
    sizes = [None, 0, 1, 2, 3, 4, 6, 17]
    patterns = [
        [[1]],                                  # accepts everything
        [[0], [1]],                             # nothing in the first trial
        [[1, 0]],                               # every other proposal
        [[0, 1]],
        [[0, 0, 1]],
        [[1, 0, 0, 0, 0]],                      # only the first of a block
        [[0], [0], [0, 1], [1]],
        [[1, 1, 0], [0], [0, 1]],
    ]
    for size in sizes:
        for d in (1, 2):
            for pi, pat in enumerate(patterns):
                sc, _b, _r = gm_lattice(rnd, d, rnd.randint(2, 4))
                sc.update(kind="rvs", size=size, seed=rnd.randint(0, 2 ** 31 - 1),
                          constraint=dict(kind="pattern", patterns=pat, nan_invalid=(pi % 3 == 2)))
                out.append(sc)
            for pat in ([0, 1], [0, 0, 1], [1, 0, 0, 0], [0, 1, 1, 0, 0, 0, 0]):
                sc, _b, _r = gm_lattice(rnd, d, rnd.randint(2, 4))
                sc.update(kind="rvs", size=size, seed=rnd.randint(0, 2 ** 31 - 1), constraint=dict(kind="serial", pattern=pat))
                out.append(sc)
            sc, _b, _r = gm_lattice(rnd, d, rnd.randint(2, 4))
            sc.update(kind="rvs", size=size, seed=rnd.randint(0, 2 ** 31 - 1), constraint=dict(kind="none"))
            out.append(sc)
    # the warning branch (trials == 100) is crossed
    for size in (1, 3):
        sc, _b, _r = gm_lattice(rnd, 1, 2)
        sc.update(kind="rvs", size=size, seed=rnd.randint(0, 2 ** 31 - 1), constraint=dict(kind="reject-then-all", n_reject=101))
        out.append(sc)
    n_exh = len(out)
    for _ in range(250 if ctx.quick else 2500):
        d = rnd.choice([1, 2, 3])
        K = rnd.randint(2, 4) if d > 1 else rnd.randint(1, 4)
        sc, base, _r = gm_lattice(rnd, d, K)
        r = rnd.random()
        if r < 0.45:      # a genuine box constraint around a component of positive weight (acceptance likely)
            pos = [i for i in range(K) if (sc["wts"][i] > 0 or sc["wform"] == "none")]
            m = sc["means"][rnd.choice(pos)]
            lo = [m[j] - rnd.choice([1, 2, 100]) * sc["sds"][j] for j in range(d)]
            hi = [m[j] + rnd.choice([1, 2, 100]) * sc["sds"][j] for j in range(d)]
            con = dict(kind="box", lo=lo, hi=hi, nan_invalid=rnd.random() < 0.2)
        elif r < 0.65:
            pat = [rnd.randint(0, 1) for _j in range(rnd.randint(1, 7))]
            if not any(pat):
                pat[rnd.randrange(len(pat))] = 1
            con = dict(kind="serial", pattern=pat, nan_invalid=rnd.random() < 0.2)
        elif r < 0.9:
            npat = rnd.randint(1, 4)
            pats = [[rnd.randint(0, 1) for _j in range(rnd.randint(1, 5))] for _t in range(npat)]
            if not any(pats[-1]):
                pats[-1][rnd.randrange(len(pats[-1]))] = 1
            # (fix_patterns appends an accept-all pattern when the repeating last one refuses position 0)
            con = dict(kind="pattern", patterns=pats, nan_invalid=rnd.random() < 0.2)
        else:
            con = dict(kind="none")
        sc.update(kind="rvs", size=rnd.choice([None, 0, 1, 2, 3, 5, 8, 13, 30]), seed=(0 if rnd.random() < 0.08 else rnd.randint(0, 2 ** 31 - 1)), constraint=con)
        out.append(sc)
    return out, n_exh


def fix_patterns(scs):
    """Scripted patterns must keep acceptance possible: the repeating last pattern accepts the first
    proposal of a block (a block may consist of a single proposal)."""
    for sc in scs:
        con = sc.get("constraint")
        if con and con["kind"] == "pattern" and not con["patterns"][-1][0]:
            con["patterns"] = con["patterns"] + [[1]]
    return scs


# ---------------------------------------------------------------------------------------------
# checking
# ---------------------------------------------------------------------------------------------
def is_f33(sc):
    """Classifier of finding F33: a Gaussian mixture with exactly one component in dimension >= 2."""
    return sc["kind"] in ("gm", "rvs") and len(sc["means"]) == 1 and sc["d"] >= 2


def nontrivial(sc, tr):
    k = sc["kind"]
    if k == "wq":
        xs = sc["xs"]
        return len(xs) >= 2 and (len(set(xs)) < len(xs) or 0 in sc["ws"] or xs != sorted(xs)
                                 or any(not e["exact"] for e in tr["events"]))
    if k == "wvar":
        return len(sc["cols"][0]) >= 2 and sum(1 for w in sc["ws"] if w > 0) >= 2
    if k == "ess":
        return len(set(sc["ws"])) >= 2
    if k == "gm":
        return len(sc["means"]) >= 2
    if k == "rvs":
        return sc["constraint"]["kind"] != "none" and sum(1 for e in tr["events"] if e["ev"] == "prior") >= 2
    return True


def key_of(sc):
    return tlc_digest(sc)


def tlc_digest(obj):
    from harness.core import digest
    return digest(obj)


def check_scenarios(ctx, scs, sample=False):
    import logging
    logging.getLogger("elfi.methods.utils").setLevel(logging.ERROR)    # the "keep trying" warning of rvs after 100 trials
    groups = {"WStats_Trace": [], "GmRvs_Trace": []}
    for sc in scs:
        if HANGS[0] >= 3:        # the code under test loops: enough evidence, do not burn the budget
            break
        tr = RECORDERS[sc["kind"]](sc)
        groups["GmRvs_Trace" if sc["kind"] == "rvs" else "WStats_Trace"].append((sc, tr))
    for module, pairs in groups.items():
        if not pairs:
            continue
        traces = [tr for _sc, tr in pairs]
        chunk = max(600, -(-len(traces) // 6))         # at most 6 TLC processes at a time
        verdicts = ctx.validate(module, traces, chunk=chunk, name="t%d" % ctx.traces_validated)
        for (sc, tr), v in zip(pairs, verdicts):
            ctx.case((sc["kind"], key_of(sc)), nontrivial=nontrivial(sc, tr))
            ctx.trace_events += len(tr["events"])
            if v["verdict"] != "ok":
                at = min(v["l"] - 2, len(tr["events"]) - 1)
                ctx.fail(v["verdict"], sc, detail=dict(at_event=at, event=tr["events"][at]),
                         finding=F33 if is_f33(sc) else None)
            elif v["drift"]:
                ctx.drifted(v["drift"], sc)
        if sample and pairs:
            for i in (0, len(pairs) // 2, len(pairs) - 1):
                sc, tr = pairs[i]
                ctx.sample(dict(scenario=dict(sc, calls=sc.get("calls", [])[:4]), events=tr["events"][:4]), limit=8)


def corruption_controls(ctx):
    """Binding demonstration (DESIGN T5 i): one logged OUTPUT field of a passing trace of the real code is
    corrupted; the trace spec must reject it with the expected P: clause.  TLC decides; a control that is
    accepted is a machinery failure.  Skipped for a base trace that does not pass (the main check reports
    that one)."""
    import copy
    gm = dict(kind="gm", d=1, means=[[0], [2]], wts=[1, 3], sds=[1], covform="scalar", wform="array", means1d=True,
              calls=[dict(pts=[[1], [0]], xform="1d")])
    gm1 = dict(kind="gm", d=1, means=[[0]], wts=[1], sds=[2], covform="scalar", wform="none", means1d=True,
               calls=[dict(pts=[[2]], xform="scalar")])
    rv = dict(kind="rvs", d=1, means=[[0], [2]], wts=[1, 1], sds=[1], covform="scalar", wform="none", means1d=True,
              size=2, seed=3, constraint=dict(kind="pattern", patterns=[[0, 1], [1]]))
    base = [
        ("P:wq-def", dict(kind="wq", xs=[3, 1, 2], ws=[1, 1, 2], calls=[[3, 8, 1, False]]), lambda t: t["events"][0].update(q=3)),
        # (a trace that passes P:wq-def call by call can break monotonicity only between equal alphas on a boundary)
        ("P:wq-monotone", dict(kind="wq", xs=[3, 1, 2], ws=[1, 1, 2], calls=[[6, 8, 1, False], [3, 4, 1, False]]),
         lambda t: t["events"][0].update(q=3) or t["events"][1].update(q=2)),   # 3/4 is a boundary: 2 and 3 both satisfy the definition
        ("P:wq-scale", dict(kind="wq", xs=[3, 1, 2], ws=[1, 1, 2], calls=[[6, 8, 1, False], [6, 8, 2, False]]),
         lambda t: t["events"][0].update(q=2) or t["events"][1].update(q=3)),
        ("P:wvar", dict(kind="wvar", cols=[[1, 2, 4]], ws=[1, 2, 1], calls=[[1, False]]), lambda t: t["events"][0]["vals"].__setitem__(0, t["events"][0]["vals"][0] + 5)),
        ("P:ess", dict(kind="ess", ws=[1, 2, 1], calls=[1]), lambda t: t["events"][0].update(val=t["events"][0]["val"] + 5)),
        ("P:gm-pdf", gm, lambda t: t["events"][0]["ps"].__setitem__(1, t["events"][0]["ps"][1] + 100)),
        ("P:gm-logpdf", gm, lambda t: (t["events"][0]["lps"].__setitem__(0, t["events"][0]["lps"][0] + 50),
                                       t["events"][0]["lplogs"].__setitem__(0, t["events"][0]["lplogs"][0] + 50))),
        ("P:gm-logpdf", gm1, lambda t: (t["events"][0]["lps"].__setitem__(0, t["events"][0]["lps"][0] + 50),
                                        t["events"][0]["lplogs"].__setitem__(0, t["events"][0]["lplogs"][0] + 50))),
        ("P:count", rv, lambda t: t["events"][-1].update(nrows=1, rows=t["events"][-1]["rows"][:1])),
        ("P:all-valid", rv, lambda t: t["events"][-1]["rows"].__setitem__(0, [1, 1, 1])),
        ("P:all-valid", rv, lambda t: t["events"][-1]["rows"].__setitem__(1, [0, 0, 1])),
    ]
    before = ctx.traces_validated
    for module, kinds in (("WStats_Trace", ("wq", "wvar", "ess", "gm")), ("GmRvs_Trace", ("rvs",))):
        items = [(c, sc, f) for (c, sc, f) in base if sc["kind"] in kinds]
        good = [RECORDERS[sc["kind"]](sc) for (_c, sc, _f) in items]
        bad = []
        for (_c, _sc, f), tr in zip(items, good):
            t2 = copy.deepcopy(tr)
            f(t2)
            bad.append(t2)
        vs = ctx.validate(module, good + bad, chunk=1000, name="ctl")
        for i, (clause, sc, _f) in enumerate(items):
            vg, vb = vs[i], vs[len(items) + i]
            if vg["verdict"] != "ok":
                continue
            if not vb["verdict"].startswith("P:"):
                raise tlc.MachineryFailure("corrupted trace for %s was judged %r by %s" % (clause, vb["verdict"], module))
            ctx.negative_controls.append(dict(run="corrupted %s trace: %s" % (sc["kind"], clause), refuted=vb["verdict"]))
    ctx.traces_validated = before


def design_runs(ctx):
    """(module, cfg, expect_actions, expect_ok, workers); the long ones first."""
    wq, ws = ["RaiseAlpha", "Rescale"], ["Rescale", "DropZero"]
    runs = []
    if not ctx.quick:
        runs += [("WQuantile", "MC_WQuantile_thorough", wq, True, 4),      # n <= 4, values 0..3, weights 0..2
                 ("WQuantile", "MC_WQuantile_mid", wq, True, 2),           # n <= 3, values 0..3, weights 0..3, tie orders
                 ("WeightedStats", "MC_WeightedStats_thorough", ws, True, 2)]
    runs += [
        ("WQuantile", "MC_WQuantile_quick", wq, True, 2),                  # n <= 3, values 0..2, weights 0..2, tie orders
        ("WeightedStats", "MC_WeightedStats_quick", ws, True, 1),
        ("GmRvs", "MC_GmRvs", ["Trial", "Return"], True, 1),
        ("WQuantile", "MC_WQuantile_neg", None, False, 1),
        ("WQuantile", "MC_WQuantile_negdef", None, False, 1),
        ("WeightedStats", "MC_WeightedStats_neg", None, False, 1),
        ("WeightedStats", "MC_WeightedStats_negdef", None, False, 1),
        ("GmRvs", "MC_GmRvs_neg", None, False, 1),
    ]
    return runs


def run(ctx):
    ctx.rule = ("(a,b) weighted_sample_quantile on EVERY sample of length <= 3 (quick; <= 4 thorough, a seeded subset of length 4 in "
                "quick) over values 0..3 (ties, unsorted) x every weight vector over 0..3 not all zero x alpha in {0,1/8..1} x weight "
                "scale {1,2}(,4), weights=None, plus seeded random samples (length <= 8, negative values, weights <= 15, alpha grids "
                "/3 /5 /7 /10 /16, scales 2,4,1024); (c) weighted_var on every such sample/weight pair (1-d) and random 1-3 column "
                "integer data; (d) compute_ess on every weight vector of length <= 4 over 0..3 and random ones; (e) GMDistribution "
                "pdf/logpdf on the integer lattice (d<=3, <=4 components, diagonal covariance with sd in {1,2,4} as scalar or "
                "matrix, zero weights, all argument shapes); (f) GMDistribution.rvs with scripted and box constraints, sizes "
                "None,0..40, d<=3.  Non-trivial = ties / zero weights / unsorted / boundary alpha (a,b); >= 2 positive weights "
                "(c); unequal weights (d); >= 2 components (e); >= 2 constraint rounds (f).")
    ctx.clauses_decided = [
        "a: quantile is an element with weight(<=q) >= alpha and weight(<q) <= alpha (P:wq-def; exact rational definition, both "
        "neighbours accepted on a boundary)",
        "b: monotone in alpha (P:wq-monotone), invariant to rescaling by integer factors (P:wq-scale)",
        "c: weighted variance = reliability-weights unbiased formula, integer data, 10^-6 fixed point (P:wvar)",
        "d: ESS = (sum w)^2 / sum w^2, integer weights, 10^-6 fixed point (P:ess)",
        "e: mixture pdf = weighted sum of component normal densities on the integer lattice with diagonal covariance, 10^-8 "
        "(P:gm-pdf); logpdf = log of its own pdf (oracle math.log) and closed form where the mixture reduces to one normal "
        "(P:gm-logpdf)",
        "f: rvs returns exactly the requested number of points, each a proposal the constraint accepted (P:count, P:all-valid)"]
    ctx.clauses_not_decided = [
        "e off the lattice: non-diagonal covariance matrices, non-integer offsets (no exact oracle in integer arithmetic)",
        "c, d on non-integer data / weights (only integer and power-of-two scaled inputs are exact)",
        "f when the constraint can never be satisfied (the code loops for ever by design)"]
    ctx.trusted_base += ["scipy.stats.multivariate_normal is the code under test's own dependency (its output is compared with the "
                         "tabulated closed form, not trusted)", "math.log as oracle for P:gm-logpdf on multi-component mixtures",
                         "GmPdfOps!DensTab: (2 pi)^(-d/2) exp(-k/2) to 10^-8, computed offline with 60-digit decimals"]
    ctx.assumptions += ["float soundness: integer samples / weights; M:wq-scan only where the normalisation is exact or alpha is off "
                        "every cumulative boundary"]
    rnd = random.Random(ctx.seed)

    # O1 - the design modules, concurrently with the recording of the real code
    pool = concurrent.futures.ThreadPoolExecutor(max_workers=2)
    futs = []
    for (module, cfg, acts, ok, workers) in design_runs(ctx):
        futs.append(pool.submit(ctx.tlc, module, cfg, expect_actions=acts, expect_ok=ok, workers=workers, timeout=2400))

    # O3 - the real code on the same domains
    totals = []
    try:
        for name, gen in (("wq", wq_scenarios), ("wvar", wvar_scenarios), ("ess", ess_scenarios), ("gm", gm_scenarios),
                          ("gmo", gmo_scenarios), ("rvs", rvs_scenarios)):
            scs, n_exh = gen(ctx, rnd)
            fix_patterns(scs)
            totals.append("%s: %d exhaustive + %d random" % (name, n_exh, len(scs) - n_exh))
            step = 24000
            for i in range(0, len(scs), step):
                check_scenarios(ctx, scs[i:i + step], sample=(i == 0))
        if not ctx.violations:       # (a tree that already fails the check needs no further demonstration)
            corruption_controls(ctx)
        check_scenarios(ctx, [dict(sc) for sc in PINNED_F33])
    finally:
        errs = []
        for f in futs:
            try:
                f.result()
            except Exception as ex:      # re-raised below, after all TLC processes ended
                errs.append(ex)
        pool.shutdown()
    if errs:
        raise errs[0]
    ctx.exhaustive = True
    ctx.notes.append("; ".join(totals))
    if HANGS[0]:
        ctx.notes.append("%d calls into elfi did not return within the time limit" % HANGS[0])


def replay(ctx, scenario):
    check_scenarios(ctx, [scenario])

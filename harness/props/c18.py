"""C18 - vectorize and external_operation behave as per-row application.

O1: Vectorize.tla (run_vectorized: constants detection, batch length, per-row loop, meta row index,
    dtype container) and External.tla (unpack_meta, prepare_seed via SubSeedOps, command formatting
    per row of a vectorised batch) exhaustively, with broken variants as negative controls.
O3: the REAL elfi.tools.vectorize is called with symbolic operations whose return values carry an id
    and which log exactly what they were called with (T1); the REAL elfi.tools.external_operation
    runs echo / printf command templates.  Both alone and inside elfi model runs (batch_size > 1).
    TLC recomputes the expected per-row applications / command lines / parsed arrays / seed
    relations from the logged inputs (Vectorize_Trace.tla, External_Trace.tla) and decides.
"""
import concurrent.futures
import hashlib
import itertools
import random
import subprocess
import threading

import numpy as np

from harness import tlc
from harness.util import Hang, time_limit

FINDING = "F26"      # vectorised external operation without meta: all rows of a batch get one seed


# =====================================================================================
# value encoding (python object -> [t, d, s] record; TLC only compares like with like)
# =====================================================================================
class Term:
    """An opaque python object that carries an id (what a symbolic operation may return)."""
    __slots__ = ("id",)

    def __init__(self, i):
        self.id = int(i)

    def __repr__(self):
        return "Term(%d)" % self.id


class Ident:
    """Identity labels of python objects the harness handed to the code under test."""

    def __init__(self):
        self.objs = []

    def add(self, obj, label):
        self.objs.append((obj, label))
        return obj

    def label(self, obj):
        for o, lab in self.objs:
            if o is obj:
                return lab
        return 0


def _small_int(x):
    if isinstance(x, Term):
        return x.id
    if isinstance(x, (bool, np.bool_)):
        return None
    if isinstance(x, (int, np.integer)):
        return int(x) if abs(int(x)) < 2 ** 31 else None
    if isinstance(x, (float, np.floating)):
        return int(x) if np.isfinite(x) and float(x).is_integer() and abs(x) < 2 ** 31 else None
    return None


def _flat_ints(seq):
    out = []
    for x in seq:
        v = _small_int(x)
        if v is None:
            return None
        out.append(v)
    return out


def V(t, d=(), s=""):
    return dict(t=t, d=[int(x) for x in d], s=str(s))


def enc(x, ident=None):
    """python object -> value record.  Total: never raises."""
    try:
        if x is None:
            return V("none")
        if isinstance(x, Term):
            return V("term", [x.id])
        if isinstance(x, (bool, np.bool_)):
            return V("bool", [int(x)])
        if isinstance(x, (int, np.integer, float, np.floating)):
            v = _small_int(x)
            if v is None and isinstance(x, (float, np.floating)) and np.isfinite(x) and float(x * 2).is_integer() and abs(x) < 2 ** 30:
                return V("num", [int(np.floor(x))], "+half")        # id + 1/2: the id stays readable, the fraction is part of the number
            return V("num", [v]) if v is not None else V("num", [], repr(float(x)))
        if isinstance(x, str):
            return V("str", [], x)
        if isinstance(x, np.ndarray):
            flat = _flat_ints(x.reshape(-1).tolist())
            shape = "x".join(str(k) for k in x.shape)
            if x.ndim == 0:
                return V("arr0", flat or [], str(x.dtype)) if flat is not None else V("arr0", [], "%s:%r" % (x.dtype, x.tolist()))
            if flat is None:
                return V("arr", [], "%s:%s:%s" % (shape, x.dtype, hashlib.sha1(repr(x.tolist()).encode()).hexdigest()[:10]))
            return V("arr", flat, "%s:%s" % (shape, x.dtype))
        if isinstance(x, (list, tuple)):
            flat = _flat_ints(x)
            t = "list" if isinstance(x, list) else "tuple"
            if flat is not None:
                return V(t, flat)
            # mixed content: the integers (ids) stay visible, the rest is kept as text
            return V(t, [v for v in (_small_int(y) for y in x) if v is not None], repr(x)[:80])
        if isinstance(x, dict):
            return V("dict", [], repr(sorted((str(k), repr(v)) for k, v in x.items()))[:120])
        return V("obj", [ident.label(x) if ident else 0], type(x).__name__)
    except Exception as ex:      # pragma: no cover - defensive
        return V("unencodable", [], type(ex).__name__)


def enc_map(d, ident=None):
    return {str(k): enc(v, ident) for k, v in d.items()}


# =====================================================================================
# Part 1: vectorize with symbolic operations
# =====================================================================================
ARRAY_KINDS = ["a1", "a2", "af", "ao", "a3"]
SCALAR_KINDS = ["int", "float", "str", "none", "list", "tuple", "arr0", "term"]
NUMERIC_RETS = ["int", "float", "npint", "vec", "list", "intfloat"]
OBJECT_RETS = ["term", "ragged", "mixed"]


def build_input(spec, j):
    """scenario input description -> (python object, logged record without oid).

    The rows of an array are defined by the scenario (nested lists); numpy only stores them."""
    k, n = spec["k"], spec.get("n", 0)
    base = 1000 * (j + 1)
    if k == "a1":
        vals = [base + i for i in range(n)]
        obj = np.array(vals, dtype=np.int64).reshape(n)
        rows = [V("num", [v]) for v in vals]
    elif k == "af":
        vals = [base + i for i in range(n)]
        obj = np.array(vals, dtype=np.float64).reshape(n)
        rows = [V("num", [v]) for v in vals]
    elif k == "a2":
        vals = [[base + 2 * i, base + 2 * i + 1] for i in range(n)]
        obj = np.array(vals, dtype=np.int64).reshape(n, 2)
        rows = [V("arr", r, "2:int64") for r in vals]
    elif k == "a3":
        vals = [[[base + 4 * i, base + 4 * i + 1], [base + 4 * i + 2, base + 4 * i + 3]] for i in range(n)]
        obj = np.array(vals, dtype=np.int64).reshape(n, 2, 2)
        rows = [V("arr", [x for rr in r for x in rr], "2x2:int64") for r in vals]
    elif k == "ao":
        obj = np.empty(n, dtype=object)
        rows = []
        for i in range(n):
            obj[i] = Term(base + i)
            rows.append(V("term", [base + i]))
    elif k == "int":
        obj, rows = base + 999, []
    elif k == "float":
        obj, rows = float(base + 998), []
    elif k == "str":
        obj, rows = "s%d" % j, []
    elif k == "none":
        obj, rows = None, []
    elif k == "list":
        obj, rows = [base + 500 + i for i in range(n)], []       # as long as a batch, still not an array
    elif k == "tuple":
        obj, rows = tuple(base + 600 + i for i in range(n)), []
    elif k == "arr0":
        obj, rows = np.array(base + 997), []
    elif k == "term":
        obj, rows = Term(base + 996), []
    else:
        raise ValueError(k)
    return obj, dict(arr=k in ARRAY_KINDS, rows=rows, v=enc(obj))


def eff_ret(sc):
    """a fraction is not representable in an integer dtype the caller ASKED for: no fractional returns there"""
    return "int" if sc["ret"] == "intfloat" and sc.get("dt") == "int64" else sc["ret"]


def make_ret(kind, k):
    if kind == "int":
        return k
    if kind == "float":
        return float(k)
    if kind == "npint":
        return np.int64(k)
    if kind == "intfloat":          # the rows do not share one numeric type: an int first, then a fraction (numpy promotes)
        return k if k % 2 == 0 else k + 0.5
    if kind == "vec":
        return np.array([k, k + 5000])
    if kind == "list":
        return [k, 7]
    if kind == "term":
        return Term(k)
    if kind == "ragged":
        return np.array([k] * (1 + k % 3))
    if kind == "mixed":
        return (k, "x") if k % 2 else [k, k, k]
    raise ValueError(kind)


class SymOp:
    """Symbolic operation: returns a value carrying a fresh id and logs what it was called with."""

    def __init__(self, ret, ident, base):
        self.ret, self.ident, self.base = ret, ident, base
        self.calls = []
        self.objs = {}

    def __call__(self, *args, **kwargs):
        k = self.base + len(self.calls)
        meta = kwargs.get("meta")
        ret = make_ret(self.ret, k)
        self.objs[k] = ret
        self.calls.append(dict(
            id=k, args=[enc(a, self.ident) for a in args], oids=[self.ident.label(a) for a in args],
            kw={n: enc(v, self.ident) for n, v in kwargs.items() if n != "meta"},
            hasmeta="meta" in kwargs, meta=enc_map(meta, self.ident) if isinstance(meta, dict) else {},
            ret=enc(ret, self.ident)))
        return ret


def enc_out(out, op):
    if isinstance(out, np.ndarray) and out.ndim >= 1:
        items = [enc(out[i], op.ident) for i in range(out.shape[0])]
        same = []
        for i, it in enumerate(items):
            o = op.objs.get(it["d"][0]) if it["d"] else None
            same.append(bool(out.dtype == object and out.ndim == 1 and o is not None and out[i] is o))
        return dict(cont=str(out.dtype), ndim=int(out.ndim), len=int(out.shape[0]), items=items, same=same)
    if isinstance(out, (list, tuple)):
        return dict(cont=type(out).__name__, ndim=-1, len=len(out), items=[enc(x, op.ident) for x in out], same=[False] * len(out))
    return dict(cont=type(out).__name__, ndim=-1, len=-1, items=[], same=[])


NO_OUT = dict(cont="", ndim=-1, len=-1, items=[], same=[])
META_FRESH = dict(batch_index=3, submission_index=0, master_seed=123, model_name="m")


def dtype_arg(dt):
    return None if dt == "none" else (False if dt == "false" else dt)


def vec_event(inputs_log, mask, bs, dt, kw_log, hasmeta, meta_log):
    return dict(inputs=inputs_log, mask=list(mask or []), bs=-1 if bs is None else int(bs), dt=dt, kw=kw_log,
                hasmeta=bool(hasmeta), meta=meta_log, res="", exc="", out=NO_OUT, calls=[])


def record_vec_alone(sc):
    import elfi
    ident = Ident()
    objs, logs = [], []
    for j, spec in enumerate(sc["inputs"]):
        o, lg = build_input(spec, j)
        ident.add(o, j + 1)
        lg["oid"] = j + 1
        objs.append(o)
        logs.append(lg)
    events = []
    shared = {}          # sc["shared"]: ONE vectorised callable (and one mask object) serves every call of the scenario
    for rep in range(sc.get("reps", 1)):
        if sc.get("seq"):        # the inputs change from call to call (e.g. an observed python list first, then batches)
            ident = Ident()
            objs, logs = [], []
            for j, spec in enumerate(sc["seq"][rep]):
                o, lg = build_input(spec, j)
                ident.add(o, j + 1)
                lg["oid"] = j + 1
                objs.append(o)
                logs.append(lg)
        op = SymOp(eff_ret(sc), ident, 100 * (rep + 1))
        if sc.get("shared"):
            if "op" in shared:
                op = shared["op"]
                op.ident, op.base, op.calls = ident, 100 * (rep + 1), []
            shared["op"] = op
        kwargs = {}
        if "random_state" in sc["kw"]:
            kwargs["random_state"] = ident.add(np.random.RandomState(5), 50)
        if "user" in sc["kw"]:
            kwargs["user"] = ident.add([41, 42], 51)
        if "flag" in sc["kw"]:
            kwargs["flag"] = "on"
        meta = None
        if sc["meta"] != "absent":
            meta = dict(META_FRESH)
            if sc["meta"] == "stale":
                meta["index_in_batch"] = 7
            kwargs["meta"] = meta
        ev = vec_event(logs, sc["mask"], sc["bs"], sc["dt"], enc_map({k: v for k, v in kwargs.items() if k != "meta"}, ident),
                       meta is not None, enc_map(meta, ident) if meta is not None else {})
        if sc["bs"] is not None:
            kwargs["batch_size"] = sc["bs"]
        mask = list(sc["mask"]) if sc["mask"] is not None else None      # the callable gets its OWN list: the scenario's stays pristine
        if mask is not None and sc.get("mask_tuple"):
            mask = tuple(mask)
        try:
            with time_limit(10):
                if "f" in shared:
                    f = shared["f"]
                elif mask is None and sc["dt"] == "none":
                    f = elfi.tools.vectorize(op)
                elif sc.get("positional_mask") and mask is not None:
                    f = elfi.tools.vectorize(op, mask, dtype=dtype_arg(sc["dt"]))
                else:
                    f = elfi.tools.vectorize(op, constants=mask, dtype=dtype_arg(sc["dt"]))
                if sc.get("shared"):
                    shared["f"] = f
                out = f(*objs, **kwargs)
            ev["res"] = "val"
            ev["out"] = enc_out(out, op)
        except Hang:
            ev["res"] = "hang"
        except Exception as ex:
            ev["res"] = "raise"
            ev["exc"] = type(ex).__name__
        ev["calls"] = list(op.calls)
        events.append(ev)
    return dict(events=events)


def describe_inputs(inputs, ident):
    """Inputs as received from elfi inside a model run -> logged records (rows taken from the arrays)."""
    logs = []
    for j, x in enumerate(inputs):
        ident.add(x, 10 + j + 1)
        if isinstance(x, np.ndarray) and x.ndim > 0:
            logs.append(dict(arr=True, rows=[enc(x[i], ident) for i in range(x.shape[0])], v=enc(x, ident), oid=10 + j + 1))
        else:
            logs.append(dict(arr=False, rows=[], v=enc(x, ident), oid=10 + j + 1))
    return logs


def id_source(width, base):
    """Root node operation whose rows are their own provenance: base + batch_index*batch_size + row."""
    def src(batch_size=1, random_state=None, meta=None):
        ids = base + int(meta["batch_index"]) * batch_size + np.arange(batch_size)
        if width == 1:
            return ids
        return np.stack([ids * 10 + c for c in range(width)], axis=1)
    src.__name__ = "src%d_%d" % (width, base)
    return src


def record_vec_model(sc):
    """vectorised symbolic operations as Simulator / Summary operations of a real elfi model."""
    import elfi
    events = []
    m = elfi.ElfiModel(name="c18m")

    def spy(fn, mask, dt, op):
        def wrapped(*inputs, **kwargs):
            meta = kwargs.get("meta")
            ident = Ident()             # identity labels are per call
            op.ident = ident
            if kwargs.get("random_state") is not None:
                ident.add(kwargs["random_state"], 50)
            ev = vec_event(describe_inputs(inputs, ident), mask, kwargs.get("batch_size"), dt,
                           enc_map({k: v for k, v in kwargs.items() if k not in ("meta", "batch_size")}, ident),
                           meta is not None, enc_map(meta, ident) if isinstance(meta, dict) else {})
            n0 = len(op.calls)
            try:
                out = fn(*inputs, **kwargs)
                ev["res"] = "val"
                ev["out"] = enc_out(out, op)
                return out
            except Exception as ex:
                ev["res"] = "raise"
                ev["exc"] = type(ex).__name__
                raise
            finally:
                ev["calls"] = list(op.calls[n0:])
                events.append(ev)
        return wrapped

    parents = []
    for j, p in enumerate(sc["parents"]):
        if p == "p1":
            n = elfi.Simulator(id_source(1, 100 * (j + 1)), model=m, name="P%d" % j)
            n.uses_meta = True
        elif p == "p2":
            n = elfi.Simulator(id_source(2, 100 * (j + 1)), model=m, name="P%d" % j)
            n.uses_meta = True
        elif p == "c":
            n = elfi.Constant(7000 + j, model=m, name="P%d" % j)
        elif p == "ca":
            n = elfi.Constant(np.array([7100 + j, 7200 + j, 7300 + j, 7400 + j]), model=m, name="P%d" % j)
        elif p == "cl":
            n = elfi.Constant([7500 + j, 7600 + j], model=m, name="P%d" % j)
        else:
            raise ValueError(p)
        parents.append(n)
    opv = SymOp(eff_ret(sc), None, 1000)
    opw = SymOp("int", None, 5000)
    fv = elfi.tools.vectorize(opv, constants=sc["mask"], dtype=dtype_arg(sc["dt"]))
    fw = elfi.tools.vectorize(opw)
    obs = np.array([[9001, 9002]]) if sc["ret"] == "vec" else np.array([9001])
    v = elfi.Simulator(spy(fv, sc["mask"], sc["dt"], opv), *parents, model=m, name="V", observed=obs)
    v.uses_meta = bool(sc["uses_meta"])
    w = elfi.Summary(spy(fw, None, "none", opw), v, model=m, name="W")

    def disc(s, observed=None):
        return np.zeros(np.asarray(s).shape[0])
    elfi.Discrepancy(disc, w, model=m, name="d")
    res = "val"
    try:
        with time_limit(30):
            for rep in range(sc.get("reps", 1)):
                m.generate(sc["bs"], outputs=["V", "W", "d"], seed=sc["seed"] + rep)
    except Hang:
        res = "hang"
    except Exception:
        res = "raise"       # the failing vectorised call has logged its own event
    return dict(events=events, run=res)


def record_vec(sc):
    return record_vec_model(sc) if sc["where"] == "model" else record_vec_alone(sc)


def vec_scenarios(ctx, rnd):
    out = []
    cnt = itertools.count()
    full = not ctx.quick

    def pick(seq):
        return seq[next(cnt) % len(seq)]

    def mk(classes, mask, bs, dt):
        inputs = []
        lens = [c for c in classes if c > 0]
        batch = lens[0] if lens else (bs if bs is not None else 1)
        for c in classes:
            if c < 0:
                k = pick(SCALAR_KINDS)
                inputs.append(dict(k=k, n=batch if k in ("list", "tuple") else 0))
            else:
                inputs.append(dict(k=pick(ARRAY_KINDS), n=c))
        if dt == "false":
            ret = pick(NUMERIC_RETS + OBJECT_RETS)
        elif dt == "object":
            ret = pick(NUMERIC_RETS + ["term"])
        elif dt == "none":
            ret = pick(NUMERIC_RETS + ["term"])
        else:
            ret = pick(NUMERIC_RETS)
        kw = pick([[], ["random_state"], ["random_state", "user"], ["user", "flag"]])
        meta = pick(["absent", "fresh", "stale", "fresh"])
        return dict(kind="vec", where="alone", inputs=inputs, mask=mask, bs=bs, dt=dt, ret=ret, kw=kw, meta=meta,
                    mask_tuple=bool(next(cnt) % 2), positional_mask=bool(next(cnt) % 3 == 0))

    # exhaustive: arity <= 3 x {scalar, array of length 1..3} x every constants mask x batch_size x dtype
    dts_all = ["none", "false", "float64"]
    for a in range(0, 4):
        for classes in itertools.product([-1, 1, 2, 3], repeat=a):
            for r in range(0, a + 1):
                for mask in itertools.combinations(range(a), r):
                    for bs in (None, 1, 2, 3):
                        dts = dts_all if full else [pick(dts_all)]
                        for dt in dts:
                            out.append(mk(classes, list(mask) if (mask or next(cnt) % 2) else None, bs, dt))
    n_exh = len(out)
    # edge classes: empty arrays / batch_size 0, mask positions beyond the arity, other dtypes
    for classes, mask, bs, dt in [((0,), None, None, "none"), ((0, -1), None, 0, "false"), ((-1,), None, 0, "none"),
                                  ((0, 0), [1], None, "float64"), ((2, -1), [1, 5], None, "none"), ((2, 2), [7], 2, "false"),
                                  ((3, -1, 3), [1], 3, "int64"), ((2,), None, None, "object"), ((1, 2), [0], None, "object"),
                                  ((2, 3), None, None, "none"), ((2, 3), [1], None, "none"), ((3,), None, 2, "false")]:
        for _ in range(3):
            out.append(mk(classes, mask, bs, dt))
    # seeded random: arity up to 4, lengths up to 5, all dtypes
    n_rand = 300 if ctx.quick else 4000
    for _ in range(n_rand):
        a = rnd.randint(0, 4)
        common = rnd.randint(1, 5)
        classes = tuple(-1 if rnd.random() < 0.35 else (common if rnd.random() < 0.85 else rnd.randint(0, 5)) for _k in range(a))
        mask = None if rnd.random() < 0.3 else sorted(rnd.sample(range(a + 1), rnd.randint(0, min(a + 1, 2))))
        bs = rnd.choice([None, None, common, common, rnd.randint(0, 5)])
        sc = mk(classes, mask, bs, rnd.choice(["none", "false", "float64", "int64", "object"]))
        sc["reps"] = rnd.choice([1, 1, 2])
        out.append(sc)
    # one vectorised callable serving a SEQUENCE of calls whose inputs change (a python list / scalar first - e.g. observed
    # data - then batches): the callable and its constants mask must not remember anything between calls
    for _ in range(80 if ctx.quick else 800):
        a = rnd.randint(1, 3)
        common = rnd.randint(2, 4)
        mask = rnd.choice([None, [], sorted(rnd.sample(range(a), rnd.randint(0, a - 1)))])
        seq = []
        for c in range(rnd.randint(2, 3)):
            inputs = []
            for j in range(a):
                masked = mask is not None and j in mask
                scalar_now = masked or (c == 0 and rnd.random() < 0.6) or rnd.random() < 0.15
                if scalar_now:
                    k = rnd.choice(["list", "int", "tuple", "float"])
                    inputs.append(dict(k=k, n=common if k in ("list", "tuple") else 0))
                else:
                    inputs.append(dict(k=rnd.choice(["a1", "af", "a2"]), n=common))
            seq.append(inputs)
        sc = dict(kind="vec", where="alone", inputs=seq[0], seq=seq, reps=len(seq), shared=True, mask=mask, bs=rnd.choice([None, None, common]),
                  dt=rnd.choice(["none", "false", "float64"]), ret=rnd.choice(NUMERIC_RETS), kw=[], meta="absent", mask_tuple=False,
                  positional_mask=False)
        out.append(sc)
    # inside real model runs
    n_alone = len(out)
    combos = []
    for parents in [["p1"], ["p2"], ["c"], ["p1", "c"], ["c", "p1"], ["p1", "p2"], ["p1", "ca"], ["ca", "p2", "c"],
                    ["p1", "cl"], ["cl", "c"], ["p2", "c", "p1"], ["p1", "p1x"]]:
        if "p1x" in parents:
            parents = ["p1", "p2", "p1"]
        for bs in (2, 3) if ctx.quick else (1, 2, 3, 4):
            for um in (True, False):
                mask = [j for j, p in enumerate(parents) if p == "ca"]
                if "c" in parents and next(cnt) % 2:
                    mask.append(parents.index("c"))
                combos.append(dict(kind="vec", where="model", parents=parents, mask=sorted(mask) or None, bs=bs, uses_meta=um,
                                   dt=pick(["none", "float64", "none", "int64"]), ret=pick(["int", "vec", "float", "npint"]),
                                   seed=ctx.seed * 100 + next(cnt) % 50, reps=1 + next(cnt) % 2))
    out.extend(combos)
    return out, n_exh, n_alone


def check_vec(ctx, scs):
    traces = [record_vec(sc) for sc in scs]
    n_chunks = 6
    verdicts = ctx.validate("Vectorize_Trace", traces, chunk=max(50, -(-len(traces) // n_chunks)), name="vec")
    for sc, tr, v in zip(scs, traces, verdicts):
        evs = tr["events"]
        if sc["where"] == "model":
            key = ("vec-model", tuple(sc["parents"]), tuple(sc["mask"] or ()), sc["bs"], sc["uses_meta"], sc["dt"], sc["ret"])
            nontrivial = sc["bs"] > 1 and len(evs) >= 3
            if len(evs) < 3 * sc.get("reps", 1) and v["verdict"] == "ok":
                raise tlc.MachineryFailure("model scenario produced %d vectorised calls, expected >= 3: %r" % (len(evs), sc))
        else:
            key = ("vec", tuple((i["k"], i.get("n", 0)) for i in sc["inputs"]), tuple(sc["mask"] or ()), sc["mask"] is None, sc["bs"],
                   sc["dt"], sc["ret"], tuple(sc["kw"]), sc["meta"])
            nontrivial = any(e["res"] == "val" and e["out"]["len"] >= 2 and len(e["inputs"]) >= 1 for e in evs)
        ctx.case(key, nontrivial=nontrivial)
        ctx.trace_events += len(evs)
        if v["verdict"] != "ok":
            at = max(0, min(v["l"] - 2, len(evs) - 1))
            ctx.fail(v["verdict"], sc, detail=dict(at_event=at, event=evs[at] if evs else None))
        elif v["drift"]:
            ctx.drifted(v["drift"], sc)
    return traces


# =====================================================================================
# Part 2: external_operation with echo / printf templates
# =====================================================================================
def limb(v):
    v = int(v)
    return [v >> 16, v & 0xFFFF]


def xnum(x):
    """number -> [hi, lo, milli] (exact for non-negative multiples of 1/1000 below 2^31), else a marker."""
    try:
        if isinstance(x, (bool, np.bool_)) or not isinstance(x, (int, float, np.integer, np.floating)):
            return [-1, 0, 0]
        f = float(x)
        if not np.isfinite(f) or f < 0 or f >= 2 ** 31:
            return [-2, 0, 0]
        ip = int(f)
        fr = (f - ip) * 1000
        if fr != int(fr):
            return [-2, 0, 1]
        return [ip >> 16, ip & 0xFFFF, int(fr)]
    except Exception:      # pragma: no cover
        return [-3, 0, 0]


def xval(v):
    return dict(s="{}".format(v), n=xnum(v))


def build_template(t):
    """scenario template -> (python format string, logged template record)."""
    fields = t["fields"]
    if t["prog"] == "echo":
        prog, sep = "echo ", " "
        gaps = list(t.get("gaps") or [" "] * (len(fields) - 1))
    elif t["prog"] == "printfws":
        # standard output laid out with other white space than single blanks (one number per line, tabs, aligned columns, a
        # table): the default separator is "white space".  Only used where the parsed array is judged (never the command line).
        ws = list(t.get("ws") or ["\\n"] * (len(fields) - 1))
        prog = "printf '%s' " % ("%s" + "".join(w + "%s" for w in ws) + t.get("tail", "\\n"))
        sep = " "
        gaps = [" "] * (len(fields) - 1)
    else:
        sep = t.get("sep", ",")
        prog = "printf '%s' " % sep.join(["%s"] * len(fields))
        gaps = [" "] * (len(fields) - 1)
    parts, logf = [], []
    for f in fields:
        if f["k"] == "lit":
            parts.append("{}".format(f["v"]))
            logf.append(dict(k="lit", v=xval(f["v"]), i=0, name=""))
        elif f["k"] == "pos":
            parts.append("{%d}" % f["i"])
            logf.append(dict(k="pos", v=xval(""), i=int(f["i"]), name=""))
        else:
            parts.append("{%s}" % f["name"])
            logf.append(dict(k="kw", v=xval(""), i=0, name=f["name"]))
    s = prog
    for q, p in enumerate(parts):
        s += p + (gaps[q] if q < len(parts) - 1 else "")
    return s, dict(prog="printfws " if t["prog"] == "printfws" else prog, fields=logf, gaps=gaps, sep=sep), sep


def gen_state_label(rs):
    st = rs.get_state()
    h = hashlib.sha1(np.asarray(st[1]).tobytes() + str(st[2:]).encode()).hexdigest()[:12]
    return "h" + h, int(st[1][0])


def stream_for_key(key0, n=16):
    return [limb(x) for x in np.random.RandomState(key0).randint(2 ** 31, size=n, dtype="uint32")]


NO_ROW = dict(hascmd=False, cmd="", hasout=False, out=[], outdt="", ndim=-1, hasseed=False, seed=[0, 0], seed_s="")


def ext_make_op(tmpl_str, path, req, sep, reclog):
    import elfi
    if path == "args":
        def handler(cp, *inputs, **kwinputs):
            reclog.append(dict(cmd=cp.args, seed=kwinputs.get("seed")))
            return len(reclog) - 1
        return elfi.tools.external_operation(tmpl_str, process_result=handler, stdout=False,
                                             subprocess_kwargs=dict(stdout=subprocess.DEVNULL))
    kw = {}
    if req != "none":
        kw["process_result"] = np.dtype(req[3:]) if req.startswith("dt:") else req
    if sep != " ":
        kw["sep"] = sep
    return elfi.tools.external_operation(tmpl_str, **kw)


def ext_rows_from_output(ev, out, path, reclog, n_expected_vec):
    """project what the operation returned into per-row observations"""
    fields = ev["tmpl"]["fields"]
    seedq = [q for q, f in enumerate(fields) if f["k"] == "kw" and f["name"] == "seed"]
    rows = []
    if ev["vec"]:
        seq = list(out) if isinstance(out, np.ndarray) and out.ndim >= 1 else None
        if seq is None:
            return None
    else:
        seq = [out]
    for item in seq:
        row = dict(NO_ROW)
        if path == "args":
            try:
                rec = reclog[int(item)]
            except Exception:
                return None
            row.update(hascmd=True, cmd=str(rec["cmd"]))
            if rec["seed"] is not None:
                row.update(hasseed=True, seed=limb(rec["seed"]), seed_s="{}".format(rec["seed"]))
        else:
            if not isinstance(item, np.ndarray):
                return None
            row.update(hasout=True, out=[xnum(x) for x in item.reshape(-1).tolist()] if item.dtype != object else [],
                       outdt=str(item.dtype), ndim=int(item.ndim))
            if seedq and ev["hasrs"] and item.ndim == 1 and item.shape[0] > seedq[0]:
                sv = item[seedq[0]]
                if float(sv).is_integer() and 0 <= sv < 2 ** 32:
                    row.update(hasseed=True, seed=limb(int(sv)), seed_s=str(int(sv)))
        rows.append(row)
    return rows


def ext_event(tmpl_log, path, req, vec, inputs_log, mask, bs, kw, meta, hasrs, gen):
    return dict(tmpl=tmpl_log, path=path, req=req[3:] if req.startswith("dt:") else req, vec=bool(vec), inputs=inputs_log,
                mask=list(mask or []), bs=-1 if bs is None else int(bs), kw={k: xval(v) for k, v in kw.items()},
                hasmeta=meta is not None, meta={k: xval(v) for k, v in (meta or {}).items()},
                hasrs=bool(hasrs), gen=gen, res="", exc="", rows=[])


def ext_build_input(spec):
    if spec["k"] == "arr":
        dt = np.float64 if any(isinstance(v, float) for v in spec["vals"]) else np.int64
        obj = np.array(spec["vals"], dtype=dt)
        return obj, dict(arr=True, rows=[xval(dt(v)) for v in spec["vals"]], v=xval("<array>"))
    return spec["val"], dict(arr=False, rows=[], v=xval(spec["val"]))


def record_ext_alone(sc):
    import elfi
    streams = {}
    events = []
    live = np.random.RandomState(0)     # sc["live_gen"]: ONE generator object serves every event (as the batch generator serves every
    #                                     node of a batch) - it is put into the event's state; the seed follows the state, not the object
    # with a live generator object every event is afterwards repeated with a FRESH generator object in the same state: the seed is a
    # function of the generator's state, so both must agree (P:seed-deterministic joins them through the state label `gen`)
    plan = [(e, bool(sc.get("live_gen"))) for e in sc["events"]]
    if sc.get("live_gen"):
        plan += [(e, False) for e in sc["events"] if e.get("rs") is not None]
    for k, (e, use_live) in enumerate(plan):
        tmpl_str, tmpl_log, sep = build_template(e["tmpl"])
        reclog = []
        objs, logs = [], []
        for spec in e["inputs"]:
            o, lg = ext_build_input(spec)
            objs.append(o)
            logs.append(lg)
        kwargs = dict(e["kw"])
        meta = dict(e["meta"]) if e.get("meta") is not None else None
        if meta is not None:
            kwargs["meta"] = meta
        gen = ""
        if e.get("rs") is not None:
            rs = np.random.RandomState(e["rs"]["seed"])
            if e["rs"]["adv"]:
                rs.random_sample(e["rs"]["adv"])
            gen = "g%d_%d" % (e["rs"]["seed"], e["rs"]["adv"])
            if gen not in streams:
                streams[gen] = stream_for_key(int(rs.get_state()[1][0]))
            if use_live:
                live.set_state(rs.get_state())
                rs = live
            kwargs["random_state"] = rs
        ev = ext_event(tmpl_log, e["path"], e["req"], e["vec"], logs, e.get("mask"), e.get("bs"), e["kw"], meta,
                       e.get("rs") is not None, gen)
        if e.get("bs") is not None:
            kwargs["batch_size"] = e["bs"]
        # the global numpy generator must not matter: put it into a different state for every event
        np.random.seed((sc.get("salt", 0) * 7919 + k * 104729 + 1) % (2 ** 32))
        try:
            with time_limit(20):
                op = ext_make_op(tmpl_str, e["path"], e["req"], sep, reclog)
                f = elfi.tools.vectorize(op, constants=e.get("mask"), dtype=dtype_arg(e.get("vdt", "none"))) if e["vec"] else op
                out = f(*objs, **kwargs)
            rows = ext_rows_from_output(ev, out, e["path"], reclog, None)
            if rows is None:
                ev["res"] = "val"
                ev["rows"] = []
                ev["exc"] = "unprojectable:%s" % type(out).__name__
            else:
                ev["res"] = "val"
                ev["rows"] = rows
        except Hang:
            ev["res"] = "hang"
        except Exception as ex:
            ev["res"] = "raise"
            ev["exc"] = type(ex).__name__
        events.append(ev)
    return dict(streams=streams or {"none": []}, events=events)


def record_ext_model(sc):
    """vectorised external operation as the Simulator of a real elfi model."""
    import elfi
    streams = {}
    events = []
    m = elfi.ElfiModel(name="c18x")
    tmpl_str, tmpl_log, sep = build_template(sc["tmpl"])
    reclog = []
    op = ext_make_op(tmpl_str, sc["path"], sc["req"], sep, reclog)
    fv = elfi.tools.vectorize(op, constants=sc.get("mask"))

    def spy(*inputs, **kwargs):
        logs = []
        for x in inputs:
            if isinstance(x, np.ndarray) and x.ndim > 0:
                logs.append(dict(arr=True, rows=[xval(v) for v in x], v=xval("<array>")))
            else:
                logs.append(dict(arr=False, rows=[], v=xval(x)))
        rs = kwargs.get("random_state")
        gen = ""
        if rs is not None:
            gen, key0 = gen_state_label(rs)
            streams.setdefault(gen, stream_for_key(key0))
        meta = kwargs.get("meta")
        ev = ext_event(tmpl_log, sc["path"], sc["req"], True, logs, sc.get("mask"), kwargs.get("batch_size"),
                       {k: v for k, v in kwargs.items() if k not in ("meta", "random_state", "batch_size")},
                       dict(meta) if isinstance(meta, dict) else None, rs is not None, gen)
        try:
            out = fv(*inputs, **kwargs)
            rows = ext_rows_from_output(ev, out, sc["path"], reclog, None)
            ev["res"] = "val"
            ev["rows"] = rows or []
            return out
        except Exception as ex:
            ev["res"] = "raise"
            ev["exc"] = type(ex).__name__
            raise
        finally:
            events.append(ev)

    parents = []
    for j, p in enumerate(sc["parents"]):
        if p == "p1":
            n = elfi.Simulator(id_source(1, 100 * (j + 1)), model=m, name="P%d" % j)
            n.uses_meta = True
        else:
            n = elfi.Constant(sc["const"], model=m, name="P%d" % j)
        parents.append(n)
    x = elfi.Simulator(spy, *parents, model=m, name="X")
    x.uses_meta = bool(sc["uses_meta"])
    res = "val"
    try:
        with time_limit(60):
            for s in sc["seeds"]:
                np.random.seed((s * 31 + len(events) * 17 + 3) % (2 ** 32))
                m.generate(sc["bs"], outputs=["X"], seed=s)
    except Hang:
        res = "hang"
    except Exception:
        res = "raise"
    return dict(streams=streams or {"none": []}, events=events, run=res)


def record_ext(sc):
    return record_ext_model(sc) if sc.get("where") == "model" else record_ext_alone(sc)


SEED_OK_REQ = ["none", "int64", "float64", "int32", "dt:int64"]
FRAC_OK_REQ = ["none", "float64", "float32", "dt:float32"]
ANY_REQ = ["none", "int8", "int16", "int32", "int64", "uint8", "float32", "float64", "dt:int16", "dt:float64"]


def ext_is_finding_class(e):
    """exactly the input class of the finding: a vectorised external operation that gets a batch
    generator but no run metadata, for a batch of at least two rows"""
    if not e["vec"] or e.get("rs") is None or e.get("meta") is not None or "index_in_batch" in e["kw"]:
        return False
    lens = [len(i["vals"]) for j, i in enumerate(e["inputs"]) if i["k"] == "arr" and j not in (e.get("mask") or [])]
    n = lens[0] if lens else (e.get("bs") if e.get("bs") is not None else 1)
    return n >= 2


def ext_scenarios(ctx, rnd):
    cnt = itertools.count()

    def pick(seq):
        return seq[next(cnt) % len(seq)]

    def req_for(fields, ctxd):
        has_seed = any(f["k"] == "kw" and f["name"] == "seed" for f in fields)
        frac = False
        for f in fields:
            if f["k"] == "lit":
                frac |= isinstance(f["v"], float)
            elif f["k"] == "pos":
                frac |= ctxd["frac_pos"].get(f["i"], False)
            elif f["name"] in ctxd["frac_kw"]:
                frac = True
        if has_seed and ctxd["rs"] is not None:
            pool = [r for r in SEED_OK_REQ if not frac or r in FRAC_OK_REQ]
        elif frac:
            pool = FRAC_OK_REQ
        else:
            pool = ANY_REQ
        return pick(pool)

    # contexts: (inputs, explicit kw, meta, generator, vectorised?)
    contexts = [
        # direct call, explicit `a` must win over meta's `a`; row index from meta
        dict(name="direct", vec=False, inputs=[dict(k="s", val=5), dict(k="s", val=0.5)], kw=dict(a=3),
             meta=dict(a=9, b=4, index_in_batch=2, batch_index=6), rs=dict(seed=11, adv=0),
             names=["a", "b", "seed", "index_in_batch"], frac_pos={1: True}, frac_kw=[]),
        # direct call without meta and generator: explicit seed keyword is an ordinary keyword
        dict(name="direct-plain", vec=False, inputs=[dict(k="s", val=12)], kw=dict(seed=123, x=2.25), meta=None, rs=None,
             names=["seed", "x"], frac_pos={}, frac_kw=["x"]),
        # direct call, explicit row index
        dict(name="direct-idx", vec=False, inputs=[dict(k="s", val=8), dict(k="s", val=1)], kw=dict(index_in_batch=1, a=2),
             meta=dict(index_in_batch=3, a=5, c=6), rs=dict(seed=11, adv=0),
             names=["a", "c", "seed", "index_in_batch"], frac_pos={}, frac_kw=[]),
        # vectorised, rows from an int array and a float array, one constant; meta as elfi's loader makes it
        dict(name="vec", vec=True, inputs=[dict(k="arr", vals=[21, 22, 23]), dict(k="s", val=4)], kw=dict(a=3),
             meta=dict(batch_index=2, submission_index=1, master_seed=77, a=9), rs=dict(seed=11, adv=0),
             names=["a", "seed", "index_in_batch", "batch_index", "master_seed"], frac_pos={}, frac_kw=[]),
        dict(name="vec-stale", vec=True, inputs=[dict(k="arr", vals=[0.5, 1.25]), dict(k="arr", vals=[31, 32])], kw={},
             meta=dict(batch_index=0, index_in_batch=9), rs=dict(seed=12, adv=3),
             names=["seed", "index_in_batch", "batch_index"], frac_pos={0: True}, frac_kw=[]),
        # vectorised without generator: nothing about seeds, only substitution
        dict(name="vec-nors", vec=True, inputs=[dict(k="arr", vals=[41, 42]), dict(k="s", val=7)], kw=dict(z=1), meta=None, rs=None,
             names=["z"], frac_pos={}, frac_kw=[]),
    ]
    scs = []
    for c in contexts:
        alphabet = [dict(k="lit", v=pick([1, 17, 2.5, 0]))] + [dict(k="pos", i=i) for i in range(len(c["inputs"]))] + \
                   [dict(k="kw", name=n) for n in c["names"]]
        maxlen = 2 if ctx.quick else 3
        if c["name"] == "direct":
            maxlen = 3
        templates = []
        for n in range(1, maxlen + 1):
            templates.extend(itertools.product(alphabet, repeat=n))
        if ctx.quick and c["name"] == "direct":
            templates = [t for i, t in enumerate(templates) if len(t) < 3 or i % 3 == ctx.seed % 3]
        events = []
        for t in templates:
            fields = [dict(f) for f in t]
            path = pick(["dtype", "args", "dtype"])
            prog = pick(["echo", "echo", "printf"] + (["printfws"] if path == "dtype" else []))
            tm = dict(prog=prog, fields=fields)
            if prog == "echo":
                tm["gaps"] = [pick([" ", "  ", " ", "   "]) for _ in range(len(fields) - 1)]
            elif prog == "printfws":
                tm["ws"] = [pick(["\\n", "\\t", "  ", " \\n", "\\n\\n"]) for _ in range(len(fields) - 1)]
                tm["tail"] = pick(["\\n", "", " \\n\\n"])
            else:
                tm["sep"] = pick([",", ";"])
            events.append(dict(tmpl=tm, path=path, req=req_for(fields, c) if path == "dtype" else "none", vec=c["vec"],
                               vdt=pick(["none", "none", "false"]) if c["vec"] else "none",
                               inputs=[dict(i) for i in c["inputs"]], mask=None, bs=None, kw=dict(c["kw"]),
                               meta=dict(c["meta"]) if c["meta"] is not None else None,
                               rs=dict(c["rs"]) if c["rs"] is not None else None))
        # traces of 8 events: the same generator recurs, so determinism is judged across events
        for i in range(0, len(events), 8):
            scs.append(dict(kind="ext", ctx=c["name"], events=events[i:i + 8], salt=len(scs) + 1000 * ctx.seed))
    n_exh = len(scs)
    # unavailable fields (mechanism only) and string-valued metadata (command line only)
    scs.append(dict(kind="ext", ctx="unavailable", salt=1, events=[
        dict(tmpl=dict(prog="echo", fields=[dict(k="pos", i=1)]), path="dtype", req="none", vec=False, vdt="none",
             inputs=[dict(k="s", val=1)], mask=None, bs=None, kw={}, meta=None, rs=None),
        dict(tmpl=dict(prog="echo", fields=[dict(k="kw", name="nope")]), path="dtype", req="none", vec=False, vdt="none",
             inputs=[dict(k="s", val=1)], mask=None, bs=None, kw=dict(a=1), meta=dict(b=2), rs=None),
        dict(tmpl=dict(prog="echo", fields=[dict(k="kw", name="seed")]), path="dtype", req="none", vec=False, vdt="none",
             inputs=[], mask=None, bs=None, kw={}, meta=None, rs=None),
        dict(tmpl=dict(prog="echo", fields=[dict(k="lit", v=3), dict(k="kw", name="model_name"), dict(k="kw", name="seed")]),
             path="args", req="none", vec=True, vdt="none", inputs=[dict(k="arr", vals=[1, 2])], mask=None, bs=None, kw={},
             meta=dict(model_name="c18m", batch_index=0), rs=dict(seed=3, adv=0)),
    ]))
    # seeded random: generators in many states, random templates, row counts 1..4, constants masks, batch_size
    n_rand = 60 if ctx.quick else 700
    for k in range(n_rand):
        gens = [dict(seed=rnd.randint(0, 2 ** 32 - 1), adv=rnd.choice([0, 0, 1, 5, 700])) for _ in range(2)]
        events = []
        for _e in range(rnd.randint(3, 6)):
            vec = rnd.random() < 0.7
            nrows = rnd.randint(1, 4)
            inputs, frac_pos = [], {}
            arity = rnd.randint(0 if not vec else 1, 3)
            for j in range(arity):
                fr = rnd.random() < 0.3
                if vec and (j == 0 or rnd.random() < 0.5):
                    vals = [rnd.randint(0, 99) + (rnd.choice([0.5, 0.25, 0.125]) if fr else 0) for _r in range(nrows)]
                    inputs.append(dict(k="arr", vals=vals))
                else:
                    inputs.append(dict(k="s", val=rnd.randint(0, 99) + (rnd.choice([0.5, 0.75]) if fr else 0)))
                frac_pos[j] = fr
            use_bs = vec and rnd.random() < 0.3
            kw = {}
            if rnd.random() < 0.6:
                kw["a"] = rnd.randint(0, 50)
            if rnd.random() < 0.3:
                kw["w"] = rnd.choice([0.5, 3.25, 6])
            meta = None
            if rnd.random() < 0.8:
                meta = dict(batch_index=rnd.randint(0, 9), submission_index=rnd.randint(0, 3))
                if rnd.random() < 0.5:
                    meta["a"] = rnd.randint(51, 99)
                if rnd.random() < 0.4 or not vec:
                    meta["index_in_batch"] = rnd.randint(0, 3)
            rs = rnd.choice(gens) if rnd.random() < 0.85 else None
            names = sorted(set(kw) | set(meta or {}) | ({"seed"} if rs is not None else set()) |
                           ({"index_in_batch"} if (vec and meta is not None) else set()))
            alphabet = [dict(k="lit", v=rnd.choice([0, 1, 9, 1.5]))] + [dict(k="pos", i=i) for i in range(arity)] + \
                       [dict(k="kw", name=n) for n in names]
            fields = [dict(rnd.choice(alphabet)) for _f in range(rnd.randint(1, 5))]
            cdesc = dict(rs=rs, frac_pos=frac_pos, frac_kw=[n for n in kw if isinstance(kw[n], float)])
            path = rnd.choice(["dtype", "dtype", "args"])
            prog = rnd.choice(["echo", "echo", "printf"] + (["printfws"] if path == "dtype" else []))
            tm = dict(prog=prog, fields=fields)
            if prog == "echo":
                tm["gaps"] = [rnd.choice([" ", "  ", "\t"]) for _ in range(len(fields) - 1)]
            elif prog == "printfws":
                tm["ws"] = [rnd.choice(["\\n", "\\t", "  ", " \\n", "\\n\\n"]) for _ in range(len(fields) - 1)]
                tm["tail"] = rnd.choice(["\\n", "", " \\n\\n"])
            else:
                tm["sep"] = rnd.choice([",", ";", ":"])
            e = dict(tmpl=tm, path=path, req=req_for(fields, cdesc) if path == "dtype" else "none", vec=vec,
                     vdt=rnd.choice(["none", "false"]) if vec else "none", inputs=inputs, mask=None,
                     bs=nrows if use_bs else None, kw=kw, meta=meta, rs=rs)
            if ext_is_finding_class(e):
                e["meta"] = dict(batch_index=1)          # keep the finding's class out of mixed traces
            events.append(e)
        scs.append(dict(kind="ext", ctx="random", events=events, salt=k + 5000 * ctx.seed, live_gen=(k % 2 == 0)))
    # two generators taking turns: a whole batch with generator A, then ONE row (index > 0) with generator B, then the whole
    # batch with B - the seed of (B, row) is the same both times, whatever was served in between
    for k in range(6):
        ga, gb = [dict(seed=rnd.randint(0, 2 ** 32 - 1), adv=rnd.choice([0, 1, 5])) for _ in range(2)]
        row = rnd.randint(1, 3)
        tm = dict(prog="echo", fields=[dict(k="pos", i=0), dict(k="kw", name="seed")], gaps=[" "])
        batch = lambda g: dict(tmpl=dict(tm), path="args", req="none", vec=True, vdt="none", inputs=[dict(k="arr", vals=[1, 2, 3, 4])],   # noqa: E731
                               mask=None, bs=None, kw={}, meta=dict(batch_index=1), rs=g)
        single = dict(tmpl=dict(tm), path="args", req="none", vec=False, vdt="none", inputs=[dict(k="s", val=7)], mask=None, bs=None, kw={},
                      meta=dict(batch_index=1, index_in_batch=row), rs=gb)
        scs.append(dict(kind="ext", ctx="turns", events=[batch(ga), single, batch(gb), batch(ga)], salt=7000 + k + 100 * ctx.seed))
    # inside real model runs (batch_size > 1), two runs with the same master seed and one with another
    for bs in (2, 3) if ctx.quick else (2, 3, 4, 5):
        for path in ("dtype", "args"):
            for parents in (["p1", "c"], ["c", "p1"], ["p1"]):
                fields = [dict(k="pos", i=0)] + ([dict(k="pos", i=1)] if len(parents) > 1 else []) + \
                         [dict(k="kw", name="seed"), dict(k="kw", name="batch_index"), dict(k="kw", name="index_in_batch"),
                          dict(k="lit", v=5)]
                s0 = ctx.seed * 10 + next(cnt) % 7
                scs.append(dict(kind="ext", where="model", ctx="model", tmpl=dict(prog="echo", fields=fields), path=path,
                                req=pick(["int64", "none", "float64"]) if path == "dtype" else "none", parents=parents,
                                const=pick([3, 44]), uses_meta=True, bs=bs, seeds=[s0, s0, s0 + 1], mask=None))
    return scs, n_exh


def pinned_finding_scenarios():
    """Always reproduced: the class of finding F26 (documented usage in docs/usage/external.rst:
    vectorised `echo {0} {1} {seed}` on a node that does not ask for meta)."""
    ev = dict(tmpl=dict(prog="echo", fields=[dict(k="pos", i=0), dict(k="pos", i=1), dict(k="kw", name="seed")], gaps=[" ", " "]),
              path="dtype", req="none", vec=True, vdt="none", inputs=[dict(k="arr", vals=[1, 2, 3]), dict(k="s", val=0)],
              mask=None, bs=3, kw={}, meta=None, rs=dict(seed=20170511, adv=0))
    ev2 = dict(ev, path="args", bs=None, inputs=[dict(k="arr", vals=[1, 2]), dict(k="s", val=0)])
    model = dict(kind="ext", where="model", ctx="finding-model", pinned=True,
                 tmpl=dict(prog="echo", fields=[dict(k="pos", i=0), dict(k="pos", i=1), dict(k="kw", name="seed")]),
                 path="dtype", req="none", parents=["p1", "c"], const=0, uses_meta=False, bs=3, seeds=[1], mask=None)
    return [dict(kind="ext", ctx="finding", pinned=True, events=[ev], salt=0),
            dict(kind="ext", ctx="finding", pinned=True, events=[ev2], salt=0), model]


def sc_in_finding_class(sc):
    if sc.get("where") == "model":
        return (not sc["uses_meta"]) and sc["bs"] >= 2 and any(f["k"] == "kw" and f["name"] == "seed" for f in sc["tmpl"]["fields"])
    return len(sc["events"]) == 1 and ext_is_finding_class(sc["events"][0])


def check_ext(ctx, scs):
    traces = [record_ext(sc) for sc in scs]
    n_chunks = 6
    verdicts = ctx.validate("External_Trace", traces, chunk=max(20, -(-len(traces) // n_chunks)), name="ext")
    for sc, tr, v in zip(scs, traces, verdicts):
        evs = tr["events"]
        nrows = sum(len(e["rows"]) for e in evs)
        if sc.get("where") == "model":
            key = ("ext-model", tuple(sc["parents"]), sc["path"], sc["req"], sc["bs"], sc["uses_meta"], tuple(sc["seeds"]))
            if len(evs) < len(sc["seeds"]) and v["verdict"] == "ok":
                raise tlc.MachineryFailure("model scenario produced %d external batches: %r" % (len(evs), sc))
        else:
            key = ("ext", sc["ctx"], hashlib.sha1(repr(sc["events"]).encode()).hexdigest()[:12])
        ctx.case(key, nontrivial=any(len(e["rows"]) >= 2 or (e["hasrs"] and e["rows"] and e["rows"][0]["hasseed"]) for e in evs))
        ctx.trace_events += nrows
        if v["verdict"] != "ok":
            at = max(0, min(v["l"] - 2, len(evs) - 1))
            finding = FINDING if (v["verdict"] == "P:seed-row-distinct" and sc_in_finding_class(sc)) else None
            ctx.fail(v["verdict"], sc, detail=dict(at_event=at, event=evs[at] if evs else None,
                                                   seeds=[r["seed_s"] for r in evs[at]["rows"]] if evs else None), finding=finding)
        elif v["drift"]:
            ctx.drifted(v["drift"], sc)
        elif sc.get("pinned"):
            ctx.notes.append("pinned scenario of %s no longer fails (finding repaired?): %s" % (FINDING, sc["ctx"]))
    return traces


def trace_controls(ctx):
    """Negative controls of the two trace specs: one real trace each, then copies with one recorded field
    corrupted; when TLC accepts the real trace it must name the expected clause for every copy (otherwise
    the binding is vacuous).  The real trace itself is an ordinary case: a P: failure on it is a violation."""
    import copy
    sc = dict(kind="vec", where="alone", inputs=[dict(k="a1", n=3), dict(k="int"), dict(k="a2", n=7)], mask=[2], bs=None,
              dt="false", ret="term", kw=["random_state", "user"], meta="fresh")
    esc = dict(kind="ext", ctx="control", salt=0, events=[
        dict(tmpl=dict(prog="echo", fields=[dict(k="lit", v=3), dict(k="pos", i=0), dict(k="kw", name="a"), dict(k="kw", name="seed")],
                       gaps=[" ", " ", " "]),
             path=p, req="int64" if p == "dtype" else "none", vec=True, vdt="none", inputs=[dict(k="arr", vals=[21, 22, 23])],
             mask=None, bs=None, kw=dict(a=3), meta=dict(a=9, batch_index=1), rs=dict(seed=5, adv=0)) for p in ("dtype", "args", "dtype")])

    def share_seed(ev):
        ev[0]["rows"][1].update(seed=ev[0]["rows"][0]["seed"])
        ev[0]["rows"][1]["out"][3] = ev[0]["rows"][0]["out"][3]

    def other_seed(ev):
        ev[2]["rows"][1].update(seed=[1, 1])
        ev[2]["rows"][1]["out"][3] = [1, 1, 0]
    vec_muts = [("P:per-row", lambda ev: ev[0]["calls"][1]["args"][0]["d"].__setitem__(0, 1000)),
                ("P:per-row", lambda ev: ev[0]["out"]["items"].reverse()),
                ("P:constants-untouched", lambda ev: ev[0]["calls"][1]["args"][1]["d"].__setitem__(0, 5)),
                ("P:constants-untouched", lambda ev: ev[0]["calls"][2]["args"][2].update(d=[3004, 3005], s="2:int64")),
                ("P:kwargs-through", lambda ev: ev[0]["calls"][0]["kw"].pop("user")),
                ("P:kwargs-through", lambda ev: ev[0]["calls"][0]["meta"]["batch_index"]["d"].__setitem__(0, 9)),
                ("P:length", lambda ev: ev[0]["out"].update(len=2, items=ev[0]["out"]["items"][:2], same=ev[0]["out"]["same"][:2])),
                ("P:dtype-false-object", lambda ev: ev[0]["out"].update(cont="float64")),
                ("P:dtype-false-object", lambda ev: ev[0]["out"]["same"].__setitem__(1, False))]
    ext_muts = [("P:substitution", lambda ev: ev[0]["rows"][1]["out"].__setitem__(1, [0, 21, 0])),
                ("P:substitution", lambda ev: ev[0]["rows"][0]["out"].__setitem__(2, [0, 9, 0])),
                ("P:substitution", lambda ev: ev[1]["rows"][0].update(cmd="echo 3 21 9 " + ev[1]["rows"][0]["seed_s"])),
                ("P:parse", lambda ev: ev[0]["rows"][1]["out"].__setitem__(0, [0, 4, 0])),
                ("P:parse", lambda ev: ev[0]["rows"][1].update(outdt="float64")),
                ("P:seed-row-distinct", share_seed),
                ("P:seed-deterministic", other_seed)]
    for module, scen, rec, muts, name in (("Vectorize_Trace", sc, record_vec, vec_muts, "ctl_vec"),
                                          ("External_Trace", esc, record_ext, ext_muts, "ctl_ext")):
        base = rec(scen)
        cases = [("ok", base)]
        for want, f in muts:
            t = copy.deepcopy(base)
            try:
                f(t["events"])
            except Exception:       # the real trace does not have the expected shape: it will not be accepted below
                continue
            cases.append((want, t))
        got = ctx.validate(module, [c[1] for c in cases], name=name)
        ctx.case((name, "base"), nontrivial=True)
        if got[0]["verdict"] != "ok":
            # the code under test fails the control's own scenario: an ordinary violation, no control possible
            at = max(0, min(got[0]["l"] - 2, len(base["events"]) - 1))
            ctx.fail(got[0]["verdict"], scen, detail=dict(at_event=at, event=base["events"][at]))
            continue
        ctx.traces_validated -= len(cases) - 1
        if len(cases) != len(muts) + 1:
            raise tlc.MachineryFailure("%s control: accepted trace could not be corrupted as planned" % module)
        for (want, _t), v in zip(cases, got):
            if v["verdict"] != want:
                raise tlc.MachineryFailure("%s control: expected %s, TLC said %r" % (module, want, v))
        ctx.negative_controls.append(dict(run="%s corrupted-trace controls" % module, refuted=sorted(set(c[0] for c in cases[1:]))))


# =====================================================================================
# entry points
# =====================================================================================
def check_scenarios(ctx, scs):
    vec = [sc for sc in scs if sc["kind"] == "vec"]
    ext = [sc for sc in scs if sc["kind"] == "ext"]
    tv = check_vec(ctx, vec) if vec else []
    te = check_ext(ctx, ext) if ext else []
    return tv, te


VEC_INVS = ["Length", "PerRow", "ConstantsUntouched", "Arity", "KwargsThrough", "MetaRowIndex", "NoMetaInvented",
            "DtypeFalseObject", "ContainerOnly", "Statement"]
EXT_INVS = ["Substitution", "RaisesIffUnavailable", "SeedDeterministic", "SeedInRange", "SeedsDistinctPerRow"]


def vec_cfg(arity, maxlen, variant, invs):
    return ("SPECIFICATION Spec\nCONSTANTS\n  MaxArity = %d\n  MaxLen = %d\n  Variant = \"%s\"\n%s\nCHECK_DEADLOCK FALSE\n"
            % (arity, maxlen, variant, "\n".join("INVARIANT " + i for i in invs)))


def ext_cfg(high, slen, rows, fields, variant, invs):
    return ("SPECIFICATION Spec\nCONSTANTS\n  High = %d\n  StreamLen = %d\n  MaxRows = %d\n  MaxFields = %d\n  Variant = \"%s\"\n%s\n"
            "CHECK_DEADLOCK FALSE\n" % (high, slen, rows, fields, variant, "\n".join("INVARIANT " + i for i in invs)))


def design_runs(ctx):
    """O1.  Positive runs with all invariants, negative controls with the one invariant they must break."""
    jobs = []
    va, ea = ["CallReturns", "CallRaises"], ["RunReturns", "RunRaises"]
    if ctx.quick:
        jobs.append(("Vectorize", "MC_Vectorize_q", vec_cfg(3, 2, "code", VEC_INVS), va, True, 3))
        jobs.append(("External", "MC_External_q1", ext_cfg(2, 3, 2, 1, "code", EXT_INVS), ea, True, 2))
        jobs.append(("External", "MC_External_q2", ext_cfg(2, 2, 2, 2, "code", EXT_INVS), ea, True, 3))
    else:
        jobs.append(("Vectorize", "MC_Vectorize_t", vec_cfg(3, 3, "code", VEC_INVS), va, True, 4))
        jobs.append(("External", "MC_External_t1", ext_cfg(3, 5, 3, 1, "code", EXT_INVS), ea, True, 4))
        jobs.append(("External", "MC_External_t2", ext_cfg(2, 3, 2, 2, "code", EXT_INVS), ea, True, 4))
        jobs.append(("External", "MC_External_t3", ext_cfg(2, 3, 2, 3, "code", EXT_INVS), ea, True, 8))
    for variant, inv in [("index-constants", "ConstantsUntouched"), ("no-auto-detect", "Length"), ("no-length-check", "Length"),
                         ("no-index", "MetaRowIndex")]:
        jobs.append(("Vectorize", "MC_Vectorize_neg_%s" % variant.replace("-", "_"), vec_cfg(2, 2, variant, [inv]), None, False, 1))
    for variant, inv in [("meta-wins", "Substitution"), ("no-index", "SeedsDistinctPerRow"), ("code", "SeedsDistinctPerRowWithoutMeta")]:
        jobs.append(("External", "MC_External_neg_%s_%s" % (variant.replace("-", "_"), inv), ext_cfg(2, 3, 2, 1, variant, [inv]),
                     None, False, 1))

    # at most 8 TLC workers at any time (the machine is shared): a job holds as many slots as it has workers
    slots = threading.BoundedSemaphore(8)
    lock = threading.Lock()

    def one(job):
        module, cfg, text, acts, ok, workers = job
        with lock:                      # take all slots of the job atomically
            for _ in range(workers):
                slots.acquire()
        try:
            return ctx.tlc(module, cfg, cfg_text=text, expect_actions=acts, expect_ok=ok, timeout=1500, workers=workers)
        finally:
            for _ in range(workers):
                slots.release()
    jobs.sort(key=lambda j: -j[5])
    with concurrent.futures.ThreadPoolExecutor(max_workers=8) as ex:
        list(ex.map(one, jobs))


def run(ctx):
    ctx.rule = ("vectorize: every combination of arity <= 3 x each input {non-array, array of length 1..3} x every explicit constants "
                "mask x batch_size in {None,1,2,3} x dtype in {None, False, float64} (quick: dtype rotated), sub-kinds (int/float/"
                "str/None/list/tuple/0-d array/object; 1-d/2-d/3-d/float/object arrays), return kinds, keyword and meta "
                "combinations rotated; edge classes (empty arrays, batch_size 0, out-of-range mask); seeded random arity <= 4, "
                "length <= 5; and as Simulator/Summary operations of real model runs (batch_size 2..4, observed data of length 1). "
                "external_operation: every echo/printf template of length <= 2-3 over {literal, each positional input, each "
                "available keyword (explicit / meta / seed / row index)} in six contexts (direct, vectorised, with and without "
                "meta and generator), seeded random templates/generators, and inside real model runs repeated with equal and "
                "different master seeds.  Non-trivial = a batch of >= 2 rows or a seed observed.")
    ctx.clauses_decided = [
        "a: P:per-row, P:constants-untouched, P:kwargs-through (value-level; object identity of constants and the row index in "
        "meta are M: clauses)",
        "b: P:length (length = common length of the non-constant array inputs | batch_size | 1; inconsistent lengths must be refused)",
        "a/dtype: P:dtype-false-object (1-d object container holding the very objects returned)",
        "c: P:substitution (command line as run / echoed values), P:parse (dtype, ndim, length, values of the parsed array)",
        "d: P:seed-deterministic (same generator state and row => same seed, global numpy RNG perturbed between calls), "
        "P:seed-row-distinct (same generator, different rows => different seeds)"]
    ctx.clauses_not_decided = [
        "values other than small integers / multiples of 1/8 in command lines (float formatting and parsing of arbitrary doubles)",
        "commands other than echo / printf; stdout=False handlers other than the harness' recorder",
        "what happens for templates over unavailable inputs (M:unavailable-field-raises only)",
        "numpy's automatic conversion of non-numeric outputs under dtype=None (documented caveat of vectorize): only numeric, "
        "same-shape or opaque-object returns are generated there"]
    ctx.assumptions.append("batch_size is the vectorizer's own parameter (clause b), not a pass-through keyword; "
                           "meta passes through unchanged except for the row index written by vectorize")
    ctx.assumptions.append("'the batch generator' = the state of the RandomState passed as random_state; equal states are equal "
                           "generators")
    ctx.trusted_base.append("/bin/sh echo and printf; numpy array construction from nested lists")
    design_runs(ctx)
    trace_controls(ctx)
    rnd = random.Random(ctx.seed)
    vscs, n_exh, n_alone = vec_scenarios(ctx, rnd)
    escs, n_eexh = ext_scenarios(ctx, rnd)
    pinned = pinned_finding_scenarios()
    tv, te = check_scenarios(ctx, vscs + escs + pinned)
    ctx.exhaustive = True
    ctx.notes.append("vectorize: %d exhaustive + %d edge/random direct calls + %d model runs; external: %d exhaustive-template traces "
                     "+ %d other traces + %d pinned" % (n_exh, n_alone - n_exh, len(vscs) - n_alone, n_eexh, len(escs) - n_eexh, len(pinned)))
    for i in (n_exh // 2, len(vscs) - 1):
        ctx.sample(dict(scenario=vscs[i], events=tv[i]["events"][:2]))
    for i in (0, len(escs) - 1):
        ctx.sample(dict(scenario={k: v for k, v in escs[i].items() if k != "events"}, events=te[i]["events"][:2]))


def replay(ctx, scenario):
    check_scenarios(ctx, [scenario])

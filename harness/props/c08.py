"""C08 - the joint model prior equals the product of the conditional prior densities.

O1: ModelPrior.tla: for every prior DAG (<= 3-4 parameters, arguments constants or other parameters), every
    requested order of every parent-closed subset: augment (add_pdf_nodes) + compile + load + override + execute
    = fold of attr_n(x_n | x_parents(n)) over the requested names, only pdf nodes run; the shape table; the central
    difference of numgrad = the derivative on one linear piece.  Negative controls: the code before the repair of F8,
    squeezing every 1-D input, dropping the one-linear-piece precondition.
O2: TLC emits the DAGs / requested orders it explores (Gen_ModelPrior); each is instantiated on the REAL elfi with
    exact fake distributions (pdf an injective base-4 polynomial of its arguments, zero on a modular set that depends
    on the parents, logpdf a half-integer piecewise-linear function, rvs a table) and with scipy.stats.uniform.
O3: ModelPrior.pdf / logpdf / gradient_logpdf / rvs are called with scalar / vector / matrix inputs on the quarter
    lattice (inside, on the boundary of and outside the supports); TLC recomputes the product / log sum / derivative /
    shape / positivity from the DAG, the distribution records and the query points (ModelPrior_Trace.tla).
"""
import json
import math
import random
from fractions import Fraction

import numpy as np

from harness.util import Hang, time_limit

B = 4
_COUNTS = {}          # key -> {name: [pdf, logpdf, rvs]}   (distributions are deep-copied by elfi: count by key)
_KEY = [0]


def _count(key, name, i):
    c = _COUNTS.get(key)
    if c is not None:
        c[name][i] += 1


class FakeDist:
    """Exact fake scipy-like distribution (see ModelPriorOps.tla, kind = "fake")."""

    def __init__(self, key, name, d):
        self.key, self.node, self.d = key, name, d
        self.name = "fake_" + name

    @staticmethod
    def _a(x, p):
        x = np.asarray(x, dtype=float)
        p = [np.asarray(v, dtype=float) for v in p] + [np.float64(0.0)] * (2 - len(p))
        return x, p[0], p[1]

    def _zero(self, x, p1, p2):
        d = self.d
        return np.mod(x + d["z"][0] * p1 + d["z"][1] * p2, d["zm"]) == d["zr"]

    def pdf(self, x, *p):
        _count(self.key, self.node, 0)
        x, p1, p2 = self._a(x, p)
        v = self.d["w0"] + np.abs(x) + B * np.abs(p1) + B * B * np.abs(p2)
        return np.where(self._zero(x, p1, p2), 0.0, v)

    def logpdf(self, x, *p):
        _count(self.key, self.node, 1)
        d = self.d
        x, p1, p2 = self._a(x, p)
        kink = np.abs(d["dd"][0] * x + d["dd"][1] * p1 + d["dd"][2] * p2 - d["m"])
        v = 0.5 * (d["l0"] + d["l"][0] * x + d["l"][1] * p1 + d["l"][2] * p2 + d["k"] * kink)
        return np.where(self._zero(x, p1, p2), -np.inf, v)

    def rvs(self, *p, size=1, random_state):
        _count(self.key, self.node, 2)
        t = random_state.randint(0, 4, size=size).astype(float)
        _, p1, p2 = self._a(t, p)
        return np.where(self._zero(t, p1, p2), np.mod(t + 1, 4), t)   # zm in {2, 4}: t+1 mod 4 leaves the zero set


class CountingUniform:
    """scipy.stats.uniform behind a call counter."""

    def __init__(self, key, name):
        self.key, self.node = key, name
        self.name = "uniform_" + name

    def pdf(self, x, *p):
        import scipy.stats as ss
        _count(self.key, self.node, 0)
        return ss.uniform.pdf(x, *p)

    def logpdf(self, x, *p):
        import scipy.stats as ss
        _count(self.key, self.node, 1)
        return ss.uniform.logpdf(x, *p)

    def rvs(self, *p, size=1, random_state):
        import scipy.stats as ss
        _count(self.key, self.node, 2)
        return ss.uniform.rvs(*p, size=size, random_state=random_state)


def _boom(*a, **k):
    raise AssertionError("the simulator must not run while the prior is evaluated")


# ------------------------------------------------------------------------------------------ encoding
def numrec(x):
    """float -> record for TLC: exact fraction when small, fixed point 10^-6, sign."""
    r = dict(k="q", s=0, n=0, d=1, m=0, mv=False)
    try:
        x = float(x)
    except Exception:
        r["k"] = "nan"
        return r
    if x != x:
        r["k"] = "nan"
        return r
    if math.isinf(x):
        r["k"] = "inf" if x > 0 else "-inf"
        r["s"] = 1 if x > 0 else -1
        return r
    r["s"] = (x > 0) - (x < 0)
    if abs(x) < 2000:
        r["m"] = int(round(x * 1e6))
        r["mv"] = True
    fr = Fraction(x)
    if fr.denominator <= 2 ** 20 and abs(fr.numerator) < 2 ** 31:
        r["n"], r["d"] = fr.numerator, fr.denominator
    elif r["mv"]:
        r["k"] = "a"
    else:
        r["k"] = "big"
    return r


def topo_order(params, args):
    done, order = set(), []
    while len(order) < len(params):
        progressed = False
        for n in params:
            if n not in done and all(a["t"] == "c" or a["p"] in done for a in args[n]):
                done.add(n)
                order.append(n)
                progressed = True
        if not progressed:
            raise ValueError("cyclic DAG")
    return order


def build(sc, key):
    """The real ElfiModel of the scenario."""
    import elfi
    m = elfi.ElfiModel(name="c08_%d" % key)
    refs = {}
    for n in topo_order(sc["params"], sc["args"]):
        d = sc["dist"][n]
        if d["kind"] == "fake":
            dist = FakeDist(key, n, d)
        elif d.get("byname"):
            dist = "uniform"
        else:
            dist = CountingUniform(key, n)
        a = []
        for arg in sc["args"][n]:
            if arg["t"] == "p":
                a.append(refs[arg["p"]])
            else:
                c = arg["c"] / 4.0
                a.append(int(c) if (c == int(c) and d.get("intconst")) else c)
        refs[n] = elfi.Prior(dist, *a, model=m, name=n)
    if sc.get("sim"):
        s = elfi.Simulator(_boom, *[refs[n] for n in sc["params"]], model=m, name="sim", observed=np.zeros(1))
        elfi.Summary(_boom, s, model=m, name="summ")
    return m


def _x_of(call, dim, unit):
    rows = [[v / float(unit) for v in r] for r in call["rows"]]
    if call.get("dtype") == "i":
        rows = [[int(v) for v in r] for r in rows]
    nd = call["ndim"]
    if nd == 0:
        x = rows[0][0]
    elif nd == 1:
        x = rows[0] if dim > 1 else [r[0] for r in rows]
    else:
        x = rows
    if call.get("form", "array") == "array":
        x = np.array(x, dtype=int if call.get("dtype") == "i" else float)
    return x


def _vals(out, cap=64):
    try:
        arr = np.asarray(out, dtype=float)
        return list(arr.shape), [numrec(v) for v in arr.ravel()[:cap]]
    except Exception:
        return [9, 9, 9], []


def record(sc):
    """Build the model, construct the ModelPrior, make the calls; return the trace."""
    _KEY[0] += 1
    key = _KEY[0]
    unit = sc["unit"]
    params = sc["params"]
    names = sc["names"]
    dim = len(names)
    counts = {n: [0, 0, 0] for n in params}
    _COUNTS.clear()
    _COUNTS[key] = counts
    scale = unit // 4
    tr = dict(unit=unit, params=params, names=names, mech=True, cons="ok", calls=[],
              args={n: [dict(t=a["t"], p=a.get("p", ""), c=a.get("c", 0) * scale) for a in sc["args"][n]] for n in params},
              dist={n: {k: sc["dist"][n][k] for k in ("kind", "w0", "zm", "zr", "z", "l0", "l", "k", "dd", "m")} for n in params})
    prior = None
    try:
        with time_limit(60):
            from elfi.model.extensions import ModelPrior
            m = build(sc, key)
            prior = ModelPrior(m, parameter_names=None if sc.get("default_names") else list(names))
    except Hang:
        tr["cons"] = "hang"
    except Exception as ex:
        tr["cons"] = "raise"
        tr["exc"] = "%s: %s" % (type(ex).__name__, str(ex)[:200])
    if prior is None:
        return tr
    uncounted = {n for n in params if sc["dist"][n]["kind"] == "unif" and sc["dist"][n].get("byname")}
    bufs = {}

    def arg(call):
        x = _x_of(call, dim, unit)
        if not sc.get("inplace") or not isinstance(x, np.ndarray):
            return x
        b = bufs.get((x.shape, x.dtype.str))
        if b is None:
            b = bufs[(x.shape, x.dtype.str)] = x.copy()
        else:
            b[...] = x            # the same array object, new content
        return b

    def take(out):
        r = _vals(out)
        if sc.get("inplace") and isinstance(out, np.ndarray) and out.ndim > 0 and out.flags.writeable:
            out[...] = -777.0     # the caller reuses what it was handed
        return r
    for call in sc["calls"]:
        for n in params:
            counts[n][:] = [0, 0, 0]
        e = dict(op=call["op"], ndim=call.get("ndim", 0), rows=call.get("rows", []), hu=call.get("hu", 0),
                 size=call.get("size", 0), res="val", shape=[], vals=[], pv=[], lv=[], cnt={})
        try:
            with time_limit(60):
                if call["op"] == "pdf":
                    e["shape"], e["vals"] = take(prior.pdf(arg(call)))
                elif call["op"] == "logpdf":
                    e["shape"], e["vals"] = take(prior.logpdf(arg(call)))
                elif call["op"] == "grad":
                    x = _x_of(call, dim, unit)
                    if call.get("hu", 0):
                        out = prior.gradient_logpdf(x, stepsize=call["hu"] / float(unit))
                    else:
                        out = prior.gradient_logpdf(x)
                    e["shape"], e["vals"] = _vals(out)
                else:
                    rs = np.random.RandomState(call["seed"])
                    draws = prior.rvs(size=call["size"] or None, random_state=rs)
                    e["shape"] = list(np.shape(draws))
                    flat = np.asarray(draws, dtype=float).ravel()
                    ok = flat.size % dim == 0 and flat.size <= 64 and np.all(np.isfinite(flat)) and np.all(np.abs(flat) < 2000)
                    if ok and unit == 4:
                        ok = bool(np.all(flat * 4 == np.round(flat * 4)))
                    e["rows"] = [[int(round(v * unit)) for v in r] for r in flat.reshape((-1, dim))] if ok else []
                    _, e["pv"] = _vals(prior.pdf(draws))
                    _, e["lv"] = _vals(prior.logpdf(draws))
        except Hang:
            e["res"] = "hang"
        except Exception as ex:
            e["res"] = "raise"
            e["exc"] = "%s: %s" % (type(ex).__name__, str(ex)[:200])
        e["cnt"] = {n: ([-1, -1, -1] if n in uncounted else list(counts[n])) for n in params}
        tr["calls"].append(e)
    _COUNTS.clear()
    return tr


# ------------------------------------------------------------------------------------------ generation
def fake_record(rnd, grad=False):
    zm = 4 if rnd.random() < 0.7 else 2
    return dict(kind="fake", w0=rnd.randint(2, 4), zm=zm, zr=rnd.randrange(zm), z=[rnd.randint(0, 1), rnd.randint(0, 1)],
                l0=rnd.randint(-3, 3), l=[rnd.randint(-3, 3) for _ in range(3)], k=rnd.choice([0, 1, -1, 2, -2, 3]),
                dd=[rnd.choice([-1, 0, 1, 1]) for _ in range(3)], m=rnd.randint(0, 2))


def unif_record(rnd):
    return dict(kind="unif", w0=0, zm=1, zr=0, z=[0, 0], l0=0, l=[0, 0, 0], k=0, dd=[0, 0, 0], m=0,
                byname=rnd.random() < 0.4)


def random_dag(rnd, n, max_args=2):
    """Random prior DAG over the first n letters; the topological order is unrelated to the names."""
    params = ["a", "b", "c", "d"][:n]
    order = list(params)
    rnd.shuffle(order)
    args = {}
    for i, x in enumerate(order):
        k = rnd.randint(0, max_args)
        pool = order[:i]
        a, used = [], set()
        for _ in range(k):
            cand = [p for p in pool if p not in used]
            if cand and rnd.random() < 0.6:
                p = rnd.choice(cand)
                used.add(p)
                a.append(dict(t="p", p=p, c=0))
            else:
                a.append(dict(t="c", p="", c=0))
        args[x] = a
    return params, args


def closed_orders(rnd, params, args):
    """A random ordered subset closed under parameter-parents."""
    k = rnd.randint(1, len(params))
    chosen = set(rnd.sample(params, k))
    while True:
        more = {a["p"] for n in chosen for a in args[n] if a["t"] == "p"} - chosen
        if not more:
            break
        chosen |= more
    out = sorted(chosen)
    rnd.shuffle(out)
    return out


def is_closed(args, names):
    return all(a["t"] == "c" or a["p"] in names for n in names for a in args[n])


def instantiate(rnd, params, args, names, mode):
    """Choose distributions, constants and the calls for one (DAG, requested order)."""
    args = {n: [dict(a) for a in args[n]] for n in params}
    children = {n: [(c, i) for c in params for i, a in enumerate(args[c]) if a["t"] == "p" and a["p"] == n] for n in params}
    order = topo_order(params, args)
    dist = {}
    p_unif = {"val": 0.45, "grad": 0.3, "rvs": 0.4}[mode]
    for n in order:
        kind = "unif" if rnd.random() < p_unif else "fake"
        if mode == "rvs" and kind == "fake" and any(dist[a["p"]]["kind"] == "unif" for a in args[n] if a["t"] == "p"):
            kind = "unif"          # float parents leave the exact domain of a fake node's zero set
        dist[n] = unif_record(rnd) if kind == "unif" else fake_record(rnd)
        dist[n]["intconst"] = rnd.random() < 0.5
    # the scale argument of a uniform node: a parameter only where the density stays decidable
    for n in order:
        if dist[n]["kind"] == "unif" and len(args[n]) == 2 and args[n][1]["t"] == "p":
            par = args[n][1]["p"]
            bad = mode == "grad" and rnd.random() < 0.8
            if mode == "rvs":
                pa = args[par]
                bad = not (dist[par]["kind"] == "unif" and len(pa) >= 1 and pa[0]["t"] == "c")
            if bad:
                args[n][1] = dict(t="c", p="", c=0)
    for n in order:
        for i, a in enumerate(args[n]):
            if a["t"] == "c":
                if dist[n]["kind"] == "fake":
                    a["c"] = 4 * rnd.randint(0, 3)
                elif i == 0:
                    a["c"] = rnd.randint(-4, 8)
                else:
                    a["c"] = rnd.choice([2, 4, 4, 8, 8, 16])
    children = {n: [(c, i) for c in params for i, a in enumerate(args[c]) if a["t"] == "p" and a["p"] == n] for n in params}
    if mode == "rvs":
        for n in order:          # a uniform whose draw is used as a scale: loc >= 1/4
            for c, i in children[n]:
                if dist[c]["kind"] == "unif" and i == 1 and args[n] and args[n][0]["t"] == "c":
                    args[n][0]["c"] = rnd.choice([1, 2, 4, 8])
    unit = 4
    if mode == "rvs" and any(dist[n]["kind"] == "unif" for n in names) :
        unit = 1000000
    # closure may have been kept: names is closed under the (possibly reduced) parameter arguments
    sc = dict(params=params, args=args, dist=dist, names=names, unit=unit, mode=mode,
              default_names=(names == sorted(params) and rnd.random() < 0.6), sim=rnd.random() < 0.4, calls=[])
    dim = len(names)

    def needs_int(q):
        return dist[q]["kind"] == "fake" or any(dist[c]["kind"] == "fake" for c, _ in children[q] if c in names)

    def is_scale(q):
        return any(dist[c]["kind"] == "unif" and i == 1 for c, i in children[q] if c in names)

    def point(integer=False):
        val = {}
        for n in order:
            if n not in names:
                continue
            if integer:           # an integer point (may be passed with an integer dtype)
                v = 4 * (rnd.choice([1, 2, 4]) if is_scale(n) else rnd.randint(-1, 4))
            elif is_scale(n):
                if rnd.random() < 0.85:
                    v = rnd.choice([4, 8, 16] if needs_int(n) else [2, 4, 8, 16])
                else:
                    v = rnd.choice([0, -4, 12, 3])
            elif dist[n]["kind"] == "fake" or (needs_int(n) and rnd.random() < 0.9):
                if mode != "grad":
                    v = 4 * rnd.randint(-1, 4)
                else:       # mostly off the integer points (where the zero sets live), so that whole stencils are inside
                    v = rnd.randint(-4, 16) if rnd.random() < 0.3 else 4 * rnd.randint(-1, 3) + rnd.choice([1, 2, 2, 3])
            else:
                a = [val.get(x["p"], 0) if x["t"] == "p" else x["c"] for x in args[n]]
                loc = a[0] if len(a) >= 1 else 0
                sca = a[1] if len(a) >= 2 else 4
                if needs_int(n) and rnd.random() < 0.9:
                    lo = -((-loc) // 4)
                    v = 4 * rnd.choice([lo - 1, lo, lo + 1, (loc + max(sca, 0)) // 4, (loc + max(sca, 0)) // 4 + 1])
                else:
                    r = rnd.random()
                    if sca <= 0:
                        v = loc + rnd.randint(-4, 4)
                    elif r < 0.45:
                        v = loc + rnd.randint(0, sca)
                    else:
                        v = rnd.choice([loc - 1, loc, loc + 1, loc + sca - 1, loc + sca, loc + sca + 1])
            val[n] = v
        return [val[n] for n in names]

    def shape_choice():
        if dim == 1:
            nd = rnd.choice([0, 1, 1, 2])
        else:
            nd = rnd.choice([1, 2, 2])
        nrows = 1 if (nd == 0 or (nd == 1 and dim > 1)) else rnd.choice([1, 2, 3, 5])
        return nd, nrows

    if mode == "val" and rnd.random() < 0.3:
        # the caller's loop: ONE argument buffer refilled in place between calls, returned arrays overwritten by the caller
        sc["inplace"] = True
        nd, nrows = shape_choice()
        if nd == 0:
            nd = 1
        pts = [[point() for _ in range(nrows)] for _k in range(rnd.randint(2, 4))]
        for op in rnd.choice([("logpdf", "pdf"), ("pdf", "logpdf"), ("logpdf",)]):
            for rows in pts:
                sc["calls"].append(dict(op=op, ndim=nd, rows=rows, form="array", dtype="f"))
    elif mode == "val":
        for _ in range(rnd.randint(1, 2)):
            nd, nrows = shape_choice()
            rows = [point() for _ in range(nrows)]
            allint = all(v % 4 == 0 for r in rows for v in r)
            form = rnd.choice(["array", "list"])
            dt = "i" if (allint and rnd.random() < 0.25) else "f"
            for op in ("pdf", "logpdf"):
                sc["calls"].append(dict(op=op, ndim=nd, rows=rows, form=form, dtype=dt))
    elif mode == "grad":
        for _ in range(rnd.randint(1, 2)):
            nd, nrows = shape_choice()
            integer = rnd.random() < 0.3
            rows = [point(integer) for _ in range(min(nrows, 3))]
            allint = all(v % 4 == 0 for r in rows for v in r)
            sc["calls"].append(dict(op="grad", ndim=nd, rows=rows, hu=rnd.choice([0, 0, 1, 1, 2, 4]), form=rnd.choice(["array", "list"]),
                                    dtype="i" if (allint and rnd.random() < 0.5) else "f"))
            sc["calls"].append(dict(op="logpdf", ndim=nd, rows=rows, form="array", dtype="f"))
    else:
        for _ in range(2):
            sc["calls"].append(dict(op="rvs", size=rnd.choice([0, 1, 2, 5]), seed=rnd.randint(0, 2 ** 31 - 1)))
    return sc


def u_rec(byname=False):
    d = unif_record(random.Random(0))
    d["byname"] = byname
    return d


# the DESIGN.md example of F8: b ~ U(a, a+2) is omitted, the joint still multiplies its density at a drawn value
PINNED_F8 = dict(params=["a", "b"], args=dict(a=[dict(t="c", p="", c=0), dict(t="c", p="", c=8)], b=[dict(t="p", p="a", c=0), dict(t="c", p="", c=8)]),
                 dist=dict(a=u_rec(True), b=u_rec(True)), names=["a"], unit=4, mode="val", default_names=False, sim=False, pinned="F8",
                 calls=[dict(op="pdf", ndim=0, rows=[[2]], form="list", dtype="f"), dict(op="logpdf", ndim=1, rows=[[2], [8], [9]], form="array", dtype="f")])
# F27: integer-typed point, half-integer slope (logpdf = (1 + 2x - |x - 1|) / 2): gradient 1/2 at x = 2, 3/2 at x = 0
PINNED_F27 = dict(params=["a"], args=dict(a=[]),
                  dist=dict(a=dict(kind="fake", w0=2, zm=4, zr=3, z=[0, 0], l0=1, l=[2, 0, 0], k=-1, dd=[1, 0, 0], m=1)),
                  names=["a"], unit=4, mode="grad", default_names=True, sim=False, pinned="F27",
                  calls=[dict(op="grad", ndim=1, rows=[[8], [0]], hu=2, form="array", dtype="f"),
                         dict(op="grad", ndim=1, rows=[[8], [0]], hu=2, form="array", dtype="i"),
                         dict(op="grad", ndim=0, rows=[[8]], hu=0, form="list", dtype="i")])


def emitted(ctx, names_const, max_args, topo_only):
    cfg = """SPECIFICATION Spec
CONSTANTS
  Names <- %s
  MaxArgs = %d
  Fixed = TRUE
  TopoOnly = %s
  Phases = {1}
  Attrs = {"pdf"}
  GradXs <- GXq
  GradHs <- GHq
INVARIANT Emit
CHECK_DEADLOCK FALSE
""" % (names_const, max_args, "TRUE" if topo_only else "FALSE")
    r = ctx.tlc("Gen_ModelPrior", "Gen_ModelPrior_%s_%d%s" % (names_const, max_args, "t" if topo_only else ""), cfg_text=cfg, workers=1, coverage=False,
                timeout=900, label="emit DAGs %s MaxArgs=%d" % (names_const, max_args))
    out = []
    for p in r.printed:
        if isinstance(p, list) and p and p[0] == "G":
            out.append(json.loads(p[1]))
    return out


def scenarios(ctx):
    rnd = random.Random(ctx.seed)
    out = [json.loads(json.dumps(PINNED_F8)), json.loads(json.dumps(PINNED_F27))]
    if ctx.quick:       # the quick tier emits the topologically named 3-parameter DAGs and the 1-argument ones in any name order
        em = emitted(ctx, "N3", 2, True) + emitted(ctx, "N3", 1, False)
    else:
        em = emitted(ctx, "N3", 2, False)
    em2 = emitted(ctx, "N2", 2, False)
    n_em = len(em) + len(em2)
    take = rnd.sample(em, min(len(em), 700 if ctx.quick else len(em))) + em2
    for g in take:
        params = sorted(g["args"])
        mode = rnd.choice(["val", "val", "val", "grad", "rvs"])
        out.append(instantiate(rnd, params, g["args"], g["names"], mode))
    n_emitted_used = len(out) - 2
    n_rand = 600 if ctx.quick else 8000
    for _ in range(n_rand):
        params, args = random_dag(rnd, rnd.choice([1, 2, 3, 4, 4, 4]))
        names = closed_orders(rnd, params, args)
        mode = rnd.choice(["val", "val", "grad", "grad", "rvs"])
        sc = instantiate(rnd, params, args, names, mode)
        if not is_closed(sc["args"], sc["names"]):
            continue
        out.append(sc)
    return out, n_em, n_emitted_used


def classify(sc, tr, v):
    """Specific classifiers of the two findings of this property."""
    if set(sc["names"]) != set(sc["params"]):
        return "F8"
    if v["verdict"] == "P:grad" and 0 < v["l"] - 1 <= len(sc["calls"]):
        c = sc["calls"][v["l"] - 2]
        if c["op"] == "grad" and c.get("dtype") == "i":
            return "F27"
    return None


def check_scenarios(ctx, scs):
    traces = [record(sc) for sc in scs]
    chunk = max(50, -(-len(traces) // 8))
    verdicts = ctx.validate("ModelPrior_Trace", traces, chunk=chunk, timeout=1800)
    for sc, tr, v in zip(scs, traces, verdicts):
        key = json.dumps([sc["args"], sc["names"], sc["dist"], sc["calls"]], sort_keys=True, default=str)
        nontrivial = len(sc["params"]) >= 2 and any(a["t"] == "p" for n in sc["names"] for a in sc["args"][n])
        ctx.case(key, nontrivial=nontrivial)
        ctx.trace_events += len(tr["calls"])
        if v["verdict"] != "ok":
            at = v["l"] - 2
            ev = tr["calls"][at] if 0 <= at < len(tr["calls"]) else None
            ctx.fail(v["verdict"], sc, detail=dict(at_call=at, event=ev, cons=tr["cons"], exc=tr.get("exc")),
                     finding=classify(sc, tr, v))
        elif v["drift"]:
            ctx.drifted(v["drift"], sc)
    return traces


CONTROL = dict(params=["a", "b"], args=dict(a=[], b=[dict(t="p", p="a", c=0), dict(t="c", p="", c=4)]),
               dist=dict(a=dict(kind="fake", w0=2, zm=4, zr=3, z=[0, 0], l0=1, l=[2, 0, 0], k=-1, dd=[1, 0, 0], m=1),
                         b=dict(kind="fake", w0=3, zm=4, zr=3, z=[0, 0], l0=-2, l=[1, -3, 2], k=2, dd=[1, -1, 0], m=0)),
               names=["b", "a"], unit=4, mode="val", default_names=False, sim=False, pinned="control",
               calls=[dict(op="pdf", ndim=2, rows=[[4, 8], [0, 4]], form="array", dtype="f"),
                      dict(op="logpdf", ndim=2, rows=[[4, 8], [0, 4]], form="array", dtype="f")])


def corruption_control(ctx):
    """T5 of DESIGN section 4: a recorded trace with ONE returned field altered must be rejected by TLC."""
    from harness import tlc
    base = record(json.loads(json.dumps(CONTROL)))
    variants = []
    t = json.loads(json.dumps(base))
    t["calls"][0]["vals"][1]["n"] += 1
    variants.append(("P:product", t))
    t = json.loads(json.dumps(base))
    t["calls"][1]["vals"][0]["m"] += 500000
    variants.append(("P:log-consistent", t))
    t = json.loads(json.dumps(base))
    t["calls"][0]["shape"] = [2, 1]
    variants.append(("P:shape", t))
    t = json.loads(json.dumps(base))
    t["calls"][0]["rows"][0] = [12, 8]          # b = 3 lies in b's zero set: the logged positive value is wrong there
    variants.append(("P:zero-iff", t))
    vs = ctx.validate("ModelPrior_Trace", [base] + [v[1] for v in variants], name="control")
    if vs[0]["verdict"] != "ok":
        return      # the code under test fails the control scenario itself: reported through the pinned scenarios
    for (want, _), v in zip(variants, vs[1:]):
        if v["verdict"] != want:
            raise tlc.MachineryFailure("corrupted control trace: expected %s, TLC said %s" % (want, v["verdict"]))
    ctx.negative_controls.append(dict(run="corrupted recorded traces (value, log value, shape, zero point)", refuted=[v[0] for v in variants]))


def mc_cfg(names, max_args, fixed, topo, phases, invs, big=False, attrs=("pdf", "logpdf")):
    return """SPECIFICATION Spec
CONSTANTS
  Names <- %s
  MaxArgs = %d
  Fixed = %s
  TopoOnly = %s
  Phases = {%s}
  Attrs = {%s}
  GradXs <- %s
  GradHs <- %s
%s
CHECK_DEADLOCK FALSE
""" % (names, max_args, "TRUE" if fixed else "FALSE", "TRUE" if topo else "FALSE", ", ".join(str(p) for p in phases),
       ", ".join('"%s"' % a for a in attrs), "GXt" if big else "GXq", "GHt" if big else "GHq", "\n".join("INVARIANT " + i for i in invs))


def run(ctx):
    ctx.rule = ("prior DAGs emitted by TLC from ModelPrior.tla (every DAG over <= 3 parameters with <= 2 distribution arguments that are "
                "constants or other parameters, every requested order of every parent-closed subset; sampled in the quick tier) plus seeded "
                "random DAGs over 1-4 parameters (name order unrelated to topological order); each instantiated on the real elfi with exact "
                "fake distributions and scipy.stats.uniform (by name and as object), optionally below a simulator that must not run; "
                "pdf/logpdf on scalar / vector / matrix inputs (lists, float and integer arrays) at quarter-lattice points inside, on the "
                "boundary of and outside the supports; gradient_logpdf with default and dyadic step sizes; rvs(size in None,1,2,5).  "
                "Non-trivial = at least two parameters and a parameter-valued distribution argument among the requested ones.")
    ctx.clauses_decided = ["a: pdf = product of the conditional densities at the point (exact rational)",
                           "b: logpdf = sum of the conditional log densities (exact half-integers; uniform: -K ln 2 within 4e-6); 0 / -inf iff a factor is zero",
                           "c: draws have positive density (spec-side support membership and the object's own pdf / logpdf)",
                           "d: shapes for scalar / 1-D / 2-D inputs, dim 1..4, rvs sizes",
                           "e: gradient_logpdf = derivative on piecewise-linear log densities (default and dyadic steps, float and integer points)"]
    ctx.clauses_not_decided = ["e for smooth log densities (central difference inexact) and at points whose stencil touches a kink or the support boundary",
                               "points where a conditional's distribution parameters are invalid (uniform scale <= 0: scipy returns nan)",
                               "requested subsets not closed under parameter-parents (the conditional depends on an unspecified value)",
                               "the same parameter twice among one distribution's arguments (F20 of C03)",
                               "density values of non-uniform scipy distributions (transcendental)",
                               "gradient_logpdf with a per-dimension stepsize list (outside the statement; raises TypeError for dim > 1)"]
    ctx.trusted_base += ["scipy.stats.uniform (1/scale on the closed support)", "fractions.Fraction(float) (exact encoding of returned floats)"]
    ctx.assumptions += ["exact sub-domain: quarter-lattice points, integer arguments for the fake densities, power-of-two uniform scales"]
    inv1 = ["TermTheorem", "RunsOnlyPdfNodes"]
    allinv = inv1 + ["ShapeTheorem", "GradTheorem", "ZeroIff"]
    acts1 = ["PickNames", "PickDag"]
    ctx.tlc("MC_ModelPrior", "MC_ModelPrior_N3topo", cfg_text=mc_cfg("N3", 2, True, True, [1, 2, 3], allinv),
            expect_actions=acts1 + ["PickShape", "PickGradDist", "PickGrad"], workers=8, timeout=900)
    ctx.tlc("MC_ModelPrior", "MC_ModelPrior_N3any1", cfg_text=mc_cfg("N3", 1, True, False, [1], inv1), expect_actions=acts1, workers=8, timeout=900)
    ctx.tlc("MC_ModelPrior", "MC_ModelPrior_negF8", cfg_text=mc_cfg("N3", 1, False, False, [1], ["TermTheorem"]), expect_ok=False, workers=8, timeout=600)
    ctx.tlc("MC_ModelPrior", "MC_ModelPrior_negShape", cfg_text=mc_cfg("N2", 1, True, False, [2], ["SqueezeAll1D"]), expect_ok=False, workers=8, timeout=600)
    if not ctx.quick:
        ctx.tlc("MC_ModelPrior", "MC_ModelPrior_negGrad", cfg_text=mc_cfg("N2", 1, True, False, [3], ["GradEverywhere"]), expect_ok=False, workers=8, timeout=600)
        ctx.tlc("MC_ModelPrior", "MC_ModelPrior_N3any2", cfg_text=mc_cfg("N3", 2, True, False, [1, 3], inv1 + ["GradTheorem", "ZeroIff"], big=True),
                expect_actions=acts1 + ["PickGrad"], workers=8, timeout=1800)
        ctx.tlc("MC_ModelPrior", "MC_ModelPrior_N4any1", cfg_text=mc_cfg("N4", 1, True, False, [1], inv1), expect_actions=acts1, workers=8, timeout=1800)
        ctx.tlc("MC_ModelPrior", "MC_ModelPrior_N4topo2", cfg_text=mc_cfg("N4", 2, True, True, [1], inv1, attrs=("pdf",)), expect_actions=acts1, workers=8, timeout=3000)
    corruption_control(ctx)
    scs, n_em, n_used = scenarios(ctx)
    scs.insert(2, json.loads(json.dumps(CONTROL)))
    traces = check_scenarios(ctx, scs)
    ctx.exhaustive = not ctx.quick
    ctx.notes.append("%d (DAG, requested order) pairs emitted by TLC, %d instantiated; %d random DAG scenarios; %d calls"
                     % (n_em, n_used, len(scs) - n_used - 3, sum(len(t["calls"]) for t in traces)))
    for i in (0, 1, 5, len(scs) // 2, len(scs) - 1):
        if i < len(scs):
            ctx.sample(dict(scenario={k: scs[i][k] for k in ("params", "args", "names", "unit", "mode")},
                            dist={n: scs[i]["dist"][n]["kind"] for n in scs[i]["params"]},
                            calls=[dict(op=e["op"], rows=e["rows"][:2], res=e["res"], shape=e["shape"],
                                        vals=[(v["k"], v["n"], v["d"], v["m"]) for v in e["vals"][:3]]) for e in traces[i]["calls"][:2]]))


def replay(ctx, scenario):
    check_scenarios(ctx, [scenario])

"""C20 - BSL: synthetic likelihood and its Metropolis-Hastings step are the stated ones.

O1: SynLik.tla (synthetic likelihoods on small integer data: table consistency, det lemma, support of the
    unbiased estimator, whitening equivariance, zero-gamma; negative controls: pre-F21 log|M|, pre-F32 missing
    positive-definiteness test, "whitening leaves the likelihood unchanged"), BslMh.tla (transform lattice:
    inverse, Jacobian = derivative, reciprocity, detailed balance; negative controls: pre-F17 sign, ratio without
    Jacobian), BslRound.tla (ModelBased/BSL round machine under an adversarial client: no simulation for
    out-of-support proposals, chain length, rounds aligned, the current side of every ratio is the posterior of
    the current state (stored log-prior copied on rejection); negative controls: _allow_submit without the round
    gate, simulate-then-reject, log-prior not copied in a robust run).
O3: * the static transform helpers on the lattice and on random points, the Jacobian helper, and
      BSL._get_mh_ratio() on sampler states constructed at the statement's observation point, with the
      arguments the Jacobian helper receives recorded by a harness subclass          -> BslMh_Trace.tla
    * the likelihood functions on lattice matrices (standard with integer / dyadic whitening and Warton
      shrinkage, unbiased, mean- and variance-adjusted)                                -> SynLik_Trace.tla
    * real BSL.sample runs on id-valued models whose prior, simulator and likelihood are harness
      operations that log what they are asked: "scripted" runs (a scripted generator object in place of
      sampler.random_state puts every proposal and every uniform draw on the exact lattice, so TLC
      recomputes every accept / reject decision) and "seeded" runs (elfi's own RandomState, real noisy
      simulator, real gaussian_syn_likelihood; and robust runs with syn_likelihood_misspec 'mean' / 'variance'
      and its gamma sampler under narrow uniform priors), natively and through the scheduled client; in seeded
      runs a recording subclass logs the two log-posteriors entering every MH ratio with oracle fields
      (likelihood / gamma-sampler values, scipy prior log density of each state)
                                                                                        -> BslRound_Trace.tla
TLC decides every verdict; the Fraction arithmetic below only GENERATES inputs (lattice points as floats).
"""
import itertools
import math
import random
import time
from fractions import Fraction
from functools import partial

import numpy as np

from harness import tlc
from harness.util import Hang, time_limit

UNIT = 1000000
INF = float("inf")


# ================================================================== encoding
def fxv(x):
    """float -> (res, fixed-point int): res in val | big | inf | -inf | nan"""
    x = float(x)
    if x != x:
        return "nan", 0
    if x == INF:
        return "inf", 0
    if x == -INF:
        return "-inf", 0
    if abs(x) >= 2147.0:
        return "big", 0
    return "val", int(round(x * UNIT))


def fx0(x):
    """fixed point, non-finite / too large -> the reserved code 2147000000 (never matches)"""
    r, v = fxv(x)
    return v if r == "val" else 2147000000


def q(fr):
    fr = Fraction(fr)
    return [fr.numerator, fr.denominator]


def fr(qq):
    return Fraction(qq[0], qq[1])


# ================================================================== the transform lattice (generation only)
def back_fr(p, E):
    """rational parameter value of the transformed lattice point E = e^tt (type 3: tt itself)"""
    ty, a, b = p
    E = Fraction(E)
    if ty == 0:
        return (a + b * E) / (1 + E)
    if ty == 1:
        return b - 1 / E
    if ty == 2:
        return a + E
    return E


def tt_float(p, E):
    """the transformed point as the float the code works with"""
    return float(E) if p[0] == 3 else math.log(Fraction(E))


def bound_row(p):
    ty, a, b = p
    return [-INF if ty in (1, 3) else float(a), INF if ty in (2, 3) else float(b)]


POINTS = [Fraction(1, 3), Fraction(1, 2), Fraction(1), Fraction(2), Fraction(3)]
INT_POINTS = [Fraction(-2), Fraction(-1), Fraction(0), Fraction(1), Fraction(3)]
KINDS = [(0, 0, 1), (0, 0, 2), (0, 0, 4), (0, -1, 1), (0, 1, 5), (0, -2, -1),
         (1, 0, 4), (1, 0, -1), (1, 0, 0), (2, 1, 0), (2, -3, 0), (2, 0, 0), (3, 0, 0)]
POSTS = [Fraction(1, 4), Fraction(1, 2), Fraction(1), Fraction(3, 2), Fraction(2), Fraction(5)]


def points_of(p):
    return INT_POINTS if p[0] == 3 else POINTS


# ================================================================== a small real model for sampler states
_MH_MODELS = {}


def mh_model(p):
    """A real ElfiModel with p parameters and one summary (only the sampler object is needed)."""
    import elfi
    if p in _MH_MODELS:
        return _MH_MODELS[p]
    m = elfi.ElfiModel(name="c20mh%d" % p)
    for k in range(p):
        elfi.Prior("norm", 0, 10, model=m, name="t%d" % (k + 1))

    def sim(*ts, batch_size=1, random_state=None):
        return np.zeros((batch_size, 1))

    elfi.Simulator(sim, *[m["t%d" % (k + 1)] for k in range(p)], model=m, name="sim", observed=np.zeros((1, 1)))
    elfi.Summary(lambda y: y[:, 0], m["sim"], model=m, name="S1")
    _MH_MODELS[p] = m
    return m


_REC = {}


def rec_bsl_class():
    """BSL with a Jacobian helper that records its arguments and then delegates to the real one."""
    if "cls" in _REC:
        return _REC["cls"]
    from elfi.methods.inference.bsl import BSL

    class RecBSL(BSL):
        jac_args = []

        @staticmethod
        def _jacobian_logit_transform(theta_tilde, bound):
            RecBSL.jac_args.append(np.array(theta_tilde, dtype=float).ravel().copy())
            return BSL._jacobian_logit_transform(theta_tilde, bound)

    _REC["cls"] = RecBSL
    return RecBSL


MH_DEF = dict(ev="", E=[], E2=[], pE=[], cE=[], pq=[1, 1], cq=[1, 1], cz=False, tb=True, res="ok", th=[], tt=[], rt1=[], rt2=[],
              x=[], err=[], out=0, ores="val", jc=[], jp=[], nj=0)


def mh_event(**kw):
    e = dict(MH_DEF)
    e.update(kw)
    return e


def record_mh(sc):
    """One parameter vector; events on the static helpers and on _get_mh_ratio."""
    from elfi.methods.inference.bsl import BSL
    ps = [tuple(p) for p in sc["ps"]]
    bound = np.array([bound_row(p) for p in ps], dtype=float)
    events = []
    RecBSL = rec_bsl_class()
    try:
        with time_limit(60):
            b = RecBSL(mh_model(len(ps)), 2, batch_size=2, seed=1)
    except Exception as ex:
        raise tlc.MachineryFailure("cannot construct a BSL object: %r" % ex)
    for it in sc["items"]:
        kind = it["ev"]
        try:
            with time_limit(20), np.errstate(all="ignore"):
                if kind == "inv":
                    E = [fr(e) for e in it["E"]]
                    tt = np.array([tt_float(p, e) for p, e in zip(ps, E)])
                    th_exact = np.array([float(back_fr(p, e)) for p, e in zip(ps, E)])
                    th = BSL._para_logit_back_transform(tt.copy(), bound)
                    rt1 = BSL._para_logit_transform(np.array(th, dtype=float), bound)
                    t2 = BSL._para_logit_transform(th_exact.copy(), bound)
                    rt2 = BSL._para_logit_back_transform(np.array(t2, dtype=float), bound)
                    events.append(mh_event(ev="inv", E=it["E"], th=[fx0(v) for v in th], tt=[fx0(v) for v in t2],
                                           rt1=[fx0(v) for v in rt1], rt2=[fx0(v) for v in rt2]))
                elif kind == "invr":
                    x = np.array([v / UNIT for v in it["x"]], dtype=float)
                    t = BSL._para_logit_transform(x.copy(), bound)
                    back = BSL._para_logit_back_transform(np.array(t, dtype=float), bound)
                    err = []
                    for v0, v1 in zip(x, back):
                        d = (float(v1) - float(v0)) * 1e12
                        err.append(int(max(-2e9, min(2e9, round(d)))) if d == d else 2000000000)
                    events.append(mh_event(ev="invr", x=it["x"], err=err))
                elif kind == "jac":
                    # only DIFFERENCES of log J enter the property: log J(E) - log J(E2)
                    t1 = np.array([tt_float(p, fr(e)) for p, e in zip(ps, it["E"])])
                    t2 = np.array([tt_float(p, fr(e)) for p, e in zip(ps, it["E2"])])
                    r, v = fxv(BSL._jacobian_logit_transform(t1, bound) - BSL._jacobian_logit_transform(t2, bound))
                    events.append(mh_event(ev="jac", E=it["E"], E2=it["E2"], ores=r, out=v))
                elif kind == "mh":
                    pE = [fr(e) for e in it["pE"]]
                    cE = [fr(e) for e in it["cE"]]
                    b.state["params"] = np.array([[float(back_fr(p, e)) for p, e in zip(ps, pE)],
                                                  [float(back_fr(p, e)) for p, e in zip(ps, cE)]])
                    lp = math.log(fr(it["pq"]))
                    lc = -INF if it["cz"] else math.log(fr(it["cq"]))
                    b.state["logposterior"] = np.array([lp, lc])
                    b.state["logprior"] = np.zeros(2)
                    b.state["n_samples"] = 1
                    b.logit_transform_bound = bound.copy() if it["tb"] else None
                    RecBSL.jac_args = []
                    r, v = fxv(b._get_mh_ratio())
                    ja = list(RecBSL.jac_args)
                    events.append(mh_event(ev="mh", pE=it["pE"], cE=it["cE"], pq=it["pq"], cq=it["cq"], cz=it["cz"], tb=it["tb"],
                                           ores=r, out=v, nj=len(ja),
                                           jc=[fx0(v) for v in ja[0]] if len(ja) > 0 else [],
                                           jp=[fx0(v) for v in ja[1]] if len(ja) > 1 else []))
                else:
                    raise ValueError(kind)
        except Hang:
            events.append(mh_event(ev=kind, res="hang", **{k: it[k] for k in ("E", "E2", "pE", "cE", "pq", "cq", "cz", "tb", "x") if k in it}))
        except tlc.MachineryFailure:
            raise
        except Exception as ex:   # raised by elfi on a valid input: an event
            events.append(mh_event(ev=kind, res="raise", exc="%s: %s" % (type(ex).__name__, str(ex)[:80]),
                                   **{k: it[k] for k in ("E", "E2", "pE", "cE", "pq", "cq", "cz", "tb", "x") if k in it}))
    for e in events:
        e.setdefault("exc", "")
    return dict(ps=[dict(ty=p[0], a=p[1], b=p[2]) for p in ps], events=events)


def mh_scenarios(ctx):
    rnd = random.Random(ctx.seed * 7 + 1)
    out = []
    # (1) every kind alone: all lattice points (inverse, jacobian) and all ordered pairs x posterior pairs (ratio)
    posts = POSTS if not ctx.quick else POSTS[::2] + [POSTS[1]]
    for p in KINDS:
        pts = points_of(p)
        items = [dict(ev="inv", E=[q(e)]) for e in pts] + [dict(ev="jac", E=[q(e)], E2=[q(e2)]) for e in pts for e2 in pts if e != e2]
        for e1 in pts:
            for e2 in pts:
                for (a, b) in itertools.product(posts, repeat=2):
                    if not ctx.quick or rnd.random() < 0.25:
                        items.append(dict(ev="mh", pE=[q(e1)], cE=[q(e2)], pq=q(a), cq=q(b), cz=False, tb=True))
                items.append(dict(ev="mh", pE=[q(e1)], cE=[q(e2)], pq=q(posts[0]), cq=[1, 1], cz=True, tb=True))
            items.append(dict(ev="mh", pE=[q(e1)], cE=[q(pts[0])], pq=q(posts[1]), cq=q(posts[2]), cz=False, tb=False))
        for _ in range(12 if ctx.quick else 60):
            items.append(dict(ev="invr", x=[rand_point(rnd, p)]))
        out.append(dict(kind="mh", ps=[list(p)], items=items))
    # (2) vectors of 2..3 parameters of mixed kinds: random lattice points
    n_vec = 40 if ctx.quick else 400
    for _ in range(n_vec):
        k = rnd.choice([2, 2, 3])
        ps = [rnd.choice(KINDS) for _i in range(k)]
        items = []
        for _j in range(6):
            E = [q(rnd.choice(points_of(p))) for p in ps]
            items.append(dict(ev="inv", E=E))
            items.append(dict(ev="jac", E=E, E2=[q(rnd.choice(points_of(p))) for p in ps]))
            items.append(dict(ev="invr", x=[rand_point(rnd, p) for p in ps]))
        for _j in range(10):
            pE = [q(rnd.choice(points_of(p))) for p in ps]
            cE = [q(rnd.choice(points_of(p))) for p in ps]
            items.append(dict(ev="mh", pE=pE, cE=cE, pq=q(rnd.choice(POSTS)), cq=q(rnd.choice(POSTS)), cz=rnd.random() < 0.1,
                              tb=rnd.random() < 0.9))
        out.append(dict(kind="mh", ps=[list(p) for p in ps], items=items))
    return out


def rand_point(rnd, p):
    """a parameter value inside the bounds, on the 10^-6 grid, not closer than 10^-3 to a bound and not
    farther than 10^3 from it (the domain on which the round trip is accurate to 10^-9)"""
    ty, a, b = p
    if ty == 0:
        lo, hi = a * UNIT + 1000, b * UNIT - 1000
        return rnd.randint(lo, hi)
    if ty == 1:
        d = int(10 ** rnd.uniform(3, 9))
        return b * UNIT - d
    if ty == 2:
        d = int(10 ** rnd.uniform(3, 9))
        return a * UNIT + d
    return rnd.randint(-1000 * UNIT, 1000 * UNIT)


# ================================================================== likelihood cases (SynLik_Trace)
LIM = 2 ** 31 - 1


class Unsafe(Exception):
    """an intermediate of the TLA+ computation would leave 32 bits (generation filter only)"""


def ck(v):
    if abs(v) > LIM:
        raise Unsafe()
    return v


def smooth(n):
    if n <= 0:
        return False
    for p in (2, 3, 5, 7):
        while n % p == 0:
            n //= p
    return n == 1


def cmat(x, d):
    n = len(x)
    C = [[0] * d for _ in range(d)]
    for j in range(d):
        for k in range(d):
            C[j][k] = ck(ck(n * ck(sum(r[j] * r[k] for r in x))) - ck(sum(r[j] for r in x) * sum(r[k] for r in x)))
    return C


def det(K, d):
    return K[0][0] if d == 1 else ck(ck(K[0][0] * K[1][1]) - ck(K[0][1] * K[1][0]))


def adjquad(K, v, d):
    if d == 1:
        return ck(v[0] * v[0])
    return ck(ck(ck(v[0] * v[0]) * K[1][1]) - ck(ck(2 * v[0] * v[1]) * K[0][1]) + ck(ck(v[1] * v[1]) * K[0][0]))


def mvn_ok(K, kden, v, dn, d, max_quad=40):
    """mirror of SynLikOps!Mvn + QSafe: on the lattice, inside 32 bits, well conditioned"""
    if not (K[0][0] > 0 and det(K, d) > 0):
        return False
    dt = det(K, d)
    if not (smooth(dt) and smooth(kden)):
        return False
    if d == 2 and dt * 200 < K[0][0] * K[1][1]:      # correlation too close to 1: float side loses accuracy
        return False
    ck(dn * dn)
    aq = adjquad(K, v, d)
    qq = Fraction(kden, dn * dn) * Fraction(aq, dt)
    a, b = Fraction(kden, dn * dn), Fraction(aq, dt)
    g1, g2 = math.gcd(abs(a.numerator), b.denominator) or 1, math.gcd(abs(b.numerator), a.denominator) or 1
    ck((a.numerator // g1) * (b.numerator // g2))
    ck((a.denominator // g2) * (b.denominator // g1))
    if qq.denominator > 200000000 or qq > max_quad:
        return False
    ck(d * 1837877 + 31 * 693147 * 2)
    return True


def whiten(c, W, ws):
    if not W:
        return c
    x = [[ck(sum(W[i][j] * r[j] for j in range(c["d"]))) for i in range(c["d"])] for r in c["x"]]
    y = [ck(sum(W[i][j] * c["y"][j] for j in range(c["d"]))) for i in range(c["d"])]
    return dict(c, x=x, y=y, s=c["s"] * ws)


def lik_ok(c, ev):
    """generation filter: is this call on the lattice of SynLikOps (and safe for 32-bit TLC)?"""
    try:
        d = c["d"]
        fn = ev["fn"]
        if fn == "std":
            cw = whiten(c, ev["W"], ev["ws"])
            n = len(cw["x"])
            C = cmat(cw["x"], d)
            gn, gd = ev["gam"] if ev["shr"] else (1, 1)
            K = [[ck((gd if j == k else gn) * C[j][k]) for k in range(d)] for j in range(d)]
            kden = ck(gd * n * (n - 1) * cw["s"] * cw["s"])
            dl = [ck(n * cw["y"][j] - sum(r[j] for r in cw["x"])) for j in range(d)]
            if not mvn_ok(K, kden, dl, n * cw["s"], d):
                return False
            if ev["shr"]:
                tr = 1 if d == 1 else K[0][0] + K[1][1]
                ck(tr * kden)
                if (tr * kden) // det(K, d) > 12:
                    return False
            return True
        n = len(c["x"])
        C = cmat(c["x"], d)
        dl = [ck(n * c["y"][j] - sum(r[j] for r in c["x"])) for j in range(d)]
        nn = ck(n * (n - 1) * c["s"] * c["s"])
        if fn == "var":
            K = [[ck(C[j][k] * (1 + ev["g"][j] ** 2)) if j == k else C[j][k] for k in range(d)] for j in range(d)]
            return mvn_ok(K, nn, dl, n * c["s"], d)
        if fn == "mean":
            v = []
            for j in range(d):
                m = ck(C[j][j] * n * (n - 1))
                r = math.isqrt(m) if m >= 0 else -1
                if m < 0 or m >= 4000000 or r * r != m:
                    return False
                v.append(ck(ck((n - 1) * dl[j]) - ck(r * ev["g"][j])))
            return mvn_ok(C, nn, v, ck(n * (n - 1) * c["s"]), d)
        if fn == "go":
            if not (C[0][0] > 0 and det(C, d) > 0) or n - d - 3 < 0 or n - 1 > 16:
                return False
            P = [[ck(ck((n - 1) * C[j][k]) - ck(dl[j] * dl[k])) for k in range(d)] for j in range(d)]
            dP = det(P, d)
            dC = det(C, d)
            if dP == 0 or any(P[j][j] == 0 for j in range(d)):
                return False
            if d == 2 and dC * 200 < C[0][0] * C[1][1]:
                return False
            if not (P[0][0] > 0 and dP > 0):
                # outside the support: log 0.  Keep a margin so that the float side cannot see it as inside
                return True
            if d == 2 and dP * 200 < P[0][0] * P[1][1]:
                return False
            return smooth(dC) and smooth(abs(dP)) and smooth(n) and smooth(n - 1) and smooth(c["s"])
        return False
    except Unsafe:
        return False


LIK_DEF = dict(fn="", W=[], ws=1, shr=False, gam=[1, 1], g=[], res="val", out=0, exc="")


def record_lik(sc):
    from elfi.methods.bsl import pdf_methods as pm
    c = sc["c"]
    s = float(c["s"])
    ssx = np.array(c["x"], dtype=float) / s
    ssy = np.array(c["y"], dtype=float) / s
    events = []
    for it in sc["items"]:
        e = dict(LIK_DEF)
        e.update(it)
        try:
            with time_limit(20), np.errstate(all="ignore"):
                if it["fn"] == "std":
                    W = (np.array(it["W"], dtype=float) / it["ws"]) if it["W"] else None
                    kw = {}
                    if it["shr"]:
                        kw = dict(shrinkage="warton", penalty=float(1 - Fraction(it["gam"][0], it["gam"][1])))
                    # the observed summaries arrive as a (1, d) row, as ModelBased stores them
                    val = pm.gaussian_syn_likelihood(ssx.copy(), ssy.reshape(1, -1).copy(), whitening=W, **kw)
                elif it["fn"] == "go":
                    val = pm.gaussian_syn_likelihood_ghurye_olkin(ssx.copy(), ssy.reshape(1, -1).copy())
                elif it["fn"] in ("mean", "var"):
                    val = pm.syn_likelihood_misspec(ssx.copy(), ssy.reshape(1, -1).copy(), gamma=np.array(it["g"], dtype=float),
                                                    adjustment="mean" if it["fn"] == "mean" else "variance")
                else:
                    raise tlc.MachineryFailure("unknown likelihood %r" % it["fn"])
            val = np.asarray(val, dtype=float).ravel()
            if val.size != 1:
                e["res"] = "shape"
            else:
                e["res"], e["out"] = fxv(val[0])
        except Hang:
            e["res"] = "hang"
        except tlc.MachineryFailure:
            raise
        except Exception as ex:
            e["res"] = "raise"
            e["exc"] = "%s: %s" % (type(ex).__name__, str(ex)[:80])
        events.append(e)
    return dict(x=c["x"], y=c["y"], s=c["s"], d=c["d"], events=events)


WS1 = [([[-1]], 1), ([[2]], 1), ([[1]], 2), ([[3]], 2), ([[3]], 1)]
WS2 = [([[0, 1], [1, 0]], 1), ([[0, -1], [1, 0]], 1), ([[-1, 0], [0, 1]], 1), ([[2, 0], [0, 1]], 1), ([[1, 0], [0, 4]], 2),
       ([[1, 0], [0, 1]], 2), ([[1, 1], [0, 1]], 1), ([[1, 1], [-1, 1]], 2), ([[2, 1], [1, 1]], 1), ([[1, -1], [1, 1]], 1)]
GAMS = [[1, 2], [1, 4], [3, 4], [7, 8], [1, 1], [0, 1]]


def lik_items(rnd, c, rich):
    """all calls on one data set that are on the lattice"""
    d = c["d"]
    cand = [dict(fn="std"), dict(fn="go")]
    wsets = WS1 if d == 1 else WS2
    for (W, ws) in (wsets if rich else rnd.sample(wsets, 3)):
        cand.append(dict(fn="std", W=W, ws=ws))
    for gam in GAMS:
        cand.append(dict(fn="std", shr=True, gam=gam))
        if rich or gam in ([1, 2], [3, 4]):
            # shrinkage AND whitening together (the order of the two matters); non-diagonal whitening matrices preferred
            W, ws = rnd.choice(WS1 if d == 1 else WS2[6:] + WS2[:2])
            cand.append(dict(fn="std", shr=True, gam=gam, W=W, ws=ws))
    gs = [[0] * d, [1] * d, [2] + [0] * (d - 1), [-1] + [1] * (d - 1), [1, 3][:d], [-2, 1][:d], [3] * d]
    for g in (gs if rich else [gs[0]] + rnd.sample(gs[1:], 3)):
        cand.append(dict(fn="mean", g=g))
        cand.append(dict(fn="var", g=g))
    items = []
    for it in cand:
        e = dict(LIK_DEF)
        e.update(it)
        if lik_ok(c, e):
            items.append({k: e[k] for k in ("fn", "W", "ws", "shr", "gam", "g")})
    return items


def lik_scenarios(ctx):
    rnd = random.Random(ctx.seed * 11 + 3)
    out = []
    seen = set()
    # (1) exhaustive small 1-D data: every multiset of n values over a small range, observed values around it
    small = []
    for n in (4, 5):
        for xs in itertools.combinations_with_replacement(range(0, 4 if ctx.quick else 5), n):
            for y in ((1, 5) if ctx.quick else (0, 1, 2, 5)):
                small.append(dict(x=[[v] for v in xs], y=[y], s=1, d=1))
    # (2) random 1-D / 2-D data, scales 1, 2, 4
    n_rand = 320 if ctx.quick else 3000
    for _ in range(n_rand):
        d = rnd.choice([1, 2, 2])
        n = rnd.randint(d + 3, 8)
        lo, hi = rnd.choice([(-3, 3), (0, 4), (-2, 6), (0, 2)])
        x = [[rnd.randint(lo, hi) for _j in range(d)] for _r in range(n)]
        y = [rnd.randint(lo - 3, hi + 3) for _j in range(d)]
        small.append(dict(x=x, y=y, s=rnd.choice([1, 1, 2, 4]), d=d))
    # (3) 2-D data whose columns have rational standard deviations (the mean adjustment needs them)
    sq = {}
    for n in (5, 6, 7, 8):
        for xs in itertools.combinations_with_replacement(range(0, 5), n):
            cjj = n * sum(v * v for v in xs) - sum(xs) ** 2
            m = cjj * n * (n - 1)
            if cjj > 0 and math.isqrt(m) ** 2 == m:
                sq.setdefault(n, []).append(list(xs))
    for _ in range(150 if ctx.quick else 1000):
        n = rnd.choice(sorted(sq))
        a, b = list(rnd.choice(sq[n])), list(rnd.choice(sq[n]))
        rnd.shuffle(a)
        rnd.shuffle(b)
        small.append(dict(x=[[a[r], b[r]] for r in range(n)], y=[rnd.randint(-1, 6), rnd.randint(-1, 6)], s=rnd.choice([1, 2]), d=2))
    for c in small:
        key = (tuple(map(tuple, c["x"])), tuple(c["y"]), c["s"])
        if key in seen:
            continue
        seen.add(key)
        items = lik_items(rnd, c, rich=not ctx.quick)
        if items:
            out.append(dict(kind="lik", c=c, items=items))
    return out


# ================================================================== real BSL.sample runs (BslRound_Trace)
class Lattice1:
    """One parameter's lattice: points E (transformed space), their parameter values (floats the code works
    with) and prior values (0 = outside the prior support).  Index 1..K; 0 = not a lattice point."""

    def __init__(self, p, tb, pts):
        self.p = tuple(p)
        self.tb = tb
        self.E = [fr(pt["E"]) for pt in pts]
        self.pr = [fr(pt["pr"]) for pt in pts]
        self.theta = [float(back_fr(self.p, e)) if tb else float(e) for e in self.E]
        self.tt = [tt_float(self.p, e) if tb else float(e) for e in self.E]

    def index(self, v):
        v = float(v)
        for i, t in enumerate(self.theta):
            if abs(v - t) <= 1e-9 * max(1.0, abs(t)):
                return i + 1
        return 0


class DynLattice1:
    """seeded runs: values get ids in the order in which the prior is asked about them"""

    def __init__(self, lo, hi):
        self.lo, self.hi = lo, hi
        self.ids = {}

    def index(self, v, create=False):
        v = float(v)
        if v not in self.ids:
            if not create:
                return 0
            self.ids[v] = len(self.ids) + 1
        return self.ids[v]


class LogPrior:
    """Custom prior distribution of one parameter (rvs / pdf / logpdf): logs every query."""

    def __init__(self, log, k, lat, start):
        self.log, self.k, self.lat, self.start = log, k, lat, start
        self.name = "c20prior%d" % k

    def rvs(self, size=None, random_state=None):
        return np.full(size if size is not None else 1, self.start, dtype=float)

    def logpdf(self, x):
        x = np.asarray(x, dtype=float).reshape(-1)
        out = np.empty(len(x))
        for j, v in enumerate(x):
            if isinstance(self.lat, Lattice1):
                i = self.lat.index(v)
                pr = self.lat.pr[i - 1] if i else Fraction(0)
                out[j] = math.log(pr) if pr > 0 else -INF
                self.log.append(("q", self.k, i, q(pr), out[j]))
            else:
                import scipy.stats as ss
                i = self.lat.index(v, create=True)
                out[j] = float(ss.uniform(self.lat.lo, self.lat.hi - self.lat.lo).logpdf(v))
                self.log.append(("q", self.k, i, [1, 1] if np.isfinite(out[j]) else [0, 1], out[j]))
        return out

    def pdf(self, x):
        return np.exp(self.logpdf(x))


class ScriptedRandom:
    """Stands in for sampler.random_state: proposals and uniform draws come from the scenario's script."""

    def __init__(self, log, lats, props, us):
        self.log, self.lats, self.props, self.us = log, lats, list(props), list(us)
        self.ip = 0
        self.iu = 0

    def multivariate_normal(self, mean, cov):
        if self.ip >= len(self.props):
            raise tlc.MachineryFailure("script of proposals exhausted")
        idx = self.props[self.ip]
        self.ip += 1
        self.log.append(("prop", [fx0(v) for v in np.asarray(mean, dtype=float).ravel()], list(idx)))
        return np.array([lat.tt[i - 1] for lat, i in zip(self.lats, idx)], dtype=float)

    def uniform(self, *a, **k):
        if self.iu >= len(self.us):
            raise tlc.MachineryFailure("script of uniform draws exhausted")
        u = self.us[self.iu]
        self.iu += 1
        self.log.append(("u", list(u)))
        return u[0] / u[1]


NOFX = 2147000000
RUN_DEF = dict(ev="", i=[], fin=True, pr=[1, 1], bat=0, rows=[], lk=[1, 1], lz=False, u=[0, 1], mean=[], nsim=0, nout=0,
               nbat=0, res="ok", exc="", val=NOFX, lpr=NOFX, pc=NOFX, pp=NOFX, prc=NOFX, prp=NOFX, slp=[], opr=[])


def oracle_logprior(sc, lats, vec):
    """prior log density of a parameter vector evaluated directly (scipy for seeded runs; the lattice's
    rational for scripted runs) - independent of what the sampler stored"""
    import scipy.stats as ss
    tot = 0.0
    for k, v in enumerate(vec):
        if sc["mode"] == "scripted":
            i = lats[k].index(v)
            pr = lats[k].pr[i - 1] if i else Fraction(0)
            tot += math.log(pr) if pr > 0 else -INF
        else:
            lo, hi = sc["support"][k]
            tot += float(ss.uniform(lo, hi - lo).logpdf(float(v)))
    return tot


_RUNCLS = {}


def run_bsl_class():
    """BSL that records, per MH step, the two log-posteriors entering the ratio (around _get_mh_ratio) and the
    log-likelihood the gamma sampler returns for the current state (robust runs); behaviour unchanged."""
    if "cls" in _RUNCLS:
        return _RUNCLS["cls"]
    from elfi.methods.inference.bsl import BSL

    class RunBSL(BSL):
        c20_log = None
        c20_oracle = None

        def _get_mh_ratio(self):
            n = self.state["n_samples"]
            if self.c20_log is not None:
                self.c20_log.append(("mh", fx0(self.state["logposterior"][n]), fx0(self.state["logposterior"][n - 1]),
                                     fx0(self.c20_oracle(self.state["params"][n])), fx0(self.c20_oracle(self.state["params"][n - 1]))))
            return super()._get_mh_ratio()

        def _resolve_gamma_sampler(self, *a, **k):
            sampler, gamma0 = super()._resolve_gamma_sampler(*a, **k)

            def recording_sampler(*aa, **kk):
                gamma, ll = sampler(*aa, **kk)
                if self.c20_log is not None:
                    self.c20_log.append(("gam", fx0(np.asarray(ll, dtype=float).ravel()[0])))
                return gamma, ll
            return recording_sampler, gamma0

    _RUNCLS["cls"] = RunBSL
    return RunBSL


def run_event(**kw):
    e = dict(RUN_DEF)
    e.update(kw)
    return e


def record_run(sc):
    """One real BSL.sample run; returns the trace."""
    import elfi
    import elfi.client
    from elfi.methods.inference.bsl import BSL
    from elfi.methods.bsl.pdf_methods import gaussian_syn_likelihood
    scripted = sc["mode"] == "scripted"
    robust = sc.get("robust")            # None | "mean" | "variance": syn_likelihood_misspec with the gamma sampler
    p = len(sc["ps"])
    tb = bool(sc["tb"])
    log = []
    if scripted:
        lats = [Lattice1(sc["ps"][k], tb, sc["lat"][k]) for k in range(p)]
        start = [lats[k].theta[sc["start"][k] - 1] for k in range(p)]
    else:
        lats = [DynLattice1(sc["support"][k][0], sc["support"][k][1]) for k in range(p)]
        start = [float(v) for v in sc["start"]]
    bs, nsr = sc["bs"], sc["nsr"]
    m = elfi.ElfiModel(name="c20run")
    for k in range(p):
        elfi.Prior(LogPrior(log, k, lats[k], start[k]), model=m, name="t%d" % (k + 1))
    batch_vals = {}           # batch index -> index vector the simulator received (first row)
    row_batch = {}            # robust runs: (S1, S2) of a simulated row -> its batch index
    noise = np.random.RandomState(sc.get("noise_seed", 0))

    def sim(*ts, batch_size=1, random_state=None, meta=None):
        bi = int(meta["batch_index"])
        cols = [np.broadcast_to(np.asarray(t, dtype=float).reshape(-1), (batch_size,)) for t in ts]
        idx = []
        for r in range(batch_size):
            idx.append([lats[k].index(cols[k][r]) for k in range(p)])
        same = all(v == idx[0] for v in idx)
        batch_vals[bi] = idx[0] if same else [0] * p
        log.append(("sim", bi, batch_vals[bi], batch_size))
        ids = (bi * batch_size + np.arange(batch_size)).astype(float)
        if scripted:
            return np.column_stack([ids, ids])
        if robust:
            # two noisy summaries; rows are recognised by their exact values
            y = np.column_stack([sum(cols) + noise.normal(size=batch_size), 0.5 * sum(cols) + noise.normal(size=batch_size)])
            for r in range(batch_size):
                row_batch[(float(y[r, 0]), float(y[r, 1]))] = bi
            return y
        return np.column_stack([ids, sum(cols) + noise.normal(size=batch_size)])

    s = elfi.Simulator(sim, *[m["t%d" % (k + 1)] for k in range(p)], model=m, name="sim", observed=np.array([[float(sc.get("obs1", 0)), float(sc.get("obs", 0))]]))
    s.uses_meta = True
    elfi.Summary(lambda y: y[:, 0], m["sim"], model=m, name="S1")
    elfi.Summary(lambda y: y[:, 1], m["sim"], model=m, name="S2")

    def lik(ssx, ssy):
        ssx = np.asarray(ssx, dtype=float)
        rows = []
        for r in range(ssx.shape[0]):
            rid = int(round(ssx[r, 0]))
            bi = rid // bs
            rows.append([bi, list(batch_vals.get(bi, [0] * p))])
        if scripted:
            iv = rows[0][1]
            val = Fraction(1)
            for k in range(p):
                val *= fr(sc["lat"][k][iv[k] - 1]["lk"]) if iv[k] else Fraction(1)
            log.append(("lik", rows, q(val), val == 0, 0))
            return np.array([math.log(val) if val > 0 else -INF])
        val = gaussian_syn_likelihood(ssx[:, 1:], np.asarray(ssy, dtype=float).reshape(-1)[1:])
        log.append(("lik", rows, [1, 1], False, fx0(np.asarray(val).ravel()[0])))
        return val

    def robust_lik(ssx, ssy, gamma, adjustment):
        from elfi.methods.bsl.pdf_methods import syn_likelihood_misspec
        ssx = np.asarray(ssx, dtype=float)
        rows = []
        for r in range(ssx.shape[0]):
            bi = row_batch.get((float(ssx[r, 0]), float(ssx[r, 1])), -1)
            rows.append([bi, list(batch_vals.get(bi, [0] * p))])
        val = syn_likelihood_misspec(ssx, ssy, gamma=gamma, adjustment=adjustment)
        log.append(("lik", rows, [1, 1], False, fx0(np.asarray(val, dtype=float).ravel()[0])))
        return val

    old_client = elfi.client._client
    res = "ok"
    exc = ""
    chain = []
    slp, opr = [], []
    nsim = nout = nbat = 0
    try:
        if sc.get("sched") is not None:
            from harness.sched_client import ScheduledClient
            elfi.client.set_client(ScheduledClient(seed=sc["sched"], p_ready=sc.get("p_ready", 0.5), p_run=sc.get("p_run", 0.5)))
        else:
            import elfi.clients.native as native
            elfi.client.set_client(native.Client())
        with time_limit(120), np.errstate(all="ignore"):
            RunBSL = run_bsl_class()
            b = RunBSL(m, nsr, batch_size=bs, likelihood=(partial(robust_lik, adjustment=robust) if robust else lik),
                       seed=sc.get("seed", 1), max_parallel_batches=sc.get("maxpar", 1))
            perm = bool(sc.get("perm")) and not scripted and p > 1
            if not scripted:
                b.c20_log = log
                # (with param_names given in ANOTHER order than the model's, the sampler's vectors are in that order)
                b.c20_oracle = lambda vec: oracle_logprior(sc, lats, np.asarray(vec, dtype=float).ravel()[::-1] if perm
                                                           else np.asarray(vec, dtype=float).ravel())
            if scripted:
                b.random_state = ScriptedRandom(log, lats, sc["props"], sc["us"])
            bound = [bound_row(pp) for pp in sc["ps"]] if tb else None
            sigma = np.eye(p) * float(sc.get("sigma", 1.0))
            if perm:
                out = b.sample(sc["n"], sigma, params0=start[::-1], param_names=["t%d" % (k + 1) for k in range(p)][::-1],
                               burn_in=sc.get("burn_in", 0), logit_transform_bound=(bound[::-1] if bound else None), bar=False)
            else:
                out = b.sample(sc["n"], sigma, params0=(None if sc.get("p0none") else start), burn_in=sc.get("burn_in", 0),
                               logit_transform_bound=bound, bar=False)
        pn = ["t%d" % (k + 1) for k in range(p)]
        full = np.column_stack([np.asarray(out.samples_all[nm], dtype=float) for nm in pn])
        chain = [[lats[k].index(full[r, k]) for k in range(p)] for r in range(full.shape[0])]
        nout = int(len(out.samples[pn[0]]))
        nsim = int(out.n_sim)
        nbat = int(b.state["n_batches"])
        slp = [fx0(v) for v in np.asarray(b.state["logprior"], dtype=float).ravel()]
        opr = [fx0(oracle_logprior(sc, lats, full[r])) for r in range(full.shape[0])]
    except Hang:
        res = "hang"
    except tlc.MachineryFailure:
        raise
    except Exception as ex:
        res = "raise"
        exc = "%s: %s" % (type(ex).__name__, str(ex)[:100])
    finally:
        elfi.client.set_client(old_client)
    # ---- log -> events (the prior of a p-vector is asked once per parameter: merge)
    events = []
    pend = {}
    for rec in log:
        if rec[0] == "q":
            pend[rec[1]] = rec
            if len(pend) == p:
                iv = [pend[k][2] for k in range(p)]
                pr = Fraction(1)
                for k in range(p):
                    pr *= fr(pend[k][3])
                events.append(run_event(ev="q", i=iv, fin=pr > 0, pr=q(pr), lpr=fx0(sum(pend[k][4] for k in range(p)))))
                pend = {}
        elif rec[0] == "prop":
            events.append(run_event(ev="prop", mean=rec[1], i=rec[2]))
        elif rec[0] == "u":
            events.append(run_event(ev="u", u=rec[1]))
        elif rec[0] == "sim":
            events.append(run_event(ev="sim", bat=rec[1], i=rec[2], nsim=rec[3]))
        elif rec[0] == "lik":
            events.append(run_event(ev="lik", rows=[dict(bat=r[0], i=r[1]) for r in rec[1]], lk=rec[2], lz=rec[3],
                                    val=rec[4] if not scripted else NOFX))
        elif rec[0] == "mh":
            events.append(run_event(ev="mh", pc=rec[1], pp=rec[2], prc=rec[3], prp=rec[4]))
        elif rec[0] == "gam":
            events.append(run_event(ev="gam", val=rec[1]))
    events.append(run_event(ev="end", res=res, exc=exc, nsim=nsim, nout=nout, nbat=nbat, slp=slp, opr=opr))
    lat_out = []
    if scripted:
        for k in range(p):
            lat_out.append([dict(E=q(e)) for e in lats[k].E])
    # is the start the scenario hands over inside the prior support?  (seeded runs: known from the scenario; scripted runs: the
    # harness cannot say more than the logged prior evaluation - a refusal there stays a harness matter)
    start_ok = (not scripted) and all(sc["support"][k][0] <= start[k] <= sc["support"][k][1] for k in range(p))
    return dict(mode=sc["mode"], robust=bool(robust), n=sc["n"], nsr=nsr, bs=bs, p=p, tb=tb, burn=sc.get("burn_in", 0), start_ok=start_ok,
                ps=[dict(ty=pp[0], a=pp[1], b=pp[2]) for pp in sc["ps"]], lat=lat_out, chain=chain, events=events)


PRS = [Fraction(0), Fraction(1, 2), Fraction(1), Fraction(1), Fraction(2)]
LKS = [Fraction(1, 4), Fraction(1, 2), Fraction(1), Fraction(2), Fraction(3)]
RUN_KINDS = [(0, 0, 4), (0, -1, 1), (0, 1, 2), (1, 0, 4), (1, 0, -1), (2, 1, 0), (2, -3, 0), (3, 0, 0)]


def scripted_lattice(rnd, p_kind, tb, n_pts=None):
    """lattice of one parameter with random prior / likelihood factors; at least one point inside the support"""
    if tb:
        Es = list(points_of(p_kind))
    else:
        Es = [Fraction(v) for v in (-1, 0, 1, 2, 3, 5)]
    if n_pts:
        Es = rnd.sample(Es, n_pts)
    pts = []
    for e in Es:
        pr = rnd.choice(PRS)
        if not tb and (e <= 0 or e >= 4):
            pr = Fraction(0)                     # a bounded prior: support (0, 4)
        lk = rnd.choice(LKS) if rnd.random() > 0.08 else Fraction(0)
        pts.append(dict(E=q(e), pr=q(pr), lk=q(lk)))
    inside = [j for j, pt in enumerate(pts) if pt["pr"][0] > 0 and pt["lk"][0] > 0]
    if not inside:
        j = rnd.randrange(len(pts)) if tb else [k for k, e in enumerate(Es) if 0 < e < 4][0]
        pts[j]["pr"], pts[j]["lk"] = [1, 1], [1, 1]
        inside = [j]
    return pts, inside


def scripted_run(rnd, ps, tb, n, nsr, bs, maxpar=1, sched=None, burn_in=0, props=None, us=None, lat=None, start=None):
    p = len(ps)
    if lat is None:
        lat, start = [], []
        for k in range(p):
            pts, inside = scripted_lattice(rnd, ps[k], tb)
            lat.append(pts)
            start.append(rnd.choice(inside) + 1)
    if props is None:
        props = [[rnd.randint(1, len(lat[k])) for k in range(p)] for _ in range(n - 1)]
    if us is None:
        # u = 0 is accepted by the code even for a zero posterior (0 < exp(-700)): an event of probability 2^-53
        # that the statement does not distinguish; not scripted when a zero-likelihood point exists
        lo = 1 if any(pt["lk"][0] == 0 for pts in lat for pt in pts) else 0
        us = [[rnd.choice([lo, 1, 8, 16, 24, 32, 40, 48, 56, 63] + list(range(lo, 64))), 64] for _ in range(n - 1)]
    return dict(kind="run", mode="scripted", n=n, nsr=nsr, bs=bs, maxpar=maxpar, sched=sched, burn_in=burn_in, tb=tb,
                ps=[list(x) for x in ps], lat=lat, start=start, props=props, us=us, p_ready=rnd.choice([0.2, 0.5, 0.9]),
                p_run=rnd.choice([0.0, 0.5, 1.0]),
                # every fourth chain starts from a draw of the prior (params0=None; the harness's prior draws the scripted start)
                p0none=(rnd.random() < 0.25))


def run_scenarios(ctx):
    rnd = random.Random(ctx.seed * 13 + 5)
    out = []
    # (1) exhaustive: one two-sided parameter, 3 lattice points (one outside the support), n = 4:
    #     every proposal sequence x every low/high pattern of the uniform draws
    lat = [[dict(E=[1, 2], pr=[1, 1], lk=[1, 1]), dict(E=[2, 1], pr=[0, 1], lk=[1, 1]), dict(E=[3, 1], pr=[1, 2], lk=[3, 1])]]
    for props in itertools.product([1, 2, 3], repeat=3):
        for us in (itertools.product([2, 44], repeat=3) if not ctx.quick else [(2, 2, 2), (44, 44, 44), (2, 44, 2), (44, 2, 44)]):
            out.append(scripted_run(rnd, [(0, 0, 4)], True, 4, 2, 1, lat=lat, start=[1], props=[[i] for i in props],
                                    us=[[u, 64] for u in us]))
    n_ex = len(out)
    # (2) random scripted runs: every kind, 1-2 parameters, with / without transform, batch splits, parallel batches
    n_scr = 100 if ctx.quick else 1500
    for j in range(n_scr):
        p = rnd.choice([1, 1, 2])
        ps = [rnd.choice(RUN_KINDS) for _ in range(p)]
        tb = rnd.random() < 0.8
        nsr = rnd.choice([2, 4, 6])
        bs = rnd.choice([b for b in (1, 2, 3, 6) if nsr % b == 0 and nsr // b <= 4])
        maxpar = rnd.choice([1, 2, 3])
        n = rnd.randint(3, 9)
        out.append(scripted_run(rnd, ps, tb, n, nsr, bs, maxpar=maxpar, sched=(rnd.randint(0, 10 ** 6) if (maxpar > 1 or j % 3 == 0) else None),
                                burn_in=rnd.choice([0, 0, 1, 2]) if n > 3 else 0))
    # (3) seeded runs: elfi's generator, noisy simulator, the real Gaussian synthetic likelihood
    n_seed = 40 if ctx.quick else 400
    for j in range(n_seed):
        p = rnd.choice([1, 1, 2])
        tb = rnd.random() < 0.4
        nsr = rnd.choice([4, 6, 8])
        bs = rnd.choice([b for b in (1, 2, 4, nsr) if nsr % b == 0 and nsr // b <= 4])
        maxpar = rnd.choice([1, 2, 3])
        ps = [rnd.choice([(0, -2, 8), (1, 0, 8), (2, -2, 0), (3, 0, 0)]) if tb else (3, 0, 0) for _ in range(p)]
        out.append(dict(kind="run", mode="seeded", n=rnd.randint(4, 14), nsr=nsr, bs=bs, maxpar=maxpar,
                        sched=(rnd.randint(0, 10 ** 6) if (maxpar > 1 or j % 3 == 0) else None), tb=tb, ps=[list(x) for x in ps],
                        support=[[0, 4]] * p, start=[rnd.choice([0.5, 2.0, 3.5]) for _ in range(p)], seed=(0 if rnd.random() < 0.1 else rnd.randint(0, 10 ** 6)),
                        sigma=rnd.choice([1.0, 4.0, 9.0]), obs=rnd.choice([1, 2, 3]) * p, noise_seed=rnd.randint(0, 10 ** 6),
                        burn_in=rnd.choice([0, 0, 2]), p_ready=rnd.choice([0.2, 0.5, 0.9]), p_run=rnd.choice([0.0, 0.5, 1.0])))
        if p == 2 and not tb and j % 2 == 0:
            # parameter names requested in another order than the model's, priors that differ between the parameters
            out[-1].update(perm=True, support=[[0, 4], [1, 3]], start=[rnd.choice([0.5, 3.5]), rnd.choice([1.5, 2.5])])
    # (4) seeded robust runs: syn_likelihood_misspec ('mean' / 'variance') with its gamma slice sampler, narrow and
    #     wide uniform priors (log density != 0), proposals that leave the support
    n_rob = 24 if ctx.quick else 300
    for j in range(n_rob):
        p = rnd.choice([1, 1, 2])
        lo, hi, starts, sig = rnd.choice([(0, 0.25, [0.05, 0.125, 0.2], [0.01, 0.04, 0.25]), (0, 4, [0.5, 2.0, 3.5], [1.0, 4.0, 9.0]),
                                          (1, 3, [1.5, 2.5], [0.25, 1.0, 4.0]), (-2, 0.5, [-1.0, 0.25], [1.0, 4.0])])
        tb = rnd.random() < 0.3
        nsr = rnd.choice([8, 10, 12])
        bs = rnd.choice([nsr, nsr // 2])
        maxpar = rnd.choice([1, 2])
        start = [rnd.choice(starts) for _ in range(p)]
        ps = [rnd.choice([(0, lo - 1, hi + 1), (1, 0, hi + 1), (2, lo - 1, 0), (3, 0, 0)]) if tb else (3, 0, 0) for _ in range(p)]
        out.append(dict(kind="run", mode="seeded", robust=rnd.choice(["mean", "variance"]), n=rnd.randint(5, 12), nsr=nsr, bs=bs, maxpar=maxpar,
                        sched=(rnd.randint(0, 10 ** 6) if (maxpar > 1 or j % 4 == 0) else None), tb=tb, ps=[list(x) for x in ps],
                        support=[[lo, hi]] * p, start=start, seed=(0 if rnd.random() < 0.1 else rnd.randint(0, 10 ** 6)), sigma=rnd.choice(sig),
                        obs1=sum(start), obs=0.5 * sum(start), noise_seed=rnd.randint(0, 10 ** 6), burn_in=rnd.choice([0, 0, 2]),
                        p_ready=rnd.choice([0.2, 0.5, 0.9]), p_run=rnd.choice([0.0, 0.5, 1.0])))
        if p == 2 and not tb and (lo, hi) == (0, 4):
            out[-1].update(perm=True, support=[[0, 4], [1, 3]], start=[rnd.choice([0.5, 3.5]), rnd.choice([1.5, 2.5])])
    return out, n_ex


# ================================================================== pinned scenarios (defects of DESIGN section 6)
def pinned_scenarios():
    """One scenario per defect found with this check; they run on every invocation."""
    out = []
    # F16: Jacobian evaluated at the untransformed point; F17: sign for an upper bound only
    out.append(dict(kind="mh", pin="F16", ps=[[0, 0, 4]], items=[dict(ev="mh", pE=[[1, 3]], cE=[[2, 1]], pq=[1, 1], cq=[1, 1], cz=False, tb=True)]))
    out.append(dict(kind="mh", pin="F17", ps=[[1, 0, 4]], items=[dict(ev="jac", E=[[2, 1]], E2=[[1, 1]]),
                                                                  dict(ev="mh", pE=[[1, 1]], cE=[[2, 1]], pq=[1, 1], cq=[1, 1], cz=False, tb=True)]))
    # F18: BSL.sample cannot run under numpy 2
    lat = [[dict(E=[1, 2], pr=[1, 1], lk=[1, 1]), dict(E=[2, 1], pr=[0, 1], lk=[1, 1]), dict(E=[3, 1], pr=[1, 2], lk=[3, 1])]]
    out.append(dict(kind="run", pin="F18", mode="scripted", n=4, nsr=2, bs=1, maxpar=1, sched=None, burn_in=0, tb=True, ps=[[0, 0, 4]],
                    lat=lat, start=[1], props=[[3], [2], [1]], us=[[2, 64], [2, 64], [44, 64]], p_ready=0.5, p_run=0.5))
    # robust BSL with a narrow prior Uniform(0, 0.25) and proposals leaving the support: the current side of every ratio
    # must still be likelihood + log 4 after a rejection without simulation (seeded change C20/1)
    out.append(dict(kind="run", pin="robust-logprior", mode="seeded", robust="mean", n=12, nsr=10, bs=10, maxpar=1, sched=None, tb=False,
                    ps=[[3, 0, 0]], support=[[0, 0.25]], start=[0.1], seed=7, sigma=0.04, obs1=0.1, obs=0.05, noise_seed=3, burn_in=0,
                    p_ready=0.5, p_run=0.5))
    # F21: unbiased estimator, d = 2 (constant offset) and d = 1 (-inf); F32: outside the support; F31: d = 1 crashes
    c2 = dict(x=[[0, 0], [2, 0], [0, 2], [2, 2], [1, 1], [1, 1]], y=[1, 1], s=1, d=2)
    out.append(dict(kind="lik", pin="F21", c=c2, items=[dict(fn="go", W=[], ws=1, shr=False, gam=[1, 1], g=[])]))
    c1 = dict(x=[[0], [1], [1], [2], [1]], y=[1], s=1, d=1)
    out.append(dict(kind="lik", pin="F21", c=c1, items=[dict(fn="go", W=[], ws=1, shr=False, gam=[1, 1], g=[])]))
    out.append(dict(kind="lik", pin="F32", c=dict(c2, y=[9, 9]), items=[dict(fn="go", W=[], ws=1, shr=False, gam=[1, 1], g=[])]))
    out.append(dict(kind="lik", pin="F31", c=dict(x=[[0], [1], [1], [2]], y=[1], s=1, d=1),
                    items=[dict(fn="var", W=[], ws=1, shr=False, gam=[1, 1], g=[1]), dict(fn="std", W=[[2]], ws=1, shr=False, gam=[1, 1], g=[])]))
    return out


# ================================================================== check
def go_inside_support(c):
    """input class of F32: is the observed vector inside the support of the unbiased estimator?"""
    d, n = c["d"], len(c["x"])
    C = cmat(c["x"], d)
    dl = [n * c["y"][j] - sum(r[j] for r in c["x"]) for j in range(d)]
    P = [[(n - 1) * C[j][k] - dl[j] * dl[k] for k in range(d)] for j in range(d)]
    return P[0][0] > 0 and det(P, d) > 0


def classify(sc, tr, v):
    """Known-finding classifiers: each matches exactly the failing input class of one finding of DESIGN
    section 6 / this check (F16, F17, F18, F21, F31, F32).  They only take effect for findings that
    KNOWN_FINDINGS.txt lists as 'known:' (all six have proposed repairs instead)."""
    evs = tr["events"]
    e = evs[min(max(v["l"] - 2, 0), len(evs) - 1)]
    cl = v["verdict"]
    if sc["kind"] == "run":
        if cl == "P:sample-raised" and (e["exc"].startswith("ValueError: setting an array element with a sequence") or "NINF" in e["exc"]):
            return "F18"
        return None
    if sc["kind"] == "mh":
        ps = [tuple(p) for p in sc["ps"]]
        if cl == "P:jacobian" and e["res"] == "ok" and any(p[0] == 1 and a != b for p, a, b in zip(ps, e["E"], e["E2"])):
            return "F17"
        if cl == "P:mh-ratio" and e["res"] == "ok" and e["tb"] and not e["cz"]:
            moved = [k for k, p in enumerate(ps) if p[0] != 3 and e["pE"][k] != e["cE"][k]]
            at_theta = e["nj"] == 2 and e["jc"] == [fx0(float(back_fr(p, fr(x)))) for p, x in zip(ps, e["cE"])]
            if moved and at_theta:
                return "F16"      # the Jacobian helper was handed the untransformed parameter values
            if any(ps[k][0] == 1 for k in moved) and not at_theta:
                return "F17"      # upper bound only: sign of log J
        return None
    c = sc["c"]
    if cl == "P:valid-input-raised" and c["d"] == 1:
        if e["fn"] in ("mean", "var") and "Input must be 1- or 2-d" in e["exc"]:
            return "F31"
        if e["fn"] == "std" and e["W"] and "matmul" in e["exc"]:
            return "F31"
    if cl == "P:unbiased" and e["fn"] == "go":
        inside = go_inside_support(c)
        if e["res"] == "val" and not inside:
            return "F32"          # finite value where the estimator is zero
        if (c["d"] == 1 and e["res"] == "-inf" and inside) or (c["d"] >= 2 and e["res"] == "val" and inside):
            return "F21"
    return None


def check_scenarios(ctx, scs, barrier=None):
    """record everything (python, one core), then - after `barrier()` (run() waits there for the design-level
    TLC runs, so that never more than 8 TLC workers are busy) - validate with TLC"""
    by = {"mh": [], "lik": [], "run": []}
    for sc in scs:
        by[sc["kind"]].append(sc)
    specs = {"mh": ("BslMh_Trace", record_mh, 12), "lik": ("SynLik_Trace", record_lik, 250), "run": ("BslRound_Trace", record_run, 60)}
    all_traces = {}
    failed = []
    rec_time = {}
    for kind in ("mh", "lik", "run"):
        if by[kind]:
            t0 = time.time()
            all_traces[kind] = [specs[kind][1](sc) for sc in by[kind]]
            rec_time[kind] = time.time() - t0
    if barrier is not None:
        barrier()
    for kind in ("mh", "lik", "run"):
        if not by[kind]:
            continue
        mod, rec, chunk = specs[kind]
        traces = all_traces[kind]
        t1 = time.time()
        # at most 8 TLC processes (one worker each) at a time
        verdicts = ctx.validate(mod, traces, chunk=max(chunk, -(-len(traces) // 8)), name=kind)
        ctx.notes.append("%s: %d traces recorded in %.1fs, validated in %.1fs" % (kind, len(traces), rec_time[kind], time.time() - t1))
        for sc, tr, v in zip(by[kind], traces, verdicts):
            evs = tr["events"]
            ctx.trace_events += len(evs)
            if kind == "mh":
                for e in evs:
                    ctx.case(("mh", tuple(map(tuple, sc["ps"])), e["ev"], str(e["E"]), str(e["E2"]), str(e["pE"]), str(e["cE"]), str(e["pq"]), str(e["cq"]),
                              e["cz"], e["tb"], str(e["x"])), nontrivial=(e["ev"] != "mh" or (e["tb"] and e["pE"] != e["cE"])))
            elif kind == "lik":
                for e in evs:
                    ctx.case(("lik", str(sc["c"]), e["fn"], str(e["W"]), e["ws"], e["shr"], str(e["gam"]), str(e["g"])),
                             nontrivial=(e["fn"] != "std" or bool(e["W"]) or e["shr"] or sc["c"]["d"] > 1))
            else:
                n_rej = sum(1 for e in evs if e["ev"] == "q" and not e["fin"])
                chain = tr["chain"]
                moved = sum(1 for a, b in zip(chain, chain[1:]) if a != b)
                ctx.case(("run", ctx_digest(sc)), nontrivial=(n_rej > 0 and moved > 0))
            if v["verdict"] != "ok":
                failed.append((sc, tr, v))
            elif v["drift"]:
                ctx.drifted(v["drift"], sc)
    # pinned scenarios first: only the first 50 failures get a replay file
    failed.sort(key=lambda t: 0 if t[0].get("pin") else 1)
    for sc, tr, v in failed:
        evs = tr["events"]
        at = evs[min(max(v["l"] - 2, 0), len(evs) - 1)]
        ctx.fail(v["verdict"], sc, detail=dict(at_event=v["l"] - 1, event=at, pinned=sc.get("pin")), finding=classify(sc, tr, v))
    return all_traces


def ctx_digest(sc):
    from harness.core import digest
    return digest(sc)


MH_CFG = """SPECIFICATION Spec
CONSTANTS
  Dim = %d
  UpperNeg = %s
  UseJac = %s
  Params <- MCParams
  Points <- MCPoints
  IntPoints <- MCIntPoints
  Posts <- MCPosts
%s
CHECK_DEADLOCK FALSE
"""
MH_INVS = ["Inverse", "JacobianIsDerivative", "Reciprocal", "DetailedBalance", "RatioIsStated"]

SL_CFG = """SPECIFICATION Spec
CONSTANTS
  N = %d
  D = %d
  Vals = {%s}
  YVals = {%s}
  Scales = {%s}
  LogN1Coef = %d
  CheckPD = %s
  Ws <- MCWs
%s
CHECK_DEADLOCK FALSE
"""
SL_INVS = ["DetLemma", "ScatterIsScaledCov", "UnbiasedSupport", "SupportIffQuad", "Equivariance", "ZeroGamma", "VarAdjFlatter"]

BR_CFG = """SPECIFICATION Spec
CONSTANTS
  N = %d
  NB = %d
  MaxPar = %d
  Gate = %s
  TestFirst = %s
  Misspec = %s
  CopyLp = %s
%s
CHECK_DEADLOCK FALSE
"""
BR_INVS = ["NoSimForRejected", "RoundsAligned", "ChainStep", "RejectedKeepState", "ChainLength", "OneEvalPerPosition",
           "CurrentParamsDefined", "NeverWaitsOnNothing", "PosteriorOfCurrent", "StoredPriorOfSlot"]


def invs(names, prop=None):
    return "\n".join("INVARIANT %s" % n for n in names) + ("\nPROPERTY %s" % prop if prop else "")


def tf(b):
    return "TRUE" if b else "FALSE"


def design_runs(ctx):
    """(module, cfg name, cfg text, expect_ok, expect_actions)"""
    runs = []
    mh_act = ["Propose", "Accept", "Reject"]
    runs.append(("MC_BslMh", "mh_dim1", MH_CFG % (1, "TRUE", "TRUE", invs(MH_INVS)), True, mh_act))
    runs.append(("MC_BslMh", "mh_neg_uppersign", MH_CFG % (1, "FALSE", "TRUE", invs(["JacobianIsDerivative"])), False, None))
    runs.append(("MC_BslMh", "mh_neg_nojacobian", MH_CFG % (1, "TRUE", "FALSE", invs(["DetailedBalance"])), False, None))
    sl = lambda n, d, vals, ys, sc, coef, pd, iv: SL_CFG % (n, d, vals, ys, sc, coef, tf(pd), invs(iv))
    runs.append(("MC_SynLik", "sl_d1", sl(5, 1, "0, 1, 3", "1, 5", "1, 2", 0, True, SL_INVS), True, ["Whiten"]))
    runs.append(("MC_SynLik", "sl_d2", sl(5, 2, "0, 1", "3", "1", 0, True, SL_INVS), True, ["Whiten"]))
    runs.append(("MC_SynLik", "sl_neg_f21", sl(5, 2, "0, 1", "0, 3", "1", 1, True, ["ScatterIsScaledCov"]), False, None))
    runs.append(("MC_SynLik", "sl_neg_f32", sl(5, 1, "0, 1, 3", "0, 5", "1", 0, False, ["UnbiasedSupport"]), False, None))
    runs.append(("MC_SynLik", "sl_neg_invariant", sl(4, 1, "0, 1", "0, 3", "1", 0, True, ["WhiteningInvariant"]), False, None))
    br_act = ["Submit", "GoWait", "Consume", "Finish"]
    runs.append(("BslRound", "br_n4", BR_CFG % (4, 2, 2, "TRUE", "TRUE", "TRUE", "TRUE", invs(BR_INVS, "Terminates")), True, br_act))
    runs.append(("BslRound", "br_n5", BR_CFG % (5, 1, 3, "TRUE", "TRUE", "FALSE", "TRUE", invs(BR_INVS, "Terminates")), True, br_act))
    runs.append(("BslRound", "br_neg_nogate", BR_CFG % (4, 2, 2, "FALSE", "TRUE", "TRUE", "TRUE", invs(["RoundsAligned"])), False, None))
    # robust runs re-read logprior[n-1]: without the copy in the rejecting branch the current side loses its prior;
    # standard runs never re-read it, so there the PROPERTY survives (only the mechanism invariant breaks)
    runs.append(("BslRound", "br_neg_nocopylp", BR_CFG % (5, 2, 2, "TRUE", "TRUE", "TRUE", "FALSE", invs(["PosteriorOfCurrent"])), False, None))
    runs.append(("BslRound", "br_std_nocopylp", BR_CFG % (5, 2, 2, "TRUE", "TRUE", "FALSE", "FALSE", invs(["PosteriorOfCurrent"])), True, br_act))
    runs.append(("BslRound", "br_neg_simfirst", BR_CFG % (4, 2, 2, "TRUE", "FALSE", "TRUE", "TRUE", invs(["NoSimForRejected"])), False, None))
    if not ctx.quick:
        runs.append(("MC_BslMh", "mh_dim2", MH_CFG % (2, "TRUE", "TRUE", invs(MH_INVS)), True, mh_act))
        runs.append(("MC_SynLik", "sl_d1_big", sl(6, 1, "0, 1, 2, 4", "0, 3", "1, 2", 0, True, SL_INVS), True, ["Whiten"]))
        runs.append(("MC_SynLik", "sl_d2_y", sl(5, 2, "0, 1", "0, 3", "1", 0, True, SL_INVS), True, ["Whiten"]))
        runs.append(("MC_SynLik", "sl_d2_n6", sl(6, 2, "0, 1", "4", "1", 0, True, SL_INVS), True, ["Whiten"]))
        runs.append(("BslRound", "br_n6", BR_CFG % (6, 3, 3, "TRUE", "TRUE", "TRUE", "TRUE", invs(BR_INVS, "Terminates")), True, br_act))
        runs.append(("BslRound", "br_n7", BR_CFG % (7, 2, 4, "TRUE", "TRUE", "FALSE", "TRUE", invs(BR_INVS, "Terminates")), True, br_act))
    return runs


def run(ctx):
    import concurrent.futures
    ctx.rule = ("(c),(d): every (bound kind, lattice point) for the static helpers and every ordered pair of lattice points x pair of posterior "
                "values for _get_mh_ratio per bound kind (13 kinds over the 4 types), random vectors of 2-3 parameters, random points off the "
                "lattice for the round trip; (a),(b): every multiset of 4-5 small integers x observed value in one dimension plus random "
                "1-D / 2-D integer and dyadic data, each with every on-lattice call (plain, 5-10 whitening matrices, 6 Warton penalties, "
                "unbiased, 7 mean / variance gamma vectors); (d),(e): every proposal sequence x low/high uniform pattern on a 3-point lattice "
                "with n = 4, plus random scripted and seeded BSL.sample runs (1-2 parameters, batch splits, scheduled client with up to 3 "
                "parallel batches).  Non-trivial = transform used and the two points differ (ratio) / not the plain 1-D standard case "
                "(likelihood) / a run with at least one proposal rejected outside the support and at least one move.")
    ctx.clauses_decided = [
        "a: standard synthetic log-likelihood = log N(ssy; mean, S) on the {2,3,5,7}-smooth lattice, d <= 2, with integer / dyadic whitening and Warton shrinkage (the code's 1e-5 diagonal guard inside an explicit tolerance)",
        "b: unbiased (Ghurye-Olkin) incl. support, mean- and variance-adjusted variants (integer gamma) on the same lattice",
        "c: back-transform inverts transform (exact on the lattice, 1e-9 on random points)",
        "d: MH ratio = posterior ratio x Jacobian ratio at the transformed points (rational), accept iff u < min(1, ratio) in scripted runs",
        "d (robust and standard seeded runs): each side of every MH ratio is likelihood + prior log density of THAT state (candidate: value of its likelihood evaluation + scipy prior; current: value of the last gamma-sampler pass + scipy prior / the posterior it was accepted with), 3e-6, also after rejections without simulation",
        "e: no simulation for proposals outside the prior support; chain bookkeeping (length, copy of the previous state, burn-in, n_sim)"]
    ctx.clauses_not_decided = [
        "a: general covariance matrices off the lattice (no exact log det), d >= 3, shrinkage 'glasso', the semi-parametric likelihood",
        "d: acceptance decisions of seeded runs (only chain[n] in {proposal, previous} is decided there)",
        "gamma slice samplers of the misspecified variants (the log-likelihood they return for the current state is taken as an oracle field)"]
    ctx.trusted_base += ["scipy.stats.uniform.logpdf as the prior-density oracle of seeded runs; the gamma sampler's returned log-likelihood",
                         "numpy float arithmetic on integer / dyadic data (exactness of the inputs)",
                         "harness operations (prior / simulator / likelihood callables, scripted random_state object) log faithfully"]
    ctx.assumptions += ["sampler.random_state may be replaced by a duck-typed object with multivariate_normal / uniform (scripted runs)"]
    # ---- O1
    runs = design_runs(ctx)

    def one(r):
        mod, name, text, ok, acts = r
        return ctx.tlc(mod, "MC_C20_%s" % name, cfg_text=text, expect_ok=ok, expect_actions=acts, label=name, workers=2,
                       timeout=1500 if ctx.quick else 3000)
    with concurrent.futures.ThreadPoolExecutor(max_workers=4) as ex:
        futs = [ex.submit(one, r) for r in runs]
        # ---- O3 (recording overlaps with the design-level TLC runs; validation starts after them)
        scs = pinned_scenarios() + mh_scenarios(ctx) + lik_scenarios(ctx)
        rs, n_ex = run_scenarios(ctx)
        scs += rs
        traces = check_scenarios(ctx, scs, barrier=lambda: [f.result() for f in futs])
    ctx.exhaustive = True
    ctx.notes.append("%d mh traces, %d likelihood data sets, %d runs (%d exhaustive)" %
                     (len(traces.get("mh", [])), len(traces.get("lik", [])), len(traces.get("run", [])), n_ex))
    for kind in ("mh", "lik", "run"):
        for tr in traces.get(kind, [])[5:7]:
            ctx.sample({k: (v[:10] if isinstance(v, list) else v) for k, v in tr.items()})


def replay(ctx, scenario):
    check_scenarios(ctx, [scenario])

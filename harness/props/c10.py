"""C10 - BOLFI posterior matches its definition; the fast GP path equals the GP.

O1: BolfiPosterior.tla (query machine over the lattice of DESIGN T3: outside = -inf, bounds inclusive, shape table,
    coherence of the Phi / log Phi / Mills tables, the gradient factor is the slope of z on two surrogate families,
    the gradient operator lies between the forward and backward differences of the log-density operator; negative
    controls: sign flipped, 1/2 dropped, var for sqrt(var)) and Surrogate.tla (the surrogate as a state machine:
    evidence, gpVersion, cacheVersion, cached, isSampling; AppendOnly, FastPathFresh; negative controls: the
    original code that does not clear the cache flag in update()/optimize() - defect F10 -, and prepending update).
O3: (a, b, c) a REAL BolfiPosterior constructed with a stub surrogate and a stub prior answering lattice values;
    queries inside / on / outside the bounds, scalar / 1-D / 2-D shaped, float and integer typed, arrays and
    lists; BolfiPosterior_Trace.tla recomputes every number with the table arithmetic of BolfiPosteriorOps.
    (d, e) REAL GPyRegression objects (dims 1-3, seeded evidence, hyper-parameters after optimize) driven along
    the histories that TLC emits from Surrogate.tla (one shortest history per abstract transition) and by real
    BOLFI fit / sample / fit / sample runs through a recording subclass; every query is answered by the
    surrogate's method and by the underlying GPy model; Surrogate_Trace.tla compares the two and follows X / Y.
"""
import random
import warnings

import numpy as np

from harness import tlc
from harness.util import Hang, time_limit

NINF = -100000                                                                  # FixedPoint.tla (log prior -inf)
BIG, FXNAN, FXPINF, FXNINF = 2147000000, 2147000001, 2147000002, -2147000002    # FixedPoint.tla
UNIT = 1000000
VARS = (1, 4, 9, 16)


def fxs(x):
    """float returned by elfi -> fixed-point integer (unit 10^-6) or a code (never a float in a log)"""
    x = float(x)
    if x != x:
        return FXNAN
    if x == float("inf"):
        return FXPINF
    if x == float("-inf"):
        return FXNINF
    v = int(round(x * UNIT))
    return v if abs(v) < BIG else (BIG if v > 0 else -BIG)


def flat(a):
    return [fxs(v) for v in np.asarray(a, dtype=float).ravel()]


# =================================================================== part "post": clauses a, b, c
class StubSurrogate:
    """What BolfiPosterior touches of a surrogate: input_dim, bounds, predict, predictive_gradients
    (predict_mean / predictive_gradient_mean only when no threshold is given).  Answers from a table
    keyed by the query row (coordinates in quarters), in the shapes GPyRegression uses."""

    def __init__(self, dim, bounds, points):
        self.input_dim = dim
        self.bounds = [tuple(b) for b in bounds]
        self.table = {tuple(p["c"]): p for p in points}
        self.rows = 0
        self.nless = 0

    def _pts(self, x):
        x = np.asarray(x, dtype=float).reshape((-1, self.input_dim))
        out = []
        for r in x:
            key = tuple(int(round(4 * v)) for v in r)
            if any(k != 4 * v for k, v in zip(key, r)) or key not in self.table:
                raise KeyError("stub surrogate asked about a row that is not a query row: %r" % (r,))
            out.append(self.table[key])
        self.rows += len(out)
        return out

    def predict(self, x, noiseless=False):
        pts = self._pts(x)
        if noiseless:
            self.nless += 1
        mean = np.array([[float(p["mu"])] for p in pts]).reshape((len(pts), 1))
        var = np.array([[float(p["nvar"] if noiseless else p["var"])] for p in pts]).reshape((len(pts), 1))
        return mean, var

    def predictive_gradients(self, x):
        pts = self._pts(x)
        gm = np.array([[float(v) for v in p["gmu"]] for p in pts]).reshape((len(pts), self.input_dim))
        gv = np.array([[float(v) for v in p["gv"]] for p in pts]).reshape((len(pts), self.input_dim))
        return gm, gv

    def predict_mean(self, x):
        return self.predict(x)[0]

    def predictive_gradient_mean(self, x):
        return self.predictive_gradients(x)[0]


class StubPrior:
    """A prior with the shape conventions of elfi.model.extensions.ModelPrior and table values."""

    def __init__(self, dim, points):
        self.dim = dim
        self.table = {tuple(p["c"]): p for p in points}

    def _pts(self, x):
        x = np.asanyarray(x)
        ndim = x.ndim
        x = np.asarray(x, dtype=float).reshape((-1, self.dim))
        return ndim, [self.table[tuple(int(round(4 * v)) for v in r)] for r in x]

    def logpdf(self, x):
        ndim, pts = self._pts(x)
        val = np.array([(-np.inf if p["lp"] == NINF else float(p["lp"])) for p in pts])
        return val[0] if ndim == 0 or (ndim == 1 and self.dim > 1) else val

    def pdf(self, x):
        return np.exp(self.logpdf(x))

    def gradient_logpdf(self, x):
        ndim, pts = self._pts(x)
        g = np.array([[float(v) for v in p["glp"]] for p in pts]).reshape((len(pts), self.dim))
        return g[0] if ndim == 0 or (ndim == 1 and self.dim > 1) else g


def build_x(q, points, dim):
    """the object handed to the posterior for query q"""
    rows = [points[i]["c"] for i in q["idx"]]
    if q["dt"] == "int":
        rows = [[c // 4 for c in r] for r in rows]
        np_t, py_t = np.int64, int
    else:
        rows = [[c / 4.0 for c in r] for r in rows]
        np_t, py_t = np.float64, float
    kind, form = q["kind"], q["form"]
    if kind == "scalar":
        v = rows[0][0]
        return py_t(v) if form == "list" else (np.array(v, dtype=np_t) if form == "0d" else np_t(v))
    data = ([r[0] for r in rows] if dim == 1 else rows[0]) if kind == "1d" else rows
    return data if form == "list" else np.array(data, dtype=np_t)


def record_post(sc):
    from elfi.methods.posteriors import BolfiPosterior
    dim, pts = sc["dim"], sc["points"]
    post = None
    try:
        with time_limit(20):
            stub = StubSurrogate(dim, sc["bounds"], pts)
            post = BolfiPosterior(stub, threshold=float(sc["h"]), prior=StubPrior(dim, pts))
    except Exception:
        post = None
    queries = []
    bufs = {}

    def arg(q):
        """every other scenario plays the caller's loop: ONE argument buffer per shape refilled in place between calls, and the
        returned arrays overwritten after they were read"""
        x = build_x(q, pts, dim)
        if not sc.get("inplace") or not isinstance(x, np.ndarray) or x.ndim == 0:
            return x
        key = (x.shape, x.dtype.str)
        if key not in bufs:
            bufs[key] = x.copy()
        else:
            bufs[key][...] = x
        return bufs[key]
    for q in sc["queries"]:
        ev = dict(fn=q["fn"], kind=q["kind"], pts=[pts[i] for i in q["idx"]], res="raise", shape=[], vals=[], rows=0, nless=0)
        if post is not None:
            stub.rows = 0
            stub.nless = 0
            fn = dict(logpdf=post.logpdf, pdf=post.pdf, grad=post.gradient_logpdf)[q["fn"]]
            try:
                with time_limit(20), warnings.catch_warnings(), np.errstate(all="ignore"):
                    warnings.simplefilter("ignore")
                    out = fn(arg(q))
                    ev.update(res="val", shape=[int(s) for s in np.shape(out)], vals=flat(out))
                    if sc.get("inplace") and isinstance(out, np.ndarray) and out.ndim > 0 and out.flags.writeable:
                        out[...] = -777.0
            except Hang:
                ev["res"] = "hang"
            except Exception as ex:
                ev["exc"] = "%s: %s" % (type(ex).__name__, str(ex)[:120])
            ev["rows"], ev["nless"] = stub.rows, stub.nless
        ev.setdefault("exc", "")
        queries.append(ev)
    return dict(dim=dim, bounds=sc["bounds"], h=sc["h"], queries=queries)


def make_post(rnd, dim, force=None, zr=3):
    """one posterior scenario: bounds, threshold, query rows below / on / inside / on / above the bounds with
    lattice answers; force = (z, sd) of the first interior row"""
    bounds = []
    for _ in range(dim):
        lo = rnd.randint(-2, 1)
        bounds.append([lo, lo + rnd.randint(1, 3)])
    h = rnd.randint(-3, 3)

    def cat(i, k):       # coordinate i in quarters, category k
        lo, hi = 4 * bounds[i][0], 4 * bounds[i][1]
        return {"below": lo - 4, "justbelow": lo - 1, "lo": lo, "justin": lo + 1, "mid": lo + 4 * rnd.randint(0, bounds[i][1] - bounds[i][0]),
                "in": rnd.randint(lo, hi), "hi": hi, "justabove": hi + 1, "above": hi + 4}[k]
    coords = []
    if dim == 1:
        for k in ("mid", "below", "justbelow", "lo", "justin", "in", "hi", "justabove", "above"):
            coords.append([cat(0, k)])
    else:
        coords.append([cat(i, "mid") for i in range(dim)])
        coords.append([cat(i, "lo") for i in range(dim)])
        coords.append([cat(i, "hi") for i in range(dim)])
        coords.append([cat(i, rnd.choice(["lo", "hi", "in"])) for i in range(dim)])
        for i in range(dim):                       # exactly one coordinate outside, the others inside / on
            for k in ("justbelow", "above") if rnd.random() < 0.5 else ("below", "justabove"):
                c = [cat(j, rnd.choice(["mid", "lo", "hi", "in"])) for j in range(dim)]
                c[i] = cat(i, k)
                coords.append(c)
        coords.append([cat(i, rnd.choice(["below", "above"])) for i in range(dim)])
        coords.append([cat(i, "in") for i in range(dim)])
    for _ in range(rnd.randint(0, 2)):
        coords.append([cat(i, rnd.choice(["in", "mid", "justin", "justabove", "lo"])) for i in range(dim)])
    seen, points = set(), []
    for c in coords:
        if tuple(c) in seen:
            continue
        seen.add(tuple(c))
        if force is not None and not points:
            z, sd = force
        else:
            z, sd = rnd.randint(-zr, zr), rnd.choice([1, 2, 3, 4])
        var = sd * sd
        points.append(dict(c=c, mu=h - z * sd, var=var, nvar=rnd.choice([v for v in VARS if v != var]),
                           gmu=[rnd.randint(-3, 3) for _ in range(dim)], gv=[rnd.randint(-3, 3) for _ in range(dim)],
                           lp=rnd.choice([0, 0, -1, -2, NINF]), glp=[rnd.randint(-2, 2) for _ in range(dim)]))
    n = len(points)
    integral = [i for i in range(n) if all(c % 4 == 0 for c in points[i]["c"])]
    inside = [i for i in range(n) if all(4 * b[0] <= c <= 4 * b[1] for c, b in zip(points[i]["c"], bounds))]
    outside = [i for i in range(n) if i not in inside]
    queries = []

    def add(fn, kind, idx, dt="float", form="array"):
        queries.append(dict(fn=fn, kind=kind, idx=list(idx), dt=dt, form=form))
    single = "scalar" if dim == 1 else "1d"
    multi = ["2d"] + (["1d"] if dim == 1 else [])
    for fn in ("logpdf", "grad"):
        for i in range(n):
            add(fn, single, [i], form=rnd.choice(["array", "0d", "list"]) if dim == 1 else rnd.choice(["array", "list"]))
        for i in integral[:3]:
            add(fn, single, [i], dt="int", form=rnd.choice(["array", "list"]))
        for kind in multi:
            add(fn, kind, range(n))
            add(fn, kind, [rnd.choice(inside)])
            add(fn, kind, [rnd.choice(outside)])
            add(fn, kind, outside)
            add(fn, kind, inside, form="list")
            add(fn, kind, rnd.sample(range(n), rnd.randint(2, n)))
            if len(integral) >= 2:
                add(fn, kind, integral, dt="int", form=rnd.choice(["array", "list"]))
    # pdf = exp(logpdf): a few queries per scenario
    for i in rnd.sample(range(n), min(3, n)):
        add("pdf", single, [i], form=rnd.choice(["array", "list"]))
    add("pdf", "2d", range(n))
    add("pdf", rnd.choice(multi), outside)
    return dict(part="post", dim=dim, bounds=bounds, h=h, points=points, queries=queries, inplace=rnd.random() < 0.5)


# =================================================================== part "bolfidef": the posterior a BOLFI object extracts
def _bolfi_sim(t1, t2, batch_size=1, random_state=None):
    return (np.asarray(t1) + 2.0 * np.asarray(t2) + 0.1 * random_state.randn(batch_size))[:, None]


def _col0(y):
    return y[:, 0]


def record_bolfidef(sc):
    """BOLFI with a custom surrogate that lists the parameters in ANOTHER order than the model; precomputed evidence (no
    simulation); logpdf / gradient of the extracted posterior against the definition evaluated with GPy's predict and scipy's
    priors in the SURROGATE's coordinate order (oracle fields)."""
    import scipy.stats as ss
    import elfi
    from elfi.methods.bo.gpy_regression import GPyRegression
    items = []
    try:
        with time_limit(300), warnings.catch_warnings(), np.errstate(all="ignore"):
            warnings.simplefilter("ignore")
            m = elfi.ElfiModel(name="c10b")
            pri = dict(t1=(1.0, 0.5), t2=(-1.0, 2.0))
            elfi.Prior("norm", *pri["t1"], model=m, name="t1")
            elfi.Prior("norm", *pri["t2"], model=m, name="t2")
            elfi.Simulator(_bolfi_sim, m["t1"], m["t2"], observed=np.array([[0.5]]), model=m, name="sim")
            elfi.Summary(_col0, m["sim"], model=m, name="s")
            elfi.Distance("euclidean", m["s"], model=m, name="d")
            names = list(sc["order"])
            bounds = dict(t1=(-3, 3), t2=(-4, 4))
            tm = GPyRegression(names, bounds=bounds)
            rs = np.random.RandomState(sc["seed"])
            n = 14
            ev = dict(t1=rs.uniform(-3, 3, n), t2=rs.uniform(-4, 4, n))
            ev["d"] = np.abs(ev["t1"] + 2.0 * ev["t2"] - 0.5) + 0.05 * rs.rand(n)
            b = elfi.BOLFI(m["d"], target_model=tm, initial_evidence=ev, batch_size=1, seed=1)
            h = float(sc["h"])
            post = b.extract_posterior(threshold=h)
            pts = np.column_stack([rs.uniform(bounds[nm][0], bounds[nm][1], 5) for nm in names])
            mean, var = tm.predict(pts)
            want = ss.norm.logcdf((h - mean[:, 0]) / np.sqrt(var[:, 0]))
            for j, nm in enumerate(names):
                want = want + ss.norm(*pri[nm]).logpdf(pts[:, j])
            got = np.asarray(post.logpdf(pts), dtype=float).reshape(-1)
            one = [float(post.logpdf(x)) for x in pts]
            fx = lambda a: [int(round(max(-2000.0, min(2000.0, float(v))) * 1e6)) for v in a]      # noqa: E731
            items.append(dict(res="val", v=fx(got), o=fx(want), tol=20, clause="P:def"))
            items.append(dict(res="val", v=fx(one), o=fx(want), tol=20, clause="P:def"))
    except Hang:
        items.append(dict(res="hang", v=[], o=[], tol=0, clause="P:def"))
    except Exception as ex:
        items.append(dict(res="raise:%s" % type(ex).__name__, v=[], o=[], tol=0, clause="P:def"))
    return dict(items=items)


def check_bolfidef(ctx, scs=None):
    if scs is None:
        rnd = random.Random(ctx.seed + 606)
        scs = [dict(part="bolfidef", order=o, seed=rnd.randint(1, 10 ** 6), h=rnd.choice([1.0, 0.5, 2.0]))
               for o in (["t2", "t1"], ["t1", "t2"])] * (1 if ctx.quick else 4)
    traces = [record_bolfidef(sc) for sc in scs]
    vs = ctx.validate("OracleRel_Trace", traces, name="bolfidef")
    for sc, tr, v in zip(scs, traces, vs):
        ctx.case(("bolfidef", tuple(sc["order"]), sc["seed"], sc["h"]), nontrivial=True)
        if v["verdict"] != "ok":
            ctx.fail(v["verdict"], sc, detail=tr["items"][min(v["l"] - 2, len(tr["items"]) - 1)])


def post_scenarios(ctx):
    rnd = random.Random(ctx.seed * 7919 + 101)
    zr = 3 if ctx.quick else 4
    out = []
    for dim in (1, 2, 3):
        for sd in (1, 2, 3, 4):
            for z in range(-zr, zr + 1):
                out.append(make_post(rnd, dim, force=(z, sd), zr=zr))
    # the far lower tail (threshold many predictive standard deviations below the mean): Phi underflows single precision
    # long before the double-precision quotient phi / Phi does; small slopes keep the integer arithmetic inside 32 bits
    for dim in (1, 2):
        for sd in (1, 2):
            for z in (-16, -13, -10, -9, -8, -6, -5):
                sc = make_post(rnd, dim, force=(z, sd), zr=zr)
                p0 = sc["points"][0]
                p0["gmu"] = [rnd.randint(-1, 1) for _ in range(dim)]
                p0["gv"] = [rnd.randint(-1, 1) for _ in range(dim)]
                if all(g == 0 for g in p0["gmu"] + p0["gv"]):
                    p0["gmu"][0] = 1
                out.append(sc)
    n_sweep = len(out)
    for _ in range(40 if ctx.quick else 400):
        out.append(make_post(rnd, rnd.choice([1, 2, 2, 3]), zr=zr))
    return out, n_sweep


# =================================================================== part "sur": clauses d, e on GPyRegression
def evidence_row(seed, dim, i):
    """evidence row with id i (>= 1): x in the bounds [-2, 2]^dim (multiples of 1/64), y > 0.5, all distinct"""
    rs = np.random.RandomState([seed % (2 ** 31), dim, i])
    x = np.round(rs.uniform(-2, 2, size=dim) * 64) / 64
    y = float(np.round((1.0 + np.sum(x ** 2) / dim + abs(rs.normal(0, 0.4))) * 1024) / 1024) + i / 4096.0
    return x, y


class IdMap:
    """rows handed to update -> ids; rows of X / Y -> ids (-1 = a row that was never handed in).  Equal rows (an
    acquisition rule may return the same corner of the bounds twice) are told apart by order of appearance."""

    def __init__(self):
        self.x = {}
        self.y = {}

    def add(self, i, x, y):
        self.x.setdefault(tuple(float(v) for v in x), []).append(i)
        self.y.setdefault(float(y), []).append(i)

    @staticmethod
    def _assign(table, keys):
        used, out = set(), []
        for k in keys:
            i = next((c for c in table.get(k, ()) if c not in used), -1)
            used.add(i)
            out.append(i)
        return out

    def ids(self, model):
        gp = getattr(model, "_gp", None)
        if gp is None:
            return [], []
        X = np.asarray(model.X)
        Y = np.asarray(model.Y)
        xi = self._assign(self.x, [tuple(float(v) for v in r) for r in X.reshape((len(X), -1))])
        yi = self._assign(self.y, [float(v) for v in Y.reshape(-1)]) if Y.size == len(Y) else [-1] * len(Y)
        return xi, yi


def lib_answer(model, op, q):
    """the same query answered by the underlying GPy model (trusted side), shaped as the library branch returns it"""
    gp = model._gp
    if gp is None:
        return [], []
    q2 = np.asarray(q, dtype=float).reshape((-1, model.input_dim))
    if op == "predict":
        m, v = gp.predict(q2)
        return flat(m) + flat(v), [list(np.shape(m)), list(np.shape(v))]
    gm, gv = gp.predictive_gradients(q2)
    gm = gm[:, :, 0]
    return flat(gm) + flat(gv), [list(np.shape(gm)), list(np.shape(gv))]


class _NoLimit:
    def __enter__(self):
        return self

    def __exit__(self, *a):
        return False


def query_event(model, op, q, idmap, fast_fn=None, limit=60):
    ev = dict(op=op, k=0, ids=[], b=False, res="raise", fast=[], fshape=[], lib=[], lshape=[], exc="")
    try:
        with (time_limit(limit) if limit else _NoLimit()), warnings.catch_warnings(), np.errstate(all="ignore"):
            warnings.simplefilter("ignore")
            fn = fast_fn or (model.predict if op == "predict" else model.predictive_gradients)
            a, b = fn(q)
            ev.update(res="val", fast=flat(a) + flat(b), fshape=[[int(s) for s in np.shape(a)], [int(s) for s in np.shape(b)]])
    except Hang:
        ev["res"] = "hang"
    except Exception as ex:
        ev["exc"] = "%s: %s" % (type(ex).__name__, str(ex)[:120])
    with warnings.catch_warnings(), np.errstate(all="ignore"):
        warnings.simplefilter("ignore")
        ev["lib"], ev["lshape"] = lib_answer(model, op, q)
    ev["xids"], ev["yids"] = idmap.ids(model)
    ev["cached"] = bool(getattr(model, "_rbf_is_cached", False))
    return ev


def plain_event(model, op, idmap, res="ok", **kw):
    ev = dict(op=op, k=0, ids=[], b=False, res=res, fast=[], fshape=[], lib=[], lshape=[], exc="")
    ev.update(kw)
    ev["xids"], ev["yids"] = idmap.ids(model)
    ev["cached"] = bool(getattr(model, "_rbf_is_cached", False))
    return ev


def record_sur(sc):
    from elfi.methods.bo.gpy_regression import GPyRegression
    dim, seed = sc["dim"], sc["seed"]
    names = ["p%d" % i for i in range(dim)]
    kw = {} if sc["kdef"] else dict(noise_var=0.25)
    if sc.get("kern") == "ard":
        # a user's own kernel of the SAME FORM as the default one (RBF + Bias) but with one length-scale per input: whatever path
        # the surrogate takes for it, its answers are the GP library's
        import GPy
        kw = dict(kernel=GPy.kern.RBF(input_dim=dim, ARD=True, lengthscale=[0.6, 2.5, 1.2][:dim]) + GPy.kern.Bias(input_dim=dim))
    rs = np.random.RandomState(seed % (2 ** 31))
    with warnings.catch_warnings():
        warnings.simplefilter("ignore")
        model = GPyRegression(parameter_names=names, bounds={n: (-2, 2) for n in names}, max_opt_iters=sc.get("opt_iters", 15), **kw)
    idmap = IdMap()
    n_ev = 0
    events = []
    for op, k, flag in sc["hist"]:
        if op == "update":
            ids = list(range(n_ev + 1, n_ev + k + 1))
            n_ev += k
            rows = [evidence_row(seed, dim, i) for i in ids]
            for i, (x, y) in zip(ids, rows):
                idmap.add(i, x, y)
            x = np.array([r[0] for r in rows])
            y = np.array([[r[1]] for r in rows])
            if rs.randint(2):
                y = y[:, 0]
            if dim == 1 and rs.randint(2):
                x = x[:, 0]
            res, exc = "ok", ""
            try:
                with time_limit(120), warnings.catch_warnings(), np.errstate(all="ignore"):
                    warnings.simplefilter("ignore")
                    model.update(x, y, optimize=bool(flag))
            except Hang:
                res = "hang"
            except Exception as ex:
                res, exc = "raise", "%s: %s" % (type(ex).__name__, str(ex)[:120])
            events.append(plain_event(model, "update", idmap, res=res, k=k, ids=ids, b=bool(flag), exc=exc))
        elif op == "optimize":
            res, exc = "ok", ""
            try:
                with time_limit(120), warnings.catch_warnings(), np.errstate(all="ignore"):
                    warnings.simplefilter("ignore")
                    model.optimize()
            except Hang:
                res = "hang"
            except Exception as ex:
                res, exc = "raise", "%s: %s" % (type(ex).__name__, str(ex)[:120])
            events.append(plain_event(model, "optimize", idmap, res=res, exc=exc))
        elif op == "sampling":
            model.is_sampling = bool(flag)
            events.append(plain_event(model, "sampling", idmap, b=bool(flag)))
        else:
            q = np.round(rs.uniform(-2.5, 2.5, size=dim) * 64) / 64
            if rs.randint(2):
                q = q[None, :]
            events.append(query_event(model, op, q, idmap))
    return dict(dim=dim, kdef=bool(sc["kdef"]), events=events)


def sur_cfg(clear, mode, maxchg, maxlen, maxev, invs, props=(), spec="Spec", view=None, kdefs="{TRUE, FALSE}"):
    return ("SPECIFICATION %s\nCONSTANTS\n  ClearOnChange = %s\n  UpdateMode = \"%s\"\n  MaxChanges = %d\n  MaxLen = %d\n"
            "  MaxEvidence = %d\n  KernelDefaults = %s\n%s%s%sCHECK_DEADLOCK FALSE\n"
            % (spec, "TRUE" if clear else "FALSE", mode, maxchg, maxlen, maxev, kdefs,
               ("VIEW %s\n" % view) if view else "", "".join("INVARIANT %s\n" % i for i in invs), "".join("PROPERTY %s\n" % p for p in props)))


PINNED_SUR = [
    # F10, as described in DESIGN section 6: sampling on; predict; sampling off; update; sampling on; predict
    dict(name="F10-update", hist=[["update", 2, False], ["sampling", 0, True], ["predict", 0, False], ["sampling", 0, False],
                                  ["update", 2, False], ["sampling", 0, True], ["predict", 0, False], ["gradients", 0, False]]),
    # the same through optimize(): no shape change, the answers are those of the old hyper-parameters
    dict(name="F10-optimize", hist=[["update", 2, False], ["update", 2, False], ["sampling", 0, True], ["predict", 0, False],
                                    ["optimize", 0, False], ["predict", 0, False], ["gradients", 0, False]]),
    # library-branch gradients do not clear the flag either
    dict(name="F10-gradients", hist=[["update", 2, False], ["update", 1, False], ["sampling", 0, True], ["gradients", 0, False],
                                     ["sampling", 0, False], ["gradients", 0, False], ["update", 1, True], ["sampling", 0, True],
                                     ["gradients", 0, False], ["predict", 0, False]]),
    # resume fitting after sampling, then sample again (what BOLFI.sample; BOLFI.fit; BOLFI.sample does)
    dict(name="resume", hist=[["update", 2, True], ["sampling", 0, True], ["predict", 0, False], ["gradients", 0, False],
                              ["sampling", 0, False], ["predict", 0, False], ["update", 1, False], ["update", 1, True],
                              ["sampling", 0, True], ["predict", 0, False], ["gradients", 0, False], ["sampling", 0, False]]),
]


def sur_scenarios(ctx):
    """spec -> code: one shortest history per abstract transition of Surrogate.tla (original cache rule, the larger
    machine), replayed for dims 1-3."""
    maxchg, maxlen, maxev = (3, 6, 4) if ctx.quick else (4, 8, 6)
    r = ctx.tlc("Gen_Surrogate", "Gen_Surrogate_emit", workers=1, timeout=900, label="emit-histories",
                cfg_text=sur_cfg(False, "append", maxchg, maxlen, maxev, ["Emit"], spec="GenSpec", view="GenView"))
    hists = []
    for v in r.printed:
        if isinstance(v, list) and v and v[0] == "BEH":
            hists.append((bool(v[1]), [[h[0], int(h[1]), bool(h[2])] for h in v[2]]))
    if len(hists) < 200:
        raise tlc.MachineryFailure("behaviour emission produced only %d surrogate histories" % len(hists))
    rnd = random.Random(ctx.seed * 104729 + 7)
    # a history is worth replaying if it asks something after the GP exists
    useful = [h for h in hists if any(e[0] == "update" for e in h[1]) and h[1][-1][0] in ("predict", "gradients", "update", "optimize")]
    n_take = 70 if ctx.quick else 900
    if len(useful) > n_take:
        # keep every history that ends in a fast-path query after a change made while a cache existed (the
        # transitions on which the two cache rules differ), fill up with a seeded sample of the rest
        def risky(h):
            samp, asked, risk = False, False, False
            for e in h[1]:
                if e[0] == "sampling":
                    samp = e[2]
                elif e[0] in ("predict", "gradients") and samp:
                    if risk:
                        return True
                    asked = True
                elif e[0] in ("update", "optimize") and asked:
                    risk = True
            return False
        first = [h for h in useful if h[0] and risky(h)]
        rest = [h for h in useful if not (h[0] and risky(h))]
        rnd.shuffle(first)
        rnd.shuffle(rest)
        first = first[:n_take // 2]
        useful = first + rest[:n_take - len(first)]
    out = []
    for j, p in enumerate(PINNED_SUR):
        for dim in (1, 2, 3):
            out.append(dict(part="sur", name=p["name"], dim=dim, seed=ctx.seed * 1000 + 17 * j + dim, kdef=True, hist=p["hist"], pinned=True))
    n_pinned = len(out)
    for j, (kdef, hist) in enumerate(useful):
        out.append(dict(part="sur", name="emitted", dim=1 + (j + ctx.seed) % 3, seed=rnd.randint(0, 2 ** 30), kdef=kdef, hist=hist))
        if not kdef and out[-1]["dim"] >= 2 and j % 2 == 0:
            out[-1]["kern"] = "ard"
    # the pinned histories (sampling-mode queries after updates) also on a user's ARD kernel of the default form
    for j, p in enumerate(PINNED_SUR):
        for dim in (2, 3):
            out.append(dict(part="sur", name=p["name"] + "/ard", dim=dim, seed=ctx.seed * 1000 + 19 * j + dim, kdef=False, kern="ard", hist=p["hist"]))
    return out, n_pinned, len(hists)


# =================================================================== part "bolfi": d, e under a real BOLFI run
def record_bolfi(sc):
    """BOLFI.fit; extract_posterior; sample; fit more; sample again - the surrogate is a recording subclass of
    GPyRegression, so the calls BOLFI itself makes are the history."""
    import elfi
    from elfi.methods.bo.gpy_regression import GPyRegression
    dim, seed = sc["dim"], sc["seed"]
    names = ["p%d" % i for i in range(dim)]
    idmap = IdMap()
    events = []
    state = dict(next_id=1, since=0, total=0)

    class Rec(GPyRegression):
        def update(self, x, y, optimize=False):
            x2 = np.asarray(x, dtype=float).reshape((-1, self.input_dim))
            y2 = np.asarray(y, dtype=float).reshape(-1)
            ids = []
            for r, v in zip(x2, y2):
                idmap.add(state["next_id"], r, v)
                ids.append(state["next_id"])
                state["next_id"] += 1
            res, exc = "ok", ""
            try:
                super().update(x, y, optimize=optimize)
            except Exception as ex:
                res, exc = "raise", "%s: %s" % (type(ex).__name__, str(ex)[:120])
            events.append(plain_event(self, "update", idmap, res=res, k=len(ids), ids=ids, b=bool(optimize), exc=exc))
            state["since"] = 0
            if res == "raise":
                raise RuntimeError(exc)

        def _log_query(self, op, x, fn):
            x = np.asanyarray(x)
            single = x.size == self.input_dim
            # log the first queries after every state change and a thinned-out rest (single rows only: the
            # statement is about the single-point code)
            state["since"] += 1
            if not single or self._gp is None or not (state["since"] <= 4 or state["since"] % 97 == 0) or state["total"] >= 400:
                return fn(x)
            state["total"] += 1
            box = {}

            def call(q):
                box["out"] = fn(q)
                return box["out"]
            ev = query_event(self, op, x, idmap, fast_fn=call, limit=None)   # the run as a whole is time-limited
            events.append(ev)
            if ev["res"] != "val":
                raise RuntimeError(ev["exc"] or ev["res"])
            return box["out"]

        def predict(self, x, noiseless=False):
            if noiseless:
                return super().predict(x, noiseless=True)
            return self._log_query("predict", x, lambda q: GPyRegression.predict(self, q))

        def predictive_gradients(self, x):
            return self._log_query("gradients", x, lambda q: GPyRegression.predictive_gradients(self, q))

        def __setattr__(self, name, value):
            object.__setattr__(self, name, value)
            if name == "is_sampling" and "_gp" in self.__dict__ and (events or value):
                events.append(plain_event(self, "sampling", idmap, b=bool(value)))
                state["since"] = 0

    old_client = elfi.client.get_client()
    info = dict(res="ok", exc="")
    try:
        with time_limit(240), warnings.catch_warnings(), np.errstate(all="ignore"):
            warnings.simplefilter("ignore")
            elfi.set_client("native")
            m = elfi.ElfiModel(name="c10_%d_%d" % (dim, seed))
            ps = [elfi.Prior("uniform", -2, 4, model=m, name=n) for n in names]

            def sim(*a, batch_size=1, random_state=None):
                th = np.stack([np.asarray(v, dtype=float).reshape(-1) for v in a[:dim]], 1)
                return th + random_state.normal(0, 0.3, size=th.shape)
            S = elfi.Simulator(sim, *ps, observed=np.zeros((1, dim)), name="S")
            d = elfi.Distance("euclidean", S, name="d")
            tm = Rec(parameter_names=names, bounds={n: (-2, 2) for n in names}, max_opt_iters=15)
            import io
            import contextlib
            kw = {}
            if sc["acq"] == "uniform":
                # an acquisition rule that never asks the surrogate: nothing but update() runs between two sample() calls
                from elfi.methods.bo.acquisition import UniformAcquisition
                kw["acquisition_method"] = UniformAcquisition(model=tm, seed=seed % (2 ** 31))
            bo = elfi.BOLFI(d, batch_size=1, initial_evidence=sc["n_init"], update_interval=sc["interval"],
                            bounds={n: (-2, 2) for n in names}, target_model=tm, seed=seed % (2 ** 31), **kw)
            with contextlib.redirect_stdout(io.StringIO()):
                bo.fit(n_evidence=sc["n1"], threshold=sc.get("thr"), bar=False)
                bo.sample(sc["n_samples"], algorithm=sc["alg"], n_chains=2, threshold=sc.get("thr"))
                bo.fit(n_evidence=sc["n2"], threshold=sc.get("thr"), bar=False)
                bo.sample(sc["n_samples"], algorithm=sc["alg"], n_chains=2, threshold=sc.get("thr"))
    except Hang:
        info = dict(res="hang", exc="")
    except Exception as ex:
        info = dict(res="raise", exc="%s: %s" % (type(ex).__name__, str(ex)[:160]))
    finally:
        elfi.client.set_client(old_client)
    return dict(dim=dim, kdef=True, events=events, run=info)


def bolfi_scenarios(ctx):
    rnd = random.Random(ctx.seed * 31 + 5)
    out = []
    # (dim, sampler, acquisition, threshold given?)
    combos = ([(2, "metropolis", "uniform", True), (3, "nuts", "lcbsc", False)] if ctx.quick else
              [(1, "metropolis", "uniform", True), (2, "metropolis", "lcbsc", False), (2, "nuts", "uniform", True),
               (3, "nuts", "lcbsc", True), (3, "metropolis", "uniform", False), (1, "nuts", "lcbsc", True)])
    for dim, alg, acq, thr in combos:
        out.append(dict(part="bolfi", dim=dim, alg=alg, acq=acq, seed=rnd.randint(0, 2 ** 30), n_init=3, interval=rnd.choice([2, 3]),
                        n1=5, n2=7 if ctx.quick else 9, n_samples=16 if ctx.quick else 60, thr=1.5 if thr else None))
    return out


# =================================================================== checking
def pmap(fn, items, procs=6, serial_below=150):
    """order-preserving map; large batches are recorded by forked worker processes (the recorders are pure
    functions of the scenario; every worker runs them in its main thread, so time_limit works)"""
    if len(items) < serial_below:
        return [fn(x) for x in items]
    import multiprocessing
    import elfi  # noqa: F401  (imported before the fork so that the workers inherit it)
    import elfi.methods.bo.gpy_regression  # noqa: F401
    with multiprocessing.get_context("fork").Pool(procs) as pool:
        return pool.map(fn, items, chunksize=max(1, len(items) // (procs * 8)))


def risky_fast_queries(sc):
    """number of fast-path queries asked after a change that followed an earlier fast-path query"""
    samp, asked, risk, n = False, False, False, 0
    for e in sc["hist"]:
        if e[0] == "sampling":
            samp = e[2]
        elif e[0] in ("predict", "gradients") and samp and sc["kdef"]:
            n += 1 if risk else 0
            asked = True
        elif e[0] in ("update", "optimize") and asked:
            risk = True
    return n


def check_scenarios(ctx, scs):
    parts = dict(post=[], sur=[], bolfi=[])
    for sc in scs:
        parts[sc.get("part", "post")].append(sc)
    all_traces = []
    if parts["post"]:
        traces = pmap(record_post, parts["post"])
        verdicts = ctx.validate("BolfiPosterior_Trace", traces, chunk=32, name="post")
        for sc, tr, v in zip(parts["post"], traces, verdicts):
            ctx.trace_events += len(tr["queries"])
            for q in sc["queries"]:
                ctx.case(("post", sc["dim"], str(sc["bounds"]), sc["h"], q["fn"], q["kind"], q["dt"], q["form"],
                          str([sc["points"][i]["c"] for i in q["idx"]]), str([(sc["points"][i]["mu"], sc["points"][i]["var"]) for i in q["idx"]])),
                         nontrivial=True)
            if v["verdict"] != "ok":
                q = sc["queries"][v["l"] - 2] if 0 <= v["l"] - 2 < len(sc["queries"]) else None
                ctx.fail(v["verdict"], sc, detail=dict(at_query=v["l"] - 1, query=q, event=tr["queries"][v["l"] - 2] if q else None))
            elif v["drift"]:
                ctx.drifted(v["drift"], sc)
        all_traces += traces
    for part, rec in (("sur", record_sur), ("bolfi", record_bolfi)):
        if not parts[part]:
            continue
        traces = pmap(rec, parts[part])
        verdicts = ctx.validate("Surrogate_Trace", [dict(dim=t["dim"], kdef=t["kdef"], events=t["events"]) for t in traces], chunk=200, name=part)
        for sc, tr, v in zip(parts[part], traces, verdicts):
            ctx.trace_events += len(tr["events"])
            if part == "sur":
                ctx.case(("sur", sc["dim"], sc["kdef"], str(sc["hist"]), sc["seed"]), nontrivial=risky_fast_queries(sc) > 0 or any(
                    e["op"] in ("predict", "gradients") and e["lib"] for e in tr["events"]))
            else:
                nq = sum(1 for e in tr["events"] if e["op"] in ("predict", "gradients"))
                ctx.case(("bolfi", sc["dim"], sc["alg"], sc["acq"], sc["seed"]), nontrivial=nq > 0)
                ctx.notes.append("BOLFI run dim=%d %s %s: %d events (%d updates, %d logged queries), run %s %s" % (
                    sc["dim"], sc["alg"], sc["acq"], len(tr["events"]), sum(1 for e in tr["events"] if e["op"] == "update"), nq,
                    tr["run"]["res"], tr["run"]["exc"]))
            if v["verdict"] != "ok":
                e = tr["events"][v["l"] - 2] if 0 <= v["l"] - 2 < len(tr["events"]) else None
                ctx.fail(v["verdict"], sc, detail=dict(at_event=v["l"] - 1, event=e, run=tr.get("run")))
            elif v["drift"]:
                ctx.drifted(v["drift"], sc)
        all_traces += traces
    return all_traces


POST_INVS = ["OutsideIsNegInf", "BoundsInclusive", "MonotoneInH", "ShapeCount", "TablesCoherent", "ChainRule", "GradientBrackets"]


def post_cfg(dims, lo, hi, sds, lps, pslopes, variant, invs):
    return ("SPECIFICATION Spec\nCONSTANTS\n  Dims = %s\n  Lo = %d\n  Hi = %d\n  Sds = %s\n  Slopes <- MCSlopes\n  LpVals <- %s\n"
            "  PriorSlopes <- %s\n  Variant = \"%s\"\n%sCHECK_DEADLOCK FALSE\n"
            % (dims, lo, hi, sds, lps, pslopes, variant, "".join("INVARIANT %s\n" % i for i in invs)))


def design_level(ctx):
    acts = ["QueryA", "QueryB"]
    if ctx.quick:
        ctx.tlc("MC_BolfiPosterior", "MC_BolfiPosterior_main", expect_actions=acts, workers=8, timeout=600,
                cfg_text=post_cfg("{1, 2}", 0, 1, "{1, 2}", "MCLpValsSmall", "MCPriorSlopesOne", "code", POST_INVS))
    else:
        ctx.tlc("MC_BolfiPosterior", "MC_BolfiPosterior_main", expect_actions=acts, workers=8, timeout=1500,
                cfg_text=post_cfg("{1, 2}", 0, 2, "{1, 2, 3, 4}", "MCLpVals", "MCPriorSlopes", "code", POST_INVS))
    negs = (("signflip", "GradientBrackets"), ("nohalf", "ChainRule"), ("sigmasq", "ChainRule"))
    for variant, inv in (negs[:2] if ctx.quick else negs):
        ctx.tlc("MC_BolfiPosterior", "MC_BolfiPosterior_neg_%s" % variant, expect_ok=False, workers=4, timeout=600,
                cfg_text=post_cfg("{1}", 0, 1, "{1, 2}", "MCLpValsSmall", "MCPriorSlopesOne", variant, [inv]))
    sacts = ["Update", "Optimize", "SetSampling", "Answer"]
    sinv = ["TypeOK", "FastPathFresh", "AnswersCurrent", "EvidenceIsIdsInOrder"]
    maxchg, maxlen, maxev = (3, 6, 4) if ctx.quick else (4, 7, 5)
    ctx.tlc("Surrogate", "Surrogate_main", expect_actions=sacts, workers=8, timeout=1500,
            cfg_text=sur_cfg(True, "append", maxchg, maxlen, maxev, sinv, props=["AppendOnly"]))
    # the code as found (update/optimize leave _rbf_is_cached alone): FastPathFresh must be refuted (F10)
    ctx.tlc("Surrogate", "Surrogate_neg_F10", expect_ok=False, workers=4, timeout=600,
            cfg_text=sur_cfg(False, "append", 3, 6, 4, ["FastPathFresh"]))
    ctx.tlc("Surrogate", "Surrogate_neg_prepend", expect_ok=False, workers=4, timeout=600,
            cfg_text=sur_cfg(True, "prepend", 3, 6, 4, [], props=["AppendOnly"]))


def run(ctx):
    ctx.rule = ("posterior: a real BolfiPosterior over a stub surrogate / stub prior answering lattice values (mu, h integers, sigma in 1..4, "
                "z = (h-mu)/sigma in -3..3 (thorough -4..4), integer gradients, integer or -inf log prior): sweep of every (z, sigma) for "
                "dims 1-3 plus seeded scenarios, each with rows below / just below / on / just inside / inside / on / just above / above "
                "the bounds, queried through logpdf, gradient_logpdf and pdf as scalar, 1-D and 2-D shaped float and integer arrays and "
                "lists (single rows, all rows, all-inside, all-outside, mixed).  surrogate: real GPyRegression (dims 1-3, seeded "
                "evidence, default kernel and fixed-noise variant) driven along one shortest history per abstract transition of "
                "Surrogate.tla (quick: a seeded sample that keeps the transitions on which the cache rules differ) plus pinned F10 "
                "histories, and real BOLFI fit/sample/fit/sample runs through a recording subclass; every query answered by the class "
                "and by the GPy model.  distinct = distinct query (posterior) / history (surrogate); non-trivial surrogate history = "
                "has a query answered by an existing GP.")
    ctx.clauses_decided = [
        "a: inside the bounds logpdf = log Phi((h-mu)/sigma) + log prior with the NOISY prediction [P:def, table arithmetic +-2e-6, on the lattice; "
        "pdf where the log prior is 0 or -inf]",
        "b: outside the bounds -inf (pdf 0), bounds inclusive [P:outside; rows 1/4 outside are outside, rows on a bound are inside]",
        "c: gradient_logpdf is the derivative [P:grad: the code's number against Mills(z) * dz/dx + prior gradient in integer arithmetic; "
        "O1: that expression brackets the finite differences of the log-density operator and equals the slope of z on two families]",
        "shape table scalar / 1-D / 2-D for dims 1-3 [P:shape]",
        "d: fast single-point predict / predictive_gradients = the GPy model, means, variances, both gradients, after every "
        "update / optimize / toggle history [P:fast-equals-lib, tolerance 5e-6 + 1e-5 relative, GPy trusted]",
        "e: X and Y row-aligned, earlier rows unchanged and in order after every call, update adds exactly its rows [P:append-only]"]
    ctx.clauses_not_decided = [
        "a/c off the lattice (arbitrary mu, sigma): only the differential check d binds the real surrogate, the posterior arithmetic is decided on the lattice",
        "the gradient OUTSIDE the bounds (the density is constantly -inf there): the code's convention 0 + prior gradient is an M: clause",
        "threshold=None (minimum of the GP mean found by L-BFGS-B) - the statement quantifies over given thresholds",
        "pdf where the log prior is a non-zero finite number (needs exp; logpdf is decided there)",
        "d is a differential relation (equal to GPy), not a derivation of the GP algebra; multi-row queries on the fast path are outside the "
        "statement ('single-point') - the fast path returns an n x n variance for n rows; predict(noiseless=True) while is_sampling returns the noisy variance",
        "custom kernels / mean functions (no fast path exists for them; the fixed-noise variant is run and must take the library path)"]
    ctx.trusted_base += ["GPy 1.x GPRegression.predict / predictive_gradients (the trusted side of P:fast-equals-lib)",
                         "scipy.special.log_ndtr accuracy is NOT trusted (checked against the 60-digit table)"]
    ctx.assumptions += ["evidence with observation noise (y jittered, GP noise variance not collapsing): the Woodbury algebra of both paths is well "
                        "conditioned and agrees to ~1e-12 (measured); tolerance 5e-6 + 1e-5 relative"]
    design_level(ctx)
    p_scs, n_sweep = post_scenarios(ctx)
    s_scs, n_pinned, n_emitted = sur_scenarios(ctx)
    b_scs = bolfi_scenarios(ctx)
    scs = p_scs + s_scs + b_scs
    traces = check_scenarios(ctx, scs)
    check_bolfidef(ctx)
    ctx.exhaustive = True
    ctx.notes.append("posterior: %d lattice-sweep + %d seeded scenarios; surrogate: %d pinned + %d of %d emitted histories; %d BOLFI runs"
                     % (n_sweep, len(p_scs) - n_sweep, n_pinned, len(s_scs) - n_pinned, n_emitted, len(b_scs)))
    for i in (0, n_sweep + 1, len(p_scs), len(p_scs) + n_pinned + 1):
        if i < len(scs):
            tr = traces[i]
            small = dict(tr)
            if "queries" in small:
                small["queries"] = small["queries"][:3]
            if "events" in small:
                small["events"] = small["events"][:8]
            sc = dict(scs[i])
            if "queries" in sc:
                sc["queries"] = sc["queries"][:3]
            ctx.sample(dict(scenario=sc, trace=small))


def replay(ctx, scenario):
    if scenario.get("part") == "bolfidef":
        return check_bolfidef(ctx, [scenario])
    check_scenarios(ctx, [scenario])

"""EXTENSION (not one of C01-C20): the two adaptive SMC samplers of elfi/methods/inference/samplers.py.

AdaptiveDistanceSMC ("AD", Prangle 2017 algorithm 5, over elfi.AdaptiveDistance) and AdaptiveThresholdSMC ("AT",
Simola et al. 2021).  A mismatch is reported as drift `E:<clause>` - never as a violation.  Entry point:
check_adaptive(ctx).

O1: AdaptiveSmc.tla: the round structure of both samplers as explicit state machines.  AD: batches of rows with an
    arbitrary distance under every function in force, nested acceptance against [inf] + every earlier population
    threshold, N = ceil(n / quantile) acceptances per round, one new distance function per finished round (scale from
    all rows of the round), re-ranking, population = best n, threshold = its largest new distance, continued sampling
    (further sample() calls keep populations, thresholds and functions).  AT: one quantile estimate per finished
    round, next round only while the estimate is below q_threshold and round < max_iter - 1, threshold = quantile of
    the previous population.  Invariants checked exhaustively for small bounds; refuted controls: newest-threshold-
    only acceptance, adaptation data = accepted rows only, no re-ranking, distance node re-initialised by a continuing
    call, stale quantile in the stop test.
O3: real runs of both samplers on small dyadic models; every batch the sampler consumed and the inner Rejection's
    sample are logged through subclass hooks; numpy / scipy oracle fields (T4) give the nested distances of every
    simulated row, the scales, and the densities of the weight relation; AdaptiveSmc_Trace.tla decides every clause.
    Corrupted copies of recorded traces must be rejected with the expected clause (T5 i).

Findings on the unchanged tree (see PINNED_AT_CONTINUED and float_ceil_art):
 * AdaptiveThresholdSMC: a second sample() call on the same sampler raises TypeError (drift E:continued-sampling-returns,
   pinned scenario, reproduced on every run).
 * Rejection stop rule under a threshold: ceil(n / (n_acceptable / n_sim) / batch_size) is evaluated in doubles, so with
   n_acceptable = n the sampler sometimes consumes one batch more (e.g. 8 / (8 / 49) > 49).  This is the float boundary
   "ceil of an exactly integral quotient" of DESIGN 4 (T2): allowed both ways through the oracle field art, counted in a note.
"""
import math
import random
import threading

import numpy as np
import scipy.stats as ss

from harness import core, tlc
from harness.util import Hang, time_limit

INF = 2000000000          # np.inf in the traces
BAD = 1999999999          # a non-finite / out-of-range value produced by elfi (fails every clause that reads it)
WORKERS = 2          # TLC workers per design run
LANES = 4            # design runs in parallel


class OutOfDomain(Exception):
    """the ORACLE side of a scenario left the fixed-point domain (constant summary column, huge distance): excluded."""


# ------------------------------------------------------------------------------ fixed point
def f4(x):
    x = float(x)
    if not np.isfinite(x):
        return -999999 if x < 0 else 999999
    return int(max(-2 * 10 ** 9, min(2 * 10 ** 9, round(x * 10000))))


def f6_elfi(x):
    """a value elfi produced, unit 1e-6"""
    x = float(x)
    if math.isinf(x) and x > 0:
        return INF
    if not math.isfinite(x) or abs(x) * 1e6 >= 10 ** 9:
        return BAD
    return int(round(x * 1e6))


def f6_oracle(x):
    x = float(x)
    if not math.isfinite(x) or abs(x) * 1e6 >= 10 ** 9:
        raise OutOfDomain(repr(x))
    return int(round(x * 1e6))


# ------------------------------------------------------------------------------ models
OBS_T = 2.0


class Sim2:
    """two outputs of different spread around the sum of the parameters"""

    def __init__(self):
        self.__name__ = "sim"

    def __call__(self, *params, batch_size=1, random_state=None):
        t = sum(np.asarray(p, dtype=float).reshape(-1) for p in params)
        e = random_state.normal(size=(batch_size, 2))
        return np.column_stack([t + 0.5 * e[:, 0], 3.0 * t + 3.0 * e[:, 1]])


class Sim1:
    def __init__(self):
        self.__name__ = "sim"

    def __call__(self, *params, batch_size=1, random_state=None):
        t = sum(np.asarray(p, dtype=float).reshape(-1) for p in params)
        return t + random_state.normal(size=batch_size) * 0.5


def s1(y):          # dyadic: multiples of 1/64
    return np.floor(np.asarray(y, dtype=float)[:, 0] * 64.0) / 64.0


def s2(y):          # dyadic: multiples of 1/16
    return np.floor(np.asarray(y, dtype=float)[:, 1] * 16.0) / 16.0


def sv(y):          # one vector summary of width 2
    return np.column_stack([s1(y), s2(y)])


def summ(y):
    return np.asarray(y, dtype=float)


def disc8(s, observed=None):
    # dyadic discrepancies: multiples of 1/8
    return np.floor(np.abs(np.asarray(s, dtype=float) - observed[0]) * 8.0) / 8.0


LAYOUTS = {"1": [("S1", s1)], "2": [("S1", s1), ("S2", s2)], "v": [("SV", sv)], "1v": [("S1", s1), ("SV", sv)]}


def add_priors(elfi, m, prior):
    if prior == "uniform":
        elfi.Prior("uniform", -1, 5, model=m, name="t1")
        return ["t1"]
    if prior == "normal":
        elfi.Prior("norm", 1, 2, model=m, name="t1")
        return ["t1"]
    elfi.Prior("uniform", 0, 2, model=m, name="t1")          # hierarchical: t2 | t1 ~ U(t1, t1 + 2)
    elfi.Prior("uniform", m["t1"], 2, model=m, name="t2")
    return ["t1", "t2"]


def build_ad(prior, layout):
    import elfi
    m = elfi.ElfiModel(name="xad")
    names = add_priors(elfi, m, prior)
    obs_y = np.array([[OBS_T, 3.0 * OBS_T]])
    elfi.Simulator(Sim2(), *[m[n] for n in names], model=m, name="sim", observed=obs_y)
    sums = []
    for sname, f in LAYOUTS[layout]:
        elfi.Summary(f, m["sim"], model=m, name=sname)
        sums.append(sname)
    elfi.AdaptiveDistance(*[m[s] for s in sums], model=m, name="d")
    obs = np.column_stack([f(obs_y) for _s, f in LAYOUTS[layout]])
    return m, names, sums, obs


def build_at(prior):
    import elfi
    m = elfi.ElfiModel(name="xat")
    names = add_priors(elfi, m, prior)
    elfi.Simulator(Sim1(), *[m[n] for n in names], model=m, name="sim", observed=np.array([OBS_T]))
    elfi.Summary(summ, m["sim"], model=m, name="S")
    elfi.Discrepancy(disc8, m["S"], model=m, name="d")
    return m, names


# ------------------------------------------------------------------------------ scipy / numpy oracles (T4)
def prior_logpdf(prior, X):
    X = np.atleast_2d(X)
    if prior == "uniform":
        return ss.uniform.logpdf(X[:, 0], -1, 5)
    if prior == "normal":
        return ss.norm.logpdf(X[:, 0], 1, 2)
    return ss.uniform.logpdf(X[:, 0], 0, 2) + ss.uniform.logpdf(X[:, 1], X[:, 0], 2)


def mixture_logpdf(X, means, cov, weights):
    X = np.atleast_2d(X)
    w = np.asarray(weights, dtype=float) / np.sum(weights)
    dens = np.zeros(len(X))
    for mu, wi in zip(np.atleast_2d(means), w):
        dens += wi * ss.multivariate_normal.pdf(X, mean=mu, cov=cov)
    with np.errstate(divide="ignore"):
        return np.log(dens)


def wvar_def(X, w):
    """reliability-weights unbiased variance, by the definition"""
    X = np.atleast_2d(X)
    w = np.asarray(w, dtype=float)
    V1, V2 = w.sum(), (w ** 2).sum()
    mu = (w[:, None] * X).sum(0) / V1
    return (w[:, None] * (X - mu) ** 2).sum(0) / (V1 - V2 / V1)


def nested_oracle(S, obs, wlist):
    """distance of every row of S under the plain Euclidean function and under each scale of wlist"""
    dlt = np.atleast_2d(S) - obs
    cols = [np.sqrt(np.sum(dlt ** 2, axis=1))]
    for w in wlist:
        cols.append(np.sqrt(np.sum((dlt * w) ** 2, axis=1)))
    return np.column_stack(cols)


def weight_fields(prior, names, pop, prev):
    """the Smc_Trace fields of one population (prev = the population before it or None)"""
    X = np.column_stack([pop.outputs[n] for n in names])
    with np.errstate(all="ignore"):
        lp = prior_logpdf(prior, X)
        e = dict(ws=[f4(w) for w in pop.weights], pp=[(f4(np.exp(v)) if np.isfinite(v) else 0) for v in lp],
                 cov=[f4(c) for c in np.diag(np.atleast_2d(pop.cov))], wvar=[f4(v) for v in wvar_def(X, pop.weights)],
                 lw=[], lp=[], lq=[])
        tot = float(np.sum(pop.weights))
        e["wn"] = [int(round(float(w) / tot * 10000)) if tot > 0 and np.isfinite(tot) else 0 for w in pop.weights]
        if prev is not None:
            Xq = np.column_stack([prev.outputs[n] for n in names])
            e["lw"] = [f4(np.log(w)) for w in pop.weights]
            e["lp"] = [f4(v) for v in lp]
            e["lq"] = [f4(v) for v in mixture_logpdf(X, Xq, np.atleast_2d(prev.cov), prev.weights)]
    return e


def float_ceil_art(n, accs, bs):
    """ORACLE for the float boundary of Rejection._update_objective_n_batches: art[b] = 1 iff after batch b + 1 the target n was reached
    (accs[b] = accepted rows so far, as held by the buffer of n + bs rows) and the code's estimate of the batches needed,
    ceil((n / (n_acceptable / n_sim) + margin) / batch_size) evaluated in doubles as the code does, still exceeds the batches consumed."""
    art = []
    for b, acc in enumerate(accs):
        nb = b + 1
        acc = min(int(acc), n + bs)
        if acc < n:
            art.append(0)
            continue
        rate = acc / (nb * bs)
        art.append(int(math.ceil((n / rate + .2 * bs * int(acc < n)) / bs) > nb))
    return art


def pop_event(**kw):
    e = dict(ev="pop", raised="", r=0, sizes=[], nb=0, nsim=0, ds=[], thr_rep=0, ws=[], wn=[], pp=[], lw=[], lp=[], lq=[], cov=[], wvar=[],
             ncols=[], nest=[], rows=[], rows_elfi=[], w_elfi=[], w_orc=[], cand=[], cnew=[], pop=[],
             rowd=[], thr_force=0, a=0, qest=-1, mr=-1, npops=0, ndf=0, cont=0, art=[])
    e.update(kw)
    return e


def end_event(**kw):
    return pop_event(ev="end", **kw)


def trace(**kw):
    t = dict(kind="", n=0, N=0, qa=1, qA=1, bs=1, rounds=0, ncol=0, max_iter=0, qthr=0, q0a=1, q0A=1, events=[])
    t.update(kw)
    return t


# ------------------------------------------------------------------------------ AdaptiveDistanceSMC: record
def rowkey(p, s):
    return np.concatenate([np.asarray(p, dtype=float).reshape(-1), np.asarray(s, dtype=float).reshape(-1)]).tobytes()


def record_ad(sc):
    """-> trace, or None when the oracle side leaves the fixed-point domain (excluded scenario)"""
    import elfi
    m, names, sums, obs = build_ad(sc["prior"], sc["layout"])
    batches, captured = {}, {}

    class RecAD(elfi.AdaptiveDistanceSMC):
        def update(self, batch, batch_index):
            r = self.state["round"]
            thr = self._rejection.objective.get("threshold")
            d = np.array(batch[self.discrepancy_name], dtype=float)
            batches.setdefault(r, []).append(dict(
                P=np.column_stack([np.array(batch[n], dtype=float) for n in names]),
                S=np.column_stack([np.array(batch[s], dtype=float) for s in sums]),
                D=d.reshape(len(d), -1), thr=None if thr is None else [float(t) for t in np.atleast_1d(thr)]))
            super().update(batch, batch_index)

        def _extract_population(self):
            rej = self._rejection
            pop = super()._extract_population()
            N = rej.objective["n_samples"]
            captured[len(self._populations)] = {k: np.array(v[:N]) for k, v in rej.state["samples"].items()}
            return pop

    events = []
    tr = trace(kind="AD", n=sc["n"], qa=sc["q"][0], qA=sc["q"][1], bs=sc["bs"], rounds=sc["rounds"] + sc.get("rounds2", 0),
               ncol=int(obs.shape[1]), events=events)
    cont = 0
    try:
        with time_limit(120):
            smc = RecAD(m["d"], batch_size=sc["bs"], seed=sc["seed"], max_parallel_batches=sc["mp"])
            res = smc.sample(sc["n"], rounds=sc["rounds"], quantile=sc["q"][0] / sc["q"][1], bar=False)
            if sc.get("rounds2"):          # continued sampling on the same sampler
                cont = 1
                res = smc.sample(sc["n"], rounds=sc["rounds2"], quantile=sc["q"][0] / sc["q"][1], bar=False)
            ndf = len(smc.model["d"].state["distance_functions"])
        tr["N"] = int(smc.objective["n_samples"])
        worc = []          # oracle scale of every finished round: 1 / population std of ALL its rows
        for i, pop in enumerate(res.populations):
            bl = batches.get(i, [])
            P = np.vstack([b["P"] for b in bl])
            S = np.vstack([b["S"] for b in bl])
            std = np.std(S, axis=0)
            if np.any(std == 0):
                raise OutOfDomain("constant summary column in round %d" % i)
            orc = nested_oracle(S, obs, worc)
            worc.append(1.0 / std)
            index = {}
            for x in range(len(P)):
                index.setdefault(rowkey(P[x], S[x]), x + 1)
            cap = captured[i]
            cP = np.column_stack([cap[n] for n in names])
            cS = np.column_stack([cap[s] for s in sums])
            cand = [index.get(rowkey(cP[c], cS[c]), 0) for c in range(len(cP))]
            cnew = nested_oracle(cS, obs, worc)[:, -1]
            cindex = {}
            for c in range(len(cP)):
                cindex.setdefault(rowkey(cP[c], cS[c]), c + 1)
            pP = np.column_stack([pop.outputs[n] for n in names])
            pS = np.column_stack([pop.outputs[s] for s in sums])
            accs, acc = [], 0
            for b in bl:
                acc += len(b["D"]) if b["thr"] is None else int(np.sum(np.all(b["D"] <= np.asarray(b["thr"]), axis=1)))
                accs.append(acc)
            e = pop_event(r=i, sizes=[int(len(v)) for v in pop.outputs.values()], nb=len(bl), nsim=int(pop.n_sim),
                          art=float_ceil_art(tr["N"], accs, sc["bs"]) if i else [0] * len(bl),
                          ds=[f6_elfi(d) for d in np.asarray(pop.outputs["d"]).reshape(-1)], thr_rep=f6_elfi(pop.threshold),
                          ncols=[int(b["D"].shape[1]) for b in bl],
                          nest=[] if not bl or bl[0]["thr"] is None else [f6_elfi(t) for t in bl[0]["thr"]],
                          rows=[[f6_oracle(v) for v in row] for row in orc],
                          rows_elfi=[[f6_elfi(v) for v in row] for b in bl for row in b["D"]],
                          w_elfi=[f6_elfi(w) for w in np.asarray(pop.adaptive_distance_w, dtype=float).reshape(-1)],
                          w_orc=[f6_oracle(w) for w in worc[-1]],
                          cand=cand, cnew=[f6_oracle(v) for v in cnew],
                          pop=[cindex.get(rowkey(pP[p], pS[p]), 0) for p in range(len(pP))])
            e.update(weight_fields(sc["prior"], names, pop, res.populations[i - 1] if i else None))
            events.append(e)
        events.append(end_event(nsim=int(res.n_sim), npops=len(res.populations), ndf=int(ndf)))
    except OutOfDomain:
        return None
    except Hang:
        events.append(end_event(raised="Hang", nsim=-1, cont=cont))
    except Exception as ex:
        events.append(end_event(raised="%s: %s" % (type(ex).__name__, str(ex)[:100]), nsim=-1, cont=cont))
    return tr


# ------------------------------------------------------------------------------ AdaptiveThresholdSMC: record
def record_at(sc):
    import elfi
    from elfi.methods.density_ratio_estimation import DensityRatioEstimation
    m, names = build_at(sc["prior"])
    mrs, rowd = [], {}

    class RecDRE(DensityRatioEstimation):
        def max_ratio(self):
            v = super().max_ratio()
            mrs.append(float(v))
            return v

    class RecAT(elfi.AdaptiveThresholdSMC):
        def update(self, batch, batch_index):
            r = self.state["round"]
            rowd.setdefault(r, []).extend(float(x) for x in np.asarray(batch[self.discrepancy_name], dtype=float).reshape(-1))
            super().update(batch, batch_index)

    events = []
    tr = trace(kind="AT", n=sc["n"], bs=sc["bs"], max_iter=sc["max_iter"] + sc.get("max_iter2", 0), qthr=int(round(sc["qthr"] * 1e6)),
               q0a=sc["q0"][0], q0A=sc["q0"][1], events=events)
    cont = 0
    try:
        with time_limit(120):
            dre = RecDRE(n=sc["basis"], epsilon=0.001, max_iter=30, abs_tol=0.01, fold=5, optimize=False)
            smc = RecAT(m["d"], batch_size=sc["bs"], seed=sc["seed"], max_parallel_batches=sc["mp"], q_threshold=sc["qthr"],
                        initial_quantile=sc["q0"][0] / sc["q0"][1], densratio_estimation=dre)
            res = smc.sample(sc["n"], max_iter=sc["max_iter"], bar=False)
            if sc.get("max_iter2"):        # continued sampling on the same sampler
                cont = 1
                res = smc.sample(sc["n"], max_iter=sc["max_iter2"], bar=False)
        qs = list(smc._quantiles)
        thrs = list(smc.objective["thresholds"])
        for i, pop in enumerate(res.populations):
            rd = rowd.get(i, [])
            qn = qs[i + 1] if i + 1 < len(qs) else None
            if qn is None:
                qest = -1
            elif not math.isfinite(float(qn)):
                qest = -2
            else:
                qest = int(round(float(qn) * 1e6))
            mr = -1
            if i < len(mrs) and math.isfinite(mrs[i]) and mrs[i] >= 0:
                mr = int(min(10 ** 9, round(mrs[i] * 1000)))
            nb = len(rd) // sc["bs"]
            tf = float("inf") if i >= len(thrs) or thrs[i] is None else float(thrs[i])
            accs = [sum(1 for d in rd[:(b + 1) * sc["bs"]] if d <= tf) for b in range(nb)]
            e = pop_event(r=i, sizes=[int(len(v)) for v in pop.outputs.values()], nb=nb, nsim=int(pop.n_sim),
                          art=float_ceil_art(sc["n"], accs, sc["bs"]) if i else [0] * nb,
                          ds=[int(round(float(d) * 8)) for d in pop.discrepancies], thr_rep=int(round(float(pop.threshold) * 8)),
                          rowd=[int(round(d * 8)) if math.isfinite(d) else BAD for d in rd],
                          thr_force=INF if i >= len(thrs) or thrs[i] is None else int(round(float(thrs[i]) * 8)),
                          a=int(round(float(qs[i]) * 1e4)) if i < len(qs) and qs[i] is not None and math.isfinite(float(qs[i])) else 0,
                          qest=qest, mr=mr)
            e.update(weight_fields(sc["prior"], names, pop, res.populations[i - 1] if i else None))
            events.append(e)
        events.append(end_event(nsim=int(res.n_sim), npops=len(res.populations)))
    except Hang:
        events.append(end_event(raised="Hang", nsim=-1, cont=cont))
    except Exception as ex:
        events.append(end_event(raised="%s: %s" % (type(ex).__name__, str(ex)[:100]), nsim=-1, cont=cont))
    return tr


def record(sc):
    return record_ad(sc) if sc["kind"] == "AD" else record_at(sc)


# ------------------------------------------------------------------------------ scenarios
# FINDING (real behaviour of elfi, reproduced on every run): a second sample() call on an AdaptiveThresholdSMC sampler raises
# TypeError.  set_objective prepares "continued estimation" (state['round'] = len(self._populations), rounds += round) but
# re-creates self._quantiles as [initial_quantile, None, ...], so _init_new_round -> SMC._set_threshold reads
# self._quantiles[round] = None and weighted_sample_quantile compares floats with None.  SMC and AdaptiveDistanceSMC continue
# correctly.  Reported as drift E:continued-sampling-returns; set PIN_AT_CONTINUED = False to drop the pinned scenario.
PIN_AT_CONTINUED = True
PINNED_AT_CONTINUED = dict(kind="AT", prior="uniform", n=5, bs=2, max_iter=2, max_iter2=2, qthr=0.99, q0=[1, 2], basis=3, mp=1, seed=3,
                           pinned="AT-continued-sampling")


def scenarios(ctx):
    rnd = random.Random(ctx.seed * 7907 + 31)
    out = []
    # pinned: three and four rounds, so that the nested test has at least two finite thresholds
    out.append(dict(kind="AD", prior="uniform", layout="2", n=3, q=[1, 2], rounds=4, bs=2, mp=1, seed=11))
    out.append(dict(kind="AD", prior="normal", layout="1", n=2, q=[1, 4], rounds=3, bs=3, mp=3, seed=12))
    out.append(dict(kind="AD", prior="hier", layout="v", n=4, q=[3, 4], rounds=3, bs=5, mp=1, seed=13))
    # pinned: continued sampling (a second sample() call on the same sampler keeps thresholds and distance functions)
    out.append(dict(kind="AD", prior="uniform", layout="2", n=3, q=[1, 2], rounds=2, rounds2=2, bs=2, mp=1, seed=14))
    n_ad = 11 if ctx.quick else 80
    for i in range(n_ad - len(out)):
        sc = dict(kind="AD", prior=["uniform", "normal", "hier"][i % 3], layout=rnd.choice(["1", "2", "2", "v", "1v"]),
                  n=rnd.choice([2, 3, 4, 5]), q=rnd.choice([[1, 2], [1, 2], [1, 4], [3, 4], [5, 8], [1, 1]]),
                  rounds=rnd.choice([1, 2, 3, 3, 4]), bs=rnd.choice([1, 2, 3, 5]), mp=rnd.choice([1, 1, 3]),
                  seed=rnd.randint(0, 2 ** 31 - 1))
        if i % 5 == 4 and sc["rounds"] <= 2:
            sc["rounds2"] = rnd.choice([1, 2])
        out.append(sc)
    n_at = 11 if ctx.quick else 75
    # pinned: q_threshold so low that the run must stop after the first population; max_iter = 1
    out.append(dict(kind="AT", prior="uniform", n=5, bs=2, max_iter=4, qthr=0.05, q0=[1, 2], basis=3, mp=1, seed=21))
    out.append(dict(kind="AT", prior="normal", n=4, bs=3, max_iter=1, qthr=0.9, q0=[1, 4], basis=2, mp=1, seed=22))
    # pinned: the float boundary of the inner Rejection's stop rule (8 / (8 / 49) > 49 in doubles: one batch beyond n acceptances)
    out.append(dict(kind="AT", prior="normal", n=8, bs=1, max_iter=2, qthr=0.7, q0=[1, 4], basis=4, mp=3, seed=2129692660, pinned="float-ceil"))
    if PIN_AT_CONTINUED:
        out.append(dict(PINNED_AT_CONTINUED))
    for i in range(n_at - 3):
        n = rnd.choice([4, 5, 6, 8])
        out.append(dict(kind="AT", prior=["uniform", "normal", "hier"][i % 3], n=n, bs=rnd.choice([1, 2, 3, 4]),
                        max_iter=rnd.choice([2, 3, 3, 4, 5]), qthr=rnd.choice([0.5, 0.7, 0.9, 0.9, 0.99, 0.99]),
                        q0=rnd.choice([[1, 2], [1, 4], [3, 4]]), basis=rnd.choice([2, 3, 4]), mp=rnd.choice([1, 1, 3]),
                        seed=rnd.randint(0, 2 ** 31 - 1)))
    return out


# ------------------------------------------------------------------------------ O1: design
AD_INV = ["NSimAdds", "PopNSim", "UsesLatestPopulation", "NeverMoreThanRounds", "ADNestedAcceptance", "ADPopulationSize", "ADRowWidth",
          "ADThresholdIsMax", "ADBestUnderNewDistance", "ADOneFunctionPerRound", "ADNestMatchesFunctions", "ADAdaptationData",
          "ADRoundEndsAtN", "ADAllRounds"]
AT_INV = ["NSimAdds", "PopNSim", "UsesLatestPopulation", "NeverMoreThanRounds", "ATStopRule", "ATContinueRule", "ATQuantileList",
          "ATQuantileOfPrevious", "ATDoneHasPopulation"]


def mc_cfg(sampler, variant, n, N, bs, rounds, nvals, maxb, invs, qs=(1, 2, 3), qthr=3, calls=1):
    return """SPECIFICATION Spec
CONSTANTS
  Sampler = "%s"
  Variant = "%s"
  PopN = %d
  CandN = %d
  BS = %d
  Rounds = %d
  MaxCalls = %d
  Vals = {%s}
  MaxBatches = %d
  Qs = {%s}
  QThr = %d
%s
CHECK_DEADLOCK FALSE
""" % (sampler, variant, n, N, bs, rounds, calls, ", ".join(str(v) for v in range(1, nvals + 1)), maxb, ", ".join(map(str, qs)), qthr,
       "\n".join("INVARIANT " + i for i in invs))


class _Lane:
    """The fields Ctx.tlc touches.  Each lane of design checks runs Ctx.tlc (the same code path) on its own lane object in its
    own thread; the lanes are merged into ctx in the main thread afterwards, so ctx is never written concurrently."""
    tlc = core.Ctx.tlc

    def __init__(self, ctx):
        self.outdir = ctx.outdir
        self.states = self.transitions = 0
        self.tlc_runs, self.negative_controls = [], []


def design_jobs(ctx):
    """MC_AdaptiveSmc_*: the cfg texts are generated here (as c07.mc_cfg does).  -> list of callables(lane)"""
    jobs = []
    # (n, N, bs, rounds per call, |Vals|, MaxBatches, sample() calls)
    ad = [(1, 2, 1, 3, 2, 3, 1), (1, 2, 1, 1, 2, 3, 3), (1, 2, 2, 3, 2, 2, 1), (2, 3, 2, 1, 2, 3, 2)]
    if not ctx.quick:
        ad += [(2, 3, 2, 3, 2, 3, 1), (2, 3, 1, 3, 2, 4, 1), (1, 2, 1, 2, 2, 3, 2), (2, 3, 1, 2, 3, 4, 1)]
    for (n, N, bs, rounds, nv, mb, calls) in ad:
        jobs.append(lambda lane, a=(n, N, bs, rounds, nv, mb), calls=calls: lane.tlc(
            "AdaptiveSmc", "MC_AdaptiveSmc_AD_n%d_N%d_bs%d_r%d_v%d_b%d_c%d" % (a + (calls,)),
            cfg_text=mc_cfg("AD", "code", *a, AD_INV, calls=calls),
            expect_actions=["ADBatch", "ADEndRound"] + (["ADContinue"] if calls > 1 else []),
            workers=WORKERS, timeout=1200, label="AdaptiveSmc AD (extension)"))
    for (rounds, qs, qthr) in [(4, (1, 2, 3), 3)] + ([] if ctx.quick else [(6, (1, 2, 3, 4), 3)]):
        jobs.append(lambda lane, rounds=rounds, qs=qs, qthr=qthr: lane.tlc(
            "AdaptiveSmc", "MC_AdaptiveSmc_AT_r%d" % rounds, cfg_text=mc_cfg("AT", "code", 1, 1, 2, rounds, 1, 2, AT_INV, qs, qthr),
            expect_actions=["ATEndRound"], workers=WORKERS, timeout=600, label="AdaptiveSmc AT (extension)"))

    # negative controls: each variant must be refuted by the invariant it breaks
    def neg(lane, sampler, variant, args, calls, inv):
        r = lane.tlc("AdaptiveSmc", "MC_AdaptiveSmc_neg_%s" % variant, cfg_text=mc_cfg(sampler, variant, *args, [inv], calls=calls),
                     expect_ok=False, workers=WORKERS, timeout=600, label="AdaptiveSmc negative control %s" % variant)
        if r.violated != inv:
            raise tlc.MachineryFailure("negative control %s refuted by %s, expected %s" % (variant, r.violated, inv))
    for spec in [("AD", "newest_only", (1, 2, 1, 3, 2, 3), 1, "ADNestedAcceptance"),
                 ("AD", "accepted_only", (1, 2, 1, 3, 2, 3), 1, "ADAdaptationData"),
                 ("AD", "no_rerank", (2, 3, 1, 2, 2, 4), 1, "ADBestUnderNewDistance"),
                 ("AD", "reset_functions", (1, 2, 1, 1, 2, 3), 2, "ADOneFunctionPerRound"),
                 ("AT", "stale_quantile", (1, 1, 2, 3, 1, 2), 1, "ATStopRule")]:
        jobs.append(lambda lane, spec=spec: neg(lane, *spec))
    return jobs


class Design:
    """runs the design jobs on LANES threads (TLC is a subprocess; <= LANES * WORKERS = 8 TLC workers)"""

    def __init__(self, ctx):
        self.ctx = ctx
        jobs = design_jobs(ctx)
        self.lanes = [_Lane(ctx) for _ in range(LANES)]
        self.errors = []
        self.threads = [threading.Thread(target=self._run, args=(self.lanes[k], jobs[k::LANES]), daemon=True) for k in range(LANES)]
        for th in self.threads:
            th.start()

    def _run(self, lane, jobs):
        try:
            for job in jobs:
                job(lane)
        except BaseException as ex:      # re-raised in the main thread by join()
            self.errors.append(ex)

    def join(self):
        for th in self.threads:
            th.join()
        for lane in self.lanes:
            self.ctx.states += lane.states
            self.ctx.transitions += lane.transitions
            self.ctx.tlc_runs += lane.tlc_runs
            self.ctx.negative_controls += lane.negative_controls
        if self.errors:
            raise self.errors[0]


# ------------------------------------------------------------------------------ check
CLAUSES_DESIGN = [
    "AD nested acceptance: every particle of population r passed EVERY earlier threshold under the function of that round",
    "AD #distance functions = #finished rounds + 1; #thresholds tested = #distance columns",
    "AD adaptation data of a round = all rows simulated in it; a round ends at the first batch reaching N acceptances",
    "AD population = best n of the N candidates under the NEW distance, threshold = its largest new distance",
    "AT a later round is started only below q_threshold; fewer than max_iter populations only if the last estimate >= q_threshold",
    "AT threshold of round r = quantile (estimated after round r-1) of population r-1; one estimate per round but the last possible",
    "both: n_sim adds up over rounds, proposals from the latest population, at most Rounds populations"]
CLAUSES_TRACE = [
    "AD: N = ceil(n/quantile); n_sim = batches x batch_size; thresholds in force = [inf] + all earlier population thresholds; "
    "distance columns = round + 1; scale of the new function = numpy std of ALL rows of the round (T4); the node's batch output = "
    "oracle nested distances; round ends at the first batch with N nested acceptances (boundary rows both ways); candidates / "
    "particles are simulated rows that passed every earlier threshold; discrepancy = new distance; threshold = max; population = "
    "best n of N under the new distance; weights / covariance relations as C07; totals and counts at the end",
    "AT: first round ceil(ceil(n/q0)/bs) batches; later rounds only after an estimate below q_threshold; threshold = weighted "
    "quantile of the previous population at the estimated quantile; discrepancies within it; round ends at the first batch with n "
    "acceptances; population = the n smallest accepted; estimate = max(1/max(max_ratio,1), 0.05) of the hooked max_ratio; early stop "
    "only at q_threshold; at most max_iter populations; weights / covariance relations as C07"]


def corruptions(kept):
    """Negative controls of the trace spec (binding demonstration, T5 i): (what, expected clause, trace) where one recorded
    field of a trace taken from a real run is changed.  Python only picks WHERE to corrupt; TLC must reject with the clause."""
    import copy
    out = []
    src = {id(tr): k for k, (_sc, tr) in enumerate(kept)}
    ad = [tr for sc, tr in kept if sc["kind"] == "AD" and tr["events"][-1]["raised"] == ""]
    at = [tr for sc, tr in kept if sc["kind"] == "AT" and tr["events"][-1]["raised"] == ""]

    def nested_reject(tr):
        # a simulated row that passes the NEWEST threshold in force but fails an earlier one (else: any rejected row)
        best = None
        for k, e in enumerate(tr["events"]):
            if e["ev"] != "pop" or len(e["nest"]) < 2:
                continue
            for x, row in enumerate(e["rows"]):
                if (x + 1) in e["cand"]:
                    continue
                bad = [c for c in range(1, len(row)) if row[c] > e["nest"][c] + 1000]
                if bad and row[-1] <= e["nest"][-1] - 1000 and len(row) >= 3:
                    return k, x + 1
                if bad and best is None:
                    best = (k, x + 1)
        return best
    for tr in ad:
        hit = nested_reject(tr)
        if hit:
            t = copy.deepcopy(tr)
            e = t["events"][hit[0]]
            e["cand"][e["pop"][0] - 1] = hit[1]
            out.append(("AD: a particle re-pointed to a simulated row that fails an earlier nested threshold",
                        "P:particle-passed-every-earlier-nested-threshold", t, src[id(tr)]))
            break
    if ad:
        t = copy.deepcopy(ad[0])
        k = max(i for i, e in enumerate(t["events"]) if e["ev"] == "pop")
        t["events"][k]["thr_rep"] += 7
        out.append(("AD: reported threshold of the last population off by 7e-6", "P:threshold-is-largest-new-distance-of-population", t, src[id(ad[0])]))
        t = copy.deepcopy(ad[0])
        t["events"][0]["w_elfi"][0] += t["events"][0]["w_elfi"][0] // 100 + 5
        out.append(("AD: reported distance weight off by 1 per cent", "P:new-distance-scale-is-std-of-all-rows-of-the-round", t, src[id(ad[0])]))
        t = copy.deepcopy(ad[0])
        t["events"][-1]["ndf"] += 1
        out.append(("AD: one distance function too many at the end", "P:one-distance-function-per-finished-round", t, src[id(ad[0])]))
    for tr in at:
        pops = [e for e in tr["events"] if e["ev"] == "pop"]
        if 0 < len(pops) < tr["max_iter"] and pops[-1]["qest"] >= 0:
            t = copy.deepcopy(tr)
            t["qthr"] = pops[-1]["qest"] + 1000
            out.append(("AT: q_threshold raised above the last estimate of a run that stopped early",
                        "P:early-stop-only-when-estimated-quantile-reaches-q_threshold", t, src[id(tr)]))
            break
    for tr in at:
        pops = [e for e in tr["events"] if e["ev"] == "pop"]
        if len(pops) >= 2 and pops[0]["qest"] > 2000:
            t = copy.deepcopy(tr)
            t["qthr"] = pops[0]["qest"] - 1000
            out.append(("AT: q_threshold lowered below the estimate after which a round was started",
                        "P:round-started-only-while-estimated-quantile-below-q_threshold", t, src[id(tr)]))
            break
    for tr in at:
        pops = [(i, e) for i, e in enumerate(tr["events"]) if e["ev"] == "pop"]
        done = False
        for (i0, e0), (i1, e1) in zip(pops, pops[1:]):
            for v in sorted(set(e0["ds"])):
                le = sum(w for d, w in zip(e0["ds"], e0["wn"]) if d <= v)
                lt = sum(w for d, w in zip(e0["ds"], e0["wn"]) if d < v)
                if v != e1["thr_force"] and (le < e1["a"] - 800 or lt > e1["a"] + 800):
                    t = copy.deepcopy(tr)
                    t["events"][i1]["thr_force"] = v
                    out.append(("AT: threshold in force replaced by another discrepancy of the previous population",
                                "P:threshold-is-weighted-quantile-of-previous-population", t, src[id(tr)]))
                    done = True
                    break
            if done:
                break
        if done:
            break
    return out


def check_adaptive(ctx):
    """design check in a background thread (TLC is a subprocess) while the main thread records the real runs."""
    bg = Design(ctx)
    scs = scenarios(ctx)
    traces = [record(sc) for sc in scs]
    bg.join()
    kept = [(sc, tr) for sc, tr in zip(scs, traces) if tr is not None]
    corr = corruptions(kept)
    allv = ctx.validate("AdaptiveSmc_Trace", [tr for _sc, tr in kept] + [c[2] for c in corr], chunk=max(10, -(-(len(kept) + len(corr)) // 6)),
                        name="adaptive")
    verdicts = allv[:len(kept)]
    ctx.traces_validated -= len(corr)            # corrupted copies are not executions of the real code
    for (what, want, _t, k), v in zip(corr, allv[len(kept):]):
        if verdicts[k]["verdict"] != "ok":
            continue          # the real trace it was derived from already fails (changed tree): the copy may fail earlier for that reason
        if v["verdict"] != want:
            raise tlc.MachineryFailure("AdaptiveSmc_Trace did not reject a corrupted trace (%s): expected %s, got %r" % (what, want, v))
        ctx.negative_controls.append(dict(run="corrupted trace / AdaptiveSmc_Trace: " + what, refuted=want))
    npops = {"AD": 0, "AT": 0}
    early = 0
    nart = sum(1 for _sc, tr in kept for e in tr["events"] if e["ev"] == "pop" and any(e["art"][:-1]))
    for (sc, tr), v in zip(kept, verdicts):
        pops = [e for e in tr["events"] if e["ev"] == "pop"]
        npops[sc["kind"]] += len(pops)
        early += int(sc["kind"] == "AT" and 0 < len(pops) < sc["max_iter"])
        ctx.case("adaptive-smc:" + str(sc), nontrivial=len(pops) >= 2)
        ctx.trace_events += len(tr["events"])
        if v["verdict"] != "ok":
            k = min(max(v["l"] - 2, 0), len(tr["events"]) - 1)
            e = tr["events"][k]
            ctx.drifted("E:" + v["verdict"][2:], sc, detail=dict(event_index=k, event={f: e[f] for f in e if f not in ("rows", "rows_elfi", "rowd")},
                                                                 n_rows=len(e["rows"]) or len(e["rowd"])))
        elif v["drift"]:
            ctx.drifted("E:" + v["drift"][2:], sc)
    ctx.trusted_base += ["numpy std / sqrt and scipy densities as oracle fields of the adaptive-SMC traces (T4)",
                         "harness hooks: subclass overrides of update / _extract_population / DensityRatioEstimation.max_ratio that only record"]
    ctx.notes.append("adaptive SMC extension: %d AD runs (%d populations), %d AT runs (%d populations, %d stopped before max_iter), %d excluded "
                     "(oracle outside the fixed-point domain); %d rounds consumed a batch beyond the target through the float boundary of the "
                     "inner Rejection's ceil (allowed both ways)" % (sum(1 for sc, _t in kept if sc["kind"] == "AD"), npops["AD"],
                                                                  sum(1 for sc, _t in kept if sc["kind"] == "AT"), npops["AT"], early,
                                                                  len(scs) - len(kept), nart))
    if kept:
        sc, tr = kept[0]
        ctx.sample(dict(scenario=sc, populations=[{k: e[k] for k in ("r", "nb", "nsim", "nest", "cand", "pop", "ds", "thr_rep", "w_elfi", "w_orc")}
                                                  for e in tr["events"] if e["ev"] == "pop"][:3]))
    return kept, verdicts

"""C19 - ROMC regions: samples lie inside, density integrates to one, weights follow.

O1: LineSearch.tla (the line-search loop over ALL objective predicates, chosen lazily at every probe),
    BBox.tla (every signed-permutation rotation x centre x raw limits incl. degenerate ones:
    sample subset of contains, forward/inverse maps agree, density, integral = 1) and RomcPosterior.tla
    (indicator counting, weights), each with negative controls.
O3: the real line_search / RegionConstructor.build with objectives defined from emitted predicates,
    real NDimBoundingBox objects (exact and random orthonormal rotations) and real RomcPosterior objects
    built from chosen regions, integer-valued objectives and a stub prior; every recorded execution is
    judged by TLC against LineSearch_Trace / BBox_Trace / RomcPosterior_Trace.
"""
import contextlib
import io
import itertools
import logging
import math
import os
import random

import numpy as np

from harness import tlc
from harness.util import Hang, time_limit

F_LS_REPLIM0 = "F25"      # line_search(rep_lim=0) returns the step it has just probed and found not below
# Which variant of LineSearchOps!For the code is expected to follow (M: clauses only).  False = the code as it is
# (break before `eta = eta / 2`); set to True if proposed_fixes/F25.diff is applied to /repo (VERIF_C19_F25_FIXED=1
# does the same for trying the patch on a scratch copy: VERIF_REPO=<copy> VERIF_C19_F25_FIXED=1 ./check C19).
LS_HALVE_BEFORE_BREAK = os.environ.get("VERIF_C19_F25_FIXED") == "1"

MICRO = 1000000
SUB = 1024                # line-search positions are logged in 1/1024 of a unit


@contextlib.contextmanager
def quiet():
    """elfi's ROMC code prints progress bars and logs warnings for narrow limits."""
    lg = logging.getLogger("elfi")
    old = lg.level
    lg.setLevel(logging.ERROR)
    try:
        with contextlib.redirect_stdout(io.StringIO()):
            yield
    finally:
        lg.setLevel(old)


def sci(y):
    """float -> [s, m, e]: s*m*10^e with seven significant digits (s=2: not finite).  Pure projection."""
    try:
        y = float(y)
    except Exception:
        return [2, 0, 0]
    if math.isnan(y) or math.isinf(y):
        return [2, 0, 0]
    if y == 0:
        return [0, 0, 0]
    txt = "%.6e" % abs(y)
    mant, ex = txt.split("e")
    m = int(mant.replace(".", ""))
    return [1 if y > 0 else -1, m, int(ex) - 6]


def fxm(x):
    """float -> integer number of 10^-6, clipped to the 32-bit range TLC can read."""
    x = float(x)
    if math.isnan(x):
        return 2 ** 30
    v = int(round(x * MICRO)) if abs(x) < 1000 else (2 ** 30 if x > 0 else -2 ** 30)
    return max(-2 ** 30, min(2 ** 30, v))


# =====================================================================================
#  (c) line search
# =====================================================================================
def ls_table_range(K, replim):
    lo = -(2 ** (K + 1)) - 2
    hi = (replim + 2) * 2 ** K + 2
    return lo, hi


class LsObjective:
    """The objective handed to line_search: 0.0 (below eps = 0.5) or 1.0, read from the scenario's
    predicate table of the direction the point lies in; logs every call."""

    def __init__(self, th_star, unit, lo, below, dirs):
        self.th_star = np.array(th_star, dtype=float)
        self.unit = unit
        self.lo = lo
        self.below = below            # list (per direction) of 0/1 lists
        self.dirs = dirs              # list of direction vectors (unit axis vectors), or None: single direction
        self.events = []

    def classify(self, delta):
        """(dir index 1.., position along it) ; dir 0 = the start point ; -1 = off every search line."""
        nz = [k for k in range(len(delta)) if delta[k] != 0.0]
        if not nz:
            return 0, 0.0
        if len(nz) > 1:
            return -1, 0.0
        k = nz[0]
        for di, v in enumerate(self.dirs):
            if v[k] != 0 and (v[k] > 0) == (delta[k] > 0):
                return di + 1, abs(delta[k]) / abs(v[k])
        return -1, 0.0

    def __call__(self, th):
        delta = np.asarray(th, dtype=float) - self.th_star
        if len(self.dirs) == 1:
            v = self.dirs[0]
            d, pos = 1, float(np.dot(delta, v) / np.dot(v, v))
        else:
            d, pos = self.classify(delta)
        p = int(round(pos / self.unit * SUB))
        if d < 0:
            self.events.append(dict(ev="probe", dir=-1, p=0, b=0, res="", sgn=0, off=0))
            return 1.0
        tab = self.below[max(d, 1) - 1]
        j = p // SUB - self.lo
        b = tab[j] if 0 <= j < len(tab) else 0
        self.events.append(dict(ev="probe", dir=d, p=p, b=int(b), res="", sgn=0, off=0))
        return 0.0 if b else 1.0


def ret_event(d, value, unit):
    try:
        v = float(value)
    except Exception:
        return dict(ev="ret", dir=d, res="val", sgn=0, off=0, p=0, b=0)
    if math.isnan(v) or math.isinf(v) or abs(v / unit) > 10 ** 5:
        return dict(ev="ret", dir=d, res="val", sgn=(0 if math.isnan(v) else (1 if v > 0 else -1)), off=2 ** 30 if v > 0 else -2 ** 30, p=0, b=0)
    return dict(ev="ret", dir=d, res="val", sgn=(1 if v > 0 else (-1 if v < 0 else 0)), off=int(round(v / unit * SUB)), p=0, b=0)


def axis_dirs(D):
    out = []
    for k in range(D):
        for s in (1.0, -1.0):
            v = np.zeros(D)
            v[k] = s
            out.append(v)
    return out


def record_ls(sc):
    from elfi.methods.inference.romc import RegionConstructor, RomcOptimisationResult, line_search
    K, replim, eta = sc["K"], sc["replim"], sc["eta"]
    unit = eta / 2 ** K
    lo = sc["lo"]
    th_star = np.array(sc["th_star"], dtype=float)
    D = len(th_star)
    if sc["kind"] == "ls":
        if "vd" in sc:
            vd = np.array(sc["vd"], dtype=float)
        else:
            vd = np.zeros(D)
            vd[sc["axis"]] = float(sc["sign"])
        obj = LsObjective(th_star, unit, lo, sc["below"], [vd])
        try:
            with time_limit(10), quiet():
                off = line_search(obj, th_star.copy(), vd, 0.5, K=K, eta=eta, rep_lim=replim)
            obj.events.append(ret_event(1, off, unit))
        except Hang:
            obj.events.append(dict(ev="ret", dir=1, res="hang", sgn=0, off=0, p=0, b=0))
        except Exception as ex:
            obj.events.append(dict(ev="ret", dir=1, res="raise", sgn=0, off=0, p=0, b=0, exc=type(ex).__name__))
        ndir = 1
    else:
        dirs = axis_dirs(D)
        obj = LsObjective(th_star, unit, lo, sc["below"], dirs)
        ndir = len(dirs)
        try:
            with time_limit(20), quiet():
                res = RomcOptimisationResult(x_min=th_star.copy(), f_min=0.0, hess_appr=np.diag(np.array(sc["hess"], dtype=float)))
                bb = RegionConstructor(res, obj, D, 0.5, K=K, eta=eta, rep_lim=replim).build()[0]
            # one result per side of each dimension: which search line it lies on is read off the
            # box's own rotation column with the objective's classifier
            for d in range(D):
                col = np.asarray(bb.rotation)[:, d]
                dpos, _ = obj.classify(col) if np.count_nonzero(col) == 1 else (-1, 0)
                dneg, _ = obj.classify(-col) if np.count_nonzero(col) == 1 else (-1, 0)
                obj.events.append(ret_event(dneg, -bb.limits[d, 0], unit))
                obj.events.append(ret_event(dpos, bb.limits[d, 1], unit))
        except Hang:
            obj.events.append(dict(ev="ret", dir=1, res="hang", sgn=0, off=0, p=0, b=0))
        except Exception as ex:
            obj.events.append(dict(ev="ret", dir=1, res="raise", sgn=0, off=0, p=0, b=0, exc=type(ex).__name__))
    for e in obj.events:
        e.pop("exc", None)
    return dict(kind=sc["kind"], K=K, replim=replim, hf=LS_HALVE_BEFORE_BREAK, ndir=ndir, lo=lo, below=sc["below"], events=obj.events)


def pred_threshold(lo, hi, t):
    """below exactly on positions < t (and on all negative ones)."""
    return [1 if p < t else 0 for p in range(lo, hi + 1)]


def ls_scenarios(ctx):
    rnd = random.Random(ctx.seed * 7919 + 19)
    out = []
    Ks, Rs = ((0, 1, 2, 3), (0, 1, 2, 3)) if ctx.quick else ((0, 1, 2, 3, 4, 5), (0, 1, 2, 3, 5, 8))
    n_rand = 6 if ctx.quick else 25
    for K in Ks:
        for replim in Rs:
            lo, hi = ls_table_range(K, replim)
            preds = []
            # every threshold predicate (monotone objective) ...
            for t in range(0, min(hi, (replim + 1) * 2 ** K + 2) + 1, 1 if K <= 2 else rnd.choice([1, 2, 3])):
                preds.append(pred_threshold(lo, hi, t))
            # ... and arbitrary (non-monotone) ones, below at the start or not
            for _ in range(n_rand):
                dens = rnd.choice([0.5, 0.8, 0.95])
                pr = [1 if rnd.random() < dens else 0 for _p in range(lo, hi + 1)]
                pr[-lo] = 1 if rnd.random() < 0.85 else 0
                preds.append(pr)
            for pr in preds:
                D = rnd.choice([1, 2, 3])
                if rnd.random() < 0.5:
                    # dyadic step, start and axis direction: every float operation of the loop is exact
                    out.append(dict(kind="ls", K=K, replim=replim, eta=rnd.choice([0.5, 1.0, 2.0, 0.25]), lo=lo, below=[pr],
                                    th_star=[rnd.randint(-8, 8) / 4.0 for _k in range(D)], axis=rnd.randrange(D), sign=rnd.choice([1, -1])))
                else:
                    # arbitrary step, start and direction (not normalised): positions are recovered by projection on the
                    # direction and rounding to 1/1024 unit, which absorbs the accumulated rounding (~1e-13 unit)
                    vd = [rnd.choice([-2.0, -0.8, -0.6, 0.3, 0.6, 0.8, 1.0, 1.7]) for _k in range(D)]
                    out.append(dict(kind="ls", K=K, replim=replim, eta=rnd.choice([0.1, 0.3, 0.7, 1.7, 1.0]), lo=lo, below=[pr],
                                    th_star=[rnd.randint(-3000, 3000) / 1000.0 for _k in range(D)], vd=vd))
    n_ls = len(out)
    # RegionConstructor.build: 2*D searches from one start; all predicates agree at the start
    n_build = 40 if ctx.quick else 300
    for _ in range(n_build):
        D = rnd.choice([1, 2, 2, 3])
        K = rnd.choice([1, 2, 3, 4])
        replim = rnd.choice([1, 2, 3, 5])
        lo, hi = ls_table_range(K, replim)
        start = 1 if rnd.random() < 0.9 else 0
        below = []
        for _d in range(2 * D):
            if rnd.random() < 0.5:
                pr = pred_threshold(lo, hi, rnd.randint(1, (replim + 1) * 2 ** K))
            else:
                pr = [1 if rnd.random() < 0.85 else 0 for _p in range(lo, hi + 1)]
            pr[-lo] = start
            below.append(pr)
        hess = rnd.sample([1.0, 2.0, 3.0, 5.0], D)
        out.append(dict(kind="build", K=K, replim=replim, eta=rnd.choice([0.5, 1.0, 2.0]), lo=lo, below=below,
                        th_star=[rnd.randint(-8, 8) / 4.0 for _k in range(D)], hess=hess))
    # pinned: the rep_lim = 0 finding (TLC counterexample of LineSearch.tla with RepLims = {0})
    for K in (1, 3):
        lo, hi = ls_table_range(K, 0)
        out.append(dict(kind="ls", K=K, replim=0, eta=1.0, lo=lo, below=[pred_threshold(lo, hi, 1)],
                        th_star=[0.0], axis=0, sign=1, pinned=F_LS_REPLIM0))
    return out, n_ls


def is_replim0_finding(sc, verdict):
    """Exactly the input class of F25: rep_lim = 0, start below, the first forward probe (at eta) not below."""
    if sc.get("kind") != "ls" or sc["replim"] != 0 or sc["K"] < 1 or verdict != "P:ls-below-up-to-result":
        return False
    tab, lo = sc["below"][0], sc["lo"]
    return tab[-lo] == 1 and tab[2 ** sc["K"] - lo] == 0


def check_ls(ctx, scs):
    traces = [record_ls(sc) for sc in scs]
    verdicts = ctx.validate("LineSearch_Trace", traces, chunk=max(100, -(-len(traces) // 8)), name="ls")
    for sc, tr, v in zip(scs, traces, verdicts):
        nprobe = sum(1 for e in tr["events"] if e["ev"] == "probe")
        ctx.case(("ls", sc["kind"], sc["K"], sc["replim"], tlc_digest([sc["below"], sc.get("vd"), sc["eta"]]), sc.get("axis"), sc.get("sign")), nontrivial=nprobe >= 3)
        ctx.trace_events += len(tr["events"])
        if v["verdict"] != "ok":
            fid = F_LS_REPLIM0 if is_replim0_finding(sc, v["verdict"]) else None
            ctx.fail(v["verdict"], dict(part="ls", **sc), detail=dict(at_event=v["l"] - 2, events=tr["events"][-12:]), finding=fid)
        elif v["drift"]:
            ctx.drifted(v["drift"], dict(part="ls", **sc))
    return traces


def tlc_digest(obj):
    from harness.core import digest
    return digest(obj)


# =====================================================================================
#  (a, b) bounding boxes
# =====================================================================================
EPS_MICRO = 1000          # _secure_limits: eps = .001

# raw limit pairs in 10^-6: degenerate, narrow, at the widening threshold (exactly / inexactly in
# floats), just above it, one-sided, dyadic wide
LIMIT_POOL = [
    [0, 0], [-250, 250], [0, 500], [-250, 0], [-500, 500], [-300, 700], [0, 1000], [-500, 750], [-1000, 250],
    [0, 500000], [-250000, 0], [-62500, 62500], [-500000, 1500000], [-1000000, 1000000], [-2000000, 750000],
    [-125000, 3000000], [-300000, 700000], [-15625, 31250],
]


def signed_perms(D):
    out = []
    for p in itertools.permutations(range(D)):
        for s in itertools.product([1, -1], repeat=D):
            out.append([[s[r] if p[r] == c else 0 for c in range(D)] for r in range(D)])
    return out


def secure_spec(lim):
    """The widening rule as stated (used only to place test points near the faces; TLC recomputes it)."""
    out = []
    for lo, hi in lim:
        if hi - lo <= EPS_MICRO:
            out.append([lo - EPS_MICRO // 2, hi + EPS_MICRO // 2])
        else:
            out.append([lo, hi])
    return out


def body_points(rnd, lim, n):
    """Body-frame lattice points around the faces of the (widened) limits: inside, on and outside."""
    per_dim = []
    for lo, hi in secure_spec(lim):
        w = hi - lo
        ds = [250, 15625] if w > 40000 else [250]
        c = set([0, (lo + hi) // 2 // 250 * 250])
        for d in ds:
            c.update([lo - d, lo + d, hi - d, hi + d])
        c.update([lo, hi, lo - 2000000, hi + 500000])
        per_dim.append(sorted(c))
    total = 1
    for c in per_dim:
        total *= len(c)
    if total <= n:
        return [list(u) for u in itertools.product(*per_dim)]
    pts = set()
    # one coordinate varied over all candidates, the others inside ...
    for k in range(len(per_dim)):
        for v in per_dim[k]:
            u = [0] * len(per_dim)
            u[k] = v
            pts.add(tuple(u))
    # ... plus random combinations
    while len(pts) < n:
        pts.add(tuple(rnd.choice(c) for c in per_dim))
    return [list(u) for u in sorted(pts)]


def random_orthonormal(seed, D):
    rs = np.random.RandomState(seed)
    q, r = np.linalg.qr(rs.normal(size=(D, D)))
    return q * np.sign(np.diag(r))


def bb_events_default():
    return dict(ev="", res="ok", lims=[], vol=[0, 0, 0], x=[], u=[], mg=0, inside=False, pdf=[0, 0, 0], nreq=0, ngot=0, dgot=0)


def record_bb(sc):
    from elfi.methods.inference.romc import NDimBoundingBox
    D = sc["D"]
    if sc["kind"] == "exact":
        R = np.array(sc["rot"], dtype=float)
    else:
        R = random_orthonormal(sc["rot_seed"], D) if sc.get("angle") is None else \
            np.array([[math.cos(sc["angle"]), -math.sin(sc["angle"])], [math.sin(sc["angle"]), math.cos(sc["angle"])]])
    c = np.array(sc["c"], dtype=float) / MICRO
    lim = np.array(sc["lim"], dtype=float) / MICRO
    events = []

    def ev(**kw):
        e = bb_events_default()
        e.update(kw)
        events.append(e)
        return e

    def guarded(e, fn):
        try:
            with time_limit(10), quiet():
                fn(e)
            return True
        except Hang:
            e["res"] = "hang"
        except Exception as ex:
            e["res"] = "raise"
            e["exc"] = type(ex).__name__
        return False

    box = {}

    def construct(e):
        limbuf = lim.copy()
        box["bb"] = NDimBoundingBox(R.copy(), c.copy(), limbuf)
        e["lims"] = [[fxm(a), fxm(b)] for a, b in np.asarray(box["bb"].limits)]
        e["vol"] = sci(box["bb"].volume)
        # the caller goes on using ITS limits array: another box is built from the same array, then the array is refilled;
        # the first box keeps the limits it was constructed with
        NDimBoundingBox(R.copy(), c.copy(), limbuf)
        limbuf += 100.0
    if not guarded(ev(ev="new"), construct):
        return finish_bb(sc, events)
    bb = box["bb"]

    def query(e, x):
        e["inside"] = bool(bb.contains(x))
        e["pdf"] = sci(bb.pdf(x))
    for u in sc.get("upts", []):
        ui = np.array(u, dtype=np.int64)
        if sc["kind"] == "exact":
            xi = np.array(sc["c"], dtype=np.int64) + np.array(sc["rot"], dtype=np.int64) @ ui      # exact integers
            guarded(ev(ev="pt", x=[int(v) for v in xi]), lambda e: query(e, xi.astype(float) / MICRO))
        else:
            x = c + R @ (ui.astype(float) / MICRO)
            guarded(ev(ev="bpt", u=[int(v) for v in ui]), lambda e: query(e, x))
    for (n, seed, use_rs) in sc.get("samples", []):
        got = {}

        def draw(e):
            s = bb.sample(n, seed=np.random.RandomState(seed) if use_rs else seed)
            s = np.asarray(s)
            got["s"] = s
            e["ngot"] = int(s.shape[0]) if s.ndim == 2 else -1
            e["dgot"] = int(s.shape[1]) if s.ndim == 2 else -1
        if not guarded(ev(ev="smpn", nreq=n), draw):
            continue
        s = got["s"]
        if s.ndim != 2 or s.shape[1] != D:
            continue
        for x in s:
            if sc["kind"] == "exact":
                guarded(ev(ev="smp", x=[fxm(v) for v in x]), lambda e: query(e, x))
            else:
                ub = R.T @ (x - c)                      # the harness's own inverse map (orthonormal: R^-1 = R^T)
                blim = np.asarray(bb.limits)
                mg = min(min(ub[k] - blim[k, 0], blim[k, 1] - ub[k]) for k in range(D))
                guarded(ev(ev="smp", mg=fxm(mg)), lambda e: query(e, x))
    return finish_bb(sc, events)


def finish_bb(sc, events):
    for e in events:
        e.pop("exc", None)
    return dict(kind=sc["kind"], D=sc["D"], rot=sc.get("rot", []), c=sc["c"], lim=sc["lim"], events=events)


def bb_scenarios(ctx):
    rnd = random.Random(ctx.seed * 104729 + 7)
    out = []

    def centre(D, dyadic):
        if dyadic:
            return [rnd.randint(-32, 32) * 62500 for _ in range(D)]
        return [rnd.randint(-3000, 3000) * 1000 + rnd.choice([0, 300, 7]) for _ in range(D)]

    def limits(D, force=None):
        lim = [list(rnd.choice(LIMIT_POOL)) for _ in range(D)]
        if force is not None:
            lim[rnd.randrange(D)] = list(force)
        return lim

    def samples():
        return [[rnd.randint(1, 6), rnd.randint(0, 10 ** 6), rnd.random() < 0.6] for _ in range(2 if ctx.quick else 4)]
    reps = {1: 10, 2: 4, 3: 1} if ctx.quick else {1: 40, 2: 20, 3: 5}
    npts = {1: 40, 2: 30, 3: 24} if ctx.quick else {1: 60, 2: 80, 3: 80}
    for D in (1, 2, 3):
        for rot in signed_perms(D):
            for r in range(reps[D]):
                lim = limits(D, force=LIMIT_POOL[(r + len(out)) % len(LIMIT_POOL)])
                out.append(dict(kind="exact", D=D, rot=rot, c=centre(D, rnd.random() < 0.7), lim=lim,
                                upts=body_points(rnd, lim, npts[D]), samples=samples()))
    n_exact = len(out)
    n_ortho = 60 if ctx.quick else 500
    for i in range(n_ortho):
        D = rnd.choice([1, 2, 2, 3, 3, 4, 5])
        lim = limits(D)
        sc = dict(kind="ortho", D=D, rot_seed=rnd.randint(0, 10 ** 6), c=centre(D, False), lim=lim,
                  upts=[u for u in body_points(rnd, lim, 20 if ctx.quick else 40)
                        if all(abs(u[k] - f) >= 250 for k, p in enumerate(secure_spec(lim)) for f in p)],
                  samples=samples())
        if D == 2 and i % 3 == 0:
            sc["angle"] = rnd.choice([0.1, 0.5, math.pi / 4, math.pi / 3, 1.0, 2.0, 2.5, 4.0, -0.7])
        out.append(sc)
    return out, n_exact


def check_bb(ctx, scs):
    traces = [record_bb(sc) for sc in scs]
    verdicts = ctx.validate("BBox_Trace", traces, chunk=max(20, -(-len(traces) // 8)), name="bb")
    for sc, tr, v in zip(scs, traces, verdicts):
        nin = sum(1 for e in tr["events"] if e["inside"])
        nout = sum(1 for e in tr["events"] if e["ev"] in ("pt", "bpt") and not e["inside"])
        ctx.case(("bb", sc["kind"], sc["D"], tlc_digest([sc.get("rot"), sc.get("rot_seed"), sc.get("angle"), sc["c"], sc["lim"]])),
                 nontrivial=nin >= 1 and nout >= 1)
        ctx.trace_events += len(tr["events"])
        if v["verdict"] != "ok":
            at = v["l"] - 2
            ctx.fail(v["verdict"], dict(part="bb", **sc), detail=dict(at_event=at, event=tr["events"][at] if 0 <= at < len(tr["events"]) else None,
                                                                        new=tr["events"][0]))
        elif v["drift"]:
            ctx.drifted(v["drift"], dict(part="bb", **sc))
    return traces


# =====================================================================================
#  (d, e) RomcPosterior
# =====================================================================================
RP_LIMITS = [[0, 0], [-250, 250], [0, 500], [-500000, 1500000], [-1000000, 1000000], [-2000000, 750000],
             [-62500, 62500], [-300000, 700000], [0, 500000], [-250000, 0], [-500, 750]]
PRIOR_VALUES = [[1, 4], [1, 2], [1, 1], [2, 1]]
PRIOR_SUPPORT = 3.0


class StubPrior:
    """prior with dyadic density values: a step function of the first coordinate, zero outside a cube."""

    def __init__(self, dim):
        self.dim = dim

    def value(self, theta):
        theta = np.asarray(theta, dtype=float).reshape(-1)
        if np.any(np.abs(theta) > PRIOR_SUPPORT):
            return [0, 1]
        return PRIOR_VALUES[int(math.floor(theta[0] * 2)) % 4]

    def pdf(self, theta):
        theta = np.asarray(theta, dtype=float)
        assert theta.ndim == 2
        return np.array([self.value(t)[0] / self.value(t)[1] for t in theta])


def dcode(v):
    """a returned distance as the integer the objective logs (NaN = 1000000), -99 if it is neither"""
    v = float(v)
    if v != v:
        return 1000000
    return int(v) if v.is_integer() else -99


def make_objective(a, eps):
    """integer-valued objective: eps-1, eps or eps+1 depending on the quarter-unit cell of the point."""
    NAN_CODE = 1000000        # a distance that is not a number is not within any cut-off: logged as a huge distance

    def cell(theta):
        theta = np.asarray(theta, dtype=float).reshape(-1)
        return a + sum((k + 1) * int(math.floor(theta[k] * 4)) for k in range(len(theta)))

    def value(theta):
        v = cell(theta)
        if a >= 3 and v % 5 == 0:          # objectives 3, 4, ..: undefined (NaN) on a fifth of the cells
            return NAN_CODE
        return eps - 1 + v % 3

    def f(theta):
        v = value(theta)
        return float("nan") if v == NAN_CODE else float(v)
    f.value = value
    return f


def rp_default():
    return dict(ev="", via="", res="ok", x=[], pr=[0, 1], d=[], val=[0, 0, 0], i=0, dist=0, dout=0, w=[0, 0, 0],
                n2=0, tshape=[], wshape=[])


def record_rp(sc):
    from elfi.methods.inference.romc import NDimBoundingBox
    from elfi.methods.posteriors import RomcPosterior
    D, N, eps = sc["D"], sc["N"], sc["eps"]
    events = []

    def ev(**kw):
        e = rp_default()
        e.update(kw)
        events.append(e)
        return e

    def guarded(e, fn, limit=20):
        try:
            with time_limit(limit), quiet():
                fn(e)
            return True
        except Hang:
            e["res"] = "hang"
        except Exception as ex:
            e["res"] = "raise"
            e["exc"] = type(ex).__name__ + ": " + str(ex)[:80]
        return False

    with quiet():
        regions = [NDimBoundingBox(np.array(r["rot"], dtype=float), np.array(r["c"], dtype=float) / MICRO,
                                   np.array(r["lim"], dtype=float) / MICRO) for r in sc["regs"]]
    funcs = [make_objective(a, eps) for a in sc["a"]]
    prior = StubPrior(D)
    recut = sc.get("recut", 0)          # the posterior is built with ANOTHER cut-off, used, and then reset to eps (public reset_eps_cutoff)
    post = RomcPosterior(regions, funcs, funcs, [None] * N, [None] * N, list(range(N)), bool(sc["surr"]), prior,
                         np.full(D, -PRIOR_SUPPORT), np.full(D, PRIOR_SUPPORT),
                         # eps_filter and eps_region differ from the cut-off (the density and the weights are defined by the
                         # cut-off alone); integer-valued distances: 2 above / 1 below the cut-off are different outcomes
                         float(eps + 2), float(max(0, eps - 1)) if sc.get("eps_mode", 0) else float(eps + 2), float(max(0, eps + recut)))
    pts = [np.array(x, dtype=np.int64) for x in sc["pts"]]
    if recut:
        # history on one posterior object: every point is evaluated under the first cut-off (single and batched, a sample drawn),
        # then the cut-off is reset: what follows is defined by the NEW cut-off alone
        try:
            with time_limit(20), quiet():
                for xi in pts:
                    post._pdf_unnorm_single_point(xi.astype(float) / MICRO)
                if pts:
                    post.pdf_unnorm_batched(np.array([xi.astype(float) / MICRO for xi in pts]))
                for (n2, seed) in sc["samples"][:1]:
                    post.sample(n2, seed=seed)
        except BaseException as ex:
            if isinstance(ex, KeyboardInterrupt):
                raise
        post.reset_eps_cutoff(float(eps))

    def at(xi):
        x = xi.astype(float) / MICRO
        return x, prior.value(x), [int(f.value(x)) for f in funcs]
    for xi in pts[: len(pts) // 2]:
        x, pr, d = at(xi)
        guarded(ev(ev="pdf", via="single", x=[int(v) for v in xi], pr=pr, d=d),
                lambda e: e.update(val=sci(post._pdf_unnorm_single_point(x))))
    rest = pts[len(pts) // 2:]
    if rest:
        got = {}
        batch = np.array([xi.astype(float) / MICRO for xi in rest])
        e0 = ev(ev="pdf", via="batched")
        if guarded(e0, lambda e: got.update(v=np.asarray(post.pdf_unnorm_batched(batch)))) and got["v"].shape == (len(rest),):
            events.pop()
            for xi, val in zip(rest, got["v"]):
                x, pr, d = at(xi)
                ev(ev="pdf", via="batched", x=[int(v) for v in xi], pr=pr, d=d, val=sci(val))
        elif e0["res"] == "ok":
            e0["res"] = "badshape"
    for (n2, seed) in sc["samples"]:
        got = {}

        def draw(e):
            th, w, dist = post.sample(n2, seed=seed)
            got.update(th=np.asarray(th), w=np.asarray(w), dist=np.asarray(dist).reshape(-1))
            e["tshape"] = [int(v) for v in got["th"].shape]
            e["wshape"] = [int(v) for v in got["w"].shape]
        if guarded(ev(ev="shape", via="sample", n2=n2), draw) and got["th"].shape == (N, n2, D) and got["w"].shape == (N, n2):
            for i in range(N):
                for j in range(n2):
                    x = got["th"][i, j]
                    k = i * n2 + j
                    ev(ev="w", via="sample", i=i + 1, x=[fxm(v) for v in x], pr=prior.value(x), dist=int(funcs[i].value(x)),
                       dout=dcode(got["dist"][k]) if k < len(got["dist"]) else -99, w=sci(got["w"][i, j]))
        # the parallel path's worker function, called directly (no process pool)
        i = seed % N
        with quiet():
            th_i = np.asarray(regions[i].sample(n2, seed=seed + 1))
        got2 = {}

        def work(e):
            w, dist = post._worker_compute_weight((i, th_i, regions[i], prior, funcs[i], float(eps), n2))
            got2.update(w=list(w), dist=list(dist))
            e["tshape"] = [N, n2, D]
            e["wshape"] = [N, len(got2["w"])]
        if guarded(ev(ev="shape", via="worker", n2=n2), work) and len(got2["w"]) == n2:
            for j in range(n2):
                x = th_i[j]
                ev(ev="w", via="worker", i=i + 1, x=[fxm(v) for v in x], pr=prior.value(x), dist=int(funcs[i].value(x)),
                   dout=dcode(got2["dist"][j]) if j < len(got2["dist"]) else -99, w=sci(got2["w"][j]))
    for e in events:
        e.pop("exc", None)
    return dict(D=D, N=N, eps=eps, surr=bool(sc["surr"]), regs=sc["regs"], events=events)


def rp_scenarios(ctx):
    out = _rp_scenarios(ctx)
    rnd = random.Random(ctx.seed * 32452843 + 5)
    for sc in out:
        if rnd.random() < 0.3:
            sc["recut"] = rnd.choice([-2, -1, 1, 2, 3])
    return out


def _rp_scenarios(ctx):
    rnd = random.Random(ctx.seed * 15485863 + 3)
    out = []
    n = 70 if ctx.quick else 600
    for _ in range(n):
        D = rnd.choice([1, 1, 2, 2, 3])
        N = rnd.randint(1, 4)
        rots = signed_perms(D)
        regs = []
        for _k in range(N):
            regs.append(dict(rot=rnd.choice(rots), c=[rnd.randint(-8, 8) * 125000 for _j in range(D)],
                             lim=[list(rnd.choice(RP_LIMITS)) for _j in range(D)]))
        pts = set()
        per = max(4, (24 if ctx.quick else 40) // N)
        for r in regs:
            for u in body_points(rnd, r["lim"], per)[: per + 6]:
                x = np.array(r["c"], dtype=np.int64) + np.array(r["rot"], dtype=np.int64) @ np.array(u, dtype=np.int64)
                if all(abs(int(v)) < 50 * MICRO for v in x):
                    pts.add(tuple(int(v) for v in x))
        pts = sorted(pts)
        rnd.shuffle(pts)
        out.append(dict(D=D, N=N, eps=rnd.choice([0, 1, 2, 5]), eps_mode=rnd.randint(0, 1), surr=rnd.random() < 0.6, regs=regs, a=[rnd.randint(0, 4) for _k in range(N)],
                        pts=[list(p) for p in pts[: (30 if ctx.quick else 60)]],
                        samples=[[rnd.randint(1, 5), rnd.randint(0, 10 ** 6)] for _s in range(2)]))
    return out


def check_rp(ctx, scs):
    traces = [record_rp(sc) for sc in scs]
    verdicts = ctx.validate("RomcPosterior_Trace", traces, chunk=max(10, -(-len(traces) // 8)), name="rp")
    for sc, tr, v in zip(scs, traces, verdicts):
        npos = sum(1 for e in tr["events"] if (e["ev"] == "pdf" and e["val"][0] == 1) or (e["ev"] == "w" and e["w"][0] == 1))
        nzero = sum(1 for e in tr["events"] if (e["ev"] == "pdf" and e["val"][0] == 0) or (e["ev"] == "w" and e["w"][0] == 0))
        ctx.case(("rp", tlc_digest([sc["regs"], sc["a"], sc["eps"], sc["surr"], sc["samples"]])), nontrivial=npos >= 1 and nzero >= 1)
        ctx.trace_events += len(tr["events"])
        if v["verdict"] != "ok":
            at = v["l"] - 2
            ctx.fail(v["verdict"], dict(part="rp", **sc), detail=dict(at_event=at, event=tr["events"][at] if 0 <= at < len(tr["events"]) else None))
        elif v["drift"]:
            ctx.drifted(v["drift"], dict(part="rp", **sc))
    return traces


# =====================================================================================
#  O1 configurations and the run
# =====================================================================================
LS_INV = ["PositiveResult", "BelowUpToResult", "NeverPassesAFailedProbe", "ResultProbedOrResolution", "Tight",
          "AgreesWithOps", "BoundedWork"]
LS_ACTS = ["ForHead", "WhileTest", "Body", "Back", "Fallback"]
BB_INV = ["SampleInside", "ForwardInverseAgree", "Density", "VolumePositive", "IntegratesToOne", "InverseIsInverse"]
BB_ACTS = ["Construct", "SampleStep", "QueryStep"]
RP_INV = ["DensityCount", "WeightFormula", "PositiveWeightCounted", "WeightSane"]
RP_ACTS = ["EvalPdfStep", "DrawWeightStep"]


def ls_cfg(ks, rls, back, invs, live=True, hf=None):
    hf = LS_HALVE_BEFORE_BREAK if hf is None else hf
    return "SPECIFICATION Spec\nCONSTANTS\n  Ks = {%s}\n  RepLims = {%s}\n  StepBack = %s\n  HalveFirst = %s\n%s%sCHECK_DEADLOCK FALSE\n" % (
        ",".join(map(str, ks)), ",".join(map(str, rls)), "TRUE" if back else "FALSE", "TRUE" if hf else "FALSE",
        "".join("INVARIANT %s\n" % i for i in invs), "PROPERTY Terminates\n" if live else "")


def bb_cfg(D, centres, cmax, pairs, qr, use_inverse, invs):
    return ("SPECIFICATION Spec\nCONSTANTS\n  D = %d\n  Centres <- %s\n  CMax = %d\n  LimPairs <- %s\n  LMax = 2\n  Eps = 2\n  QR = %d\n"
            "  UseInverse = %s\n%sCHECK_DEADLOCK FALSE\n"
            % (D, centres, cmax, pairs, qr, "TRUE" if use_inverse else "FALSE", "".join("INVARIANT %s\n" % i for i in invs)))


def rp_cfg(N, D, boxes, pr, cutoffs, priors, leq, lt, invs):
    return ("SPECIFICATION Spec\nCONSTANTS\n  N = %d\n  D = %d\n  Boxes <- %s\n  LMax = 2\n  Eps = 2\n  PR = %d\n  DMax = 2\n  Cutoffs = {%s}\n"
            "  Priors <- %s\n  DensityLeq = %s\n  WeightLt = %s\n%sCHECK_DEADLOCK FALSE\n"
            % (N, D, boxes, pr, ",".join(map(str, cutoffs)), priors, "TRUE" if leq else "FALSE", "TRUE" if lt else "FALSE",
               "".join("INVARIANT %s\n" % i for i in invs)))


def design_runs(ctx):
    """O1.  The runs are independent; they are executed a few at a time with at most 8 TLC workers in total."""
    import concurrent.futures
    ks, rls = (range(0, 5), range(1, 6)) if ctx.quick else (range(0, 7), range(1, 9))
    small, big = [], []

    def add(lst, module, name, cfg_text, **kw):
        lst.append((module, name, dict(cfg_text=cfg_text, **kw)))
    if LS_HALVE_BEFORE_BREAK:
        # the repaired code: every theorem for every rep_lim >= 0
        add(small, "LineSearch", "MC_LineSearch_main", ls_cfg(ks, [0] + list(rls), True, LS_INV), expect_actions=LS_ACTS)
    else:
        # (c) all predicates, rep_lim >= 1: every theorem, incl. termination
        add(small, "LineSearch", "MC_LineSearch_main", ls_cfg(ks, rls, True, LS_INV), expect_actions=LS_ACTS)
        # rep_lim = 0: everything but BelowUpToResult/ResultProbedOrResolution holds ...
        add(small, "LineSearch", "MC_LineSearch_rep0",
            ls_cfg(ks, [0], True, [i for i in LS_INV if i not in ("BelowUpToResult", "ResultProbedOrResolution")]), expect_actions=LS_ACTS)
        # ... and BelowUpToResult is refuted: the design-level form of finding F25 (a genuine defect of the code, not a control)
        add(small, "LineSearch", "MC_LineSearch_rep0_finding", ls_cfg(ks, [0], True, ["BelowUpToResult"], live=False), expect_ok=False,
            label="finding-%s:rep_lim=0-refutes-BelowUpToResult" % F_LS_REPLIM0)
    # the repair proposed for F25 (eta halved before the break): every theorem for rep_lim >= 0
    add(small, "LineSearch", "MC_LineSearch_proposed_fix", ls_cfg(ks, [0] + list(rls), True, LS_INV, hf=True), expect_actions=LS_ACTS,
        label="proposed-fix-%s:all-theorems-for-rep_lim>=0" % F_LS_REPLIM0)
    # negative control: without the step back the returned offset is a failed probe
    add(small, "LineSearch", "MC_LineSearch_noback", ls_cfg(ks, rls, False, ["PositiveResult", "BelowUpToResult"], live=False), expect_ok=False)
    # (a, b) boxes; negative control: contains() applies `rotation` instead of `rotation_inv`
    add(small, "MC_BBox", "MC_BBox_d1", bb_cfg(1, "AllCentres", 2, "SixPairs", 5, True, BB_INV), expect_actions=BB_ACTS)
    add(small, "MC_BBox", "MC_BBox_d2", bb_cfg(2, "TwoCentres", 1, "SixPairs", 5, True, BB_INV), expect_actions=BB_ACTS)
    add(small, "MC_BBox", "MC_BBox_d2_rotation_for_inverse", bb_cfg(2, "TwoCentres", 1, "SixPairs", 5, False, ["SampleInside"]), expect_ok=False)
    # (d, e) posterior; negative controls: `<` for the density, `<=` for the weights, both swapped
    add(small, "MC_RomcPosterior", "MC_RomcPosterior_n2", rp_cfg(2, 1, "Boxes1Small", 3, [0, 1, 2], "ThreePriors", True, True, RP_INV),
        expect_actions=RP_ACTS)
    add(small, "MC_RomcPosterior", "MC_RomcPosterior_swapped_comparisons",
        rp_cfg(2, 1, "Boxes1Small", 3, [1], "ThreePriors", False, False, ["PositiveWeightCounted"]), expect_ok=False)
    add(small, "MC_RomcPosterior", "MC_RomcPosterior_density_lt", rp_cfg(2, 1, "Boxes1Small", 3, [1], "ThreePriors", False, True, ["DensityCount"]),
        expect_ok=False)
    add(small, "MC_RomcPosterior", "MC_RomcPosterior_weight_le", rp_cfg(2, 1, "Boxes1Small", 3, [1], "ThreePriors", True, False, ["WeightFormula"]),
        expect_ok=False)
    if not ctx.quick:
        add(big, "MC_BBox", "MC_BBox_d2_all", bb_cfg(2, "AllCentres", 1, "SixPairs", 5, True, BB_INV), expect_actions=BB_ACTS)
        add(big, "MC_BBox", "MC_BBox_d3", bb_cfg(3, "OneCentre", 2, "TwoPairs", 4, True, BB_INV), expect_actions=BB_ACTS)
        add(big, "MC_BBox", "MC_BBox_d3_rotation_for_inverse", bb_cfg(3, "OneCentre", 2, "TwoPairs", 4, False, ["SampleInside"]), expect_ok=False)
        add(big, "MC_RomcPosterior", "MC_RomcPosterior_n2_big", rp_cfg(2, 1, "Boxes1", 4, [0, 1, 2], "SomePriors", True, True, RP_INV),
            expect_actions=RP_ACTS)
        add(big, "MC_RomcPosterior", "MC_RomcPosterior_n3", rp_cfg(3, 1, "Boxes1Small", 2, [1, 2], "ThreePriors", True, True, RP_INV),
            expect_actions=RP_ACTS)
        add(big, "MC_RomcPosterior", "MC_RomcPosterior_n2_d2", rp_cfg(2, 2, "Boxes2", 3, [1, 2], "ThreePriors", True, True, RP_INV),
            expect_actions=RP_ACTS)
    results = {}
    for lst, par, w in ((small, 4, 2), (big, 2, 4)):
        if not lst:
            continue
        with concurrent.futures.ThreadPoolExecutor(max_workers=par) as ex:
            futs = {ex.submit(ctx.tlc, m, n, workers=w, timeout=2400, **kw): n for (m, n, kw) in lst}
            for f in concurrent.futures.as_completed(futs):
                results[futs[f]] = f.result()          # MachineryFailure propagates
    ctx.tlc_runs.sort(key=lambda r: str(r.get("label")))
    ctx.negative_controls.sort(key=lambda r: str(r.get("run")))
    if "MC_LineSearch_rep0_finding" in results:
        ctx.notes.append("LineSearch.tla with RepLims={0}: TLC refutes %s (finding %s) - the code returns the step it has just probed and found "
                         "not below; for RepLims>=1 the theorem holds for all predicates" % (results["MC_LineSearch_rep0_finding"].violated, F_LS_REPLIM0))


def emitted_ls_scenarios(ctx):
    """spec -> code: every terminal state of LineSearch.tla becomes a call of the real line_search."""
    ks, rls = (range(0, 4), range(0, 4)) if ctx.quick else (range(0, 5), range(0, 6))
    r = ctx.tlc("Gen_LineSearch", "Gen_LineSearch_emit", cfg_text=ls_cfg(ks, rls, True, ["Emit"], live=False), workers=1, timeout=900,
                label="emit-behaviours")
    rnd = random.Random(ctx.seed + 1234)
    out = []
    for v in r.printed:
        if not (isinstance(v, list) and v and v[0] == "BEH"):
            continue
        _, K, replim, passed, failed, _off = v
        passed, failed = set(passed[1]), set(failed[1])
        lo, hi = ls_table_range(K, replim)
        for fill in (0, 1, None):
            tab = []
            for p in range(lo, hi + 1):
                tab.append(1 if p in passed else 0 if p in failed else (rnd.randint(0, 1) if fill is None else fill))
            out.append(dict(kind="ls", K=K, replim=replim, eta=rnd.choice([0.5, 1.0, 2.0]), lo=lo, below=[tab], th_star=[rnd.randint(-8, 8) / 4.0],
                            axis=0, sign=rnd.choice([1, -1]), emitted=True))
    if len(out) < 100:
        raise tlc.MachineryFailure("behaviour emission produced only %d line-search cases" % len(out))
    return out


def check_scenarios(ctx, scs):
    parts = dict(ls=[], bb=[], rp=[])
    for sc in scs:
        parts[sc["part"]].append({k: v for k, v in sc.items() if k != "part"})
    tr = []
    if parts["ls"]:
        tr += check_ls(ctx, parts["ls"])
    if parts["bb"]:
        tr += check_bb(ctx, parts["bb"])
    if parts["rp"]:
        tr += check_rp(ctx, parts["rp"])
    return tr


def run(ctx):
    ctx.rule = ("(c) every terminal behaviour of LineSearch.tla (K<=3/4, rep_lim<=3/5) replayed into the real line_search with three fillings of the "
                "unprobed positions; every threshold predicate and random non-monotone predicates for each (K, rep_lim), three step sizes, axes and signs; "
                "RegionConstructor.build with 2*D independent predicates.  (a,b) real NDimBoundingBox for EVERY signed-permutation rotation in 1-3 D x "
                "dyadic/non-dyadic centres x limit pairs from a pool with degenerate, narrow, threshold, one-sided and wide entries: contains/pdf at lattice "
                "points 0.00025 or 1/64 inside / on / outside every face, sample(n, seed) points fed back; random orthonormal rotations in 1-5 D with "
                "body-frame lattice points and samples.  (d,e) real RomcPosterior over 1-4 such regions, objectives with values eps-1, eps, eps+1, "
                "stub prior with dyadic values and bounded support, with and without surrogate flag, single/batched density, sample() and the "
                "worker function.  Non-trivial = a search with >= 3 probes / a box with points inside and outside / a posterior with zero and "
                "non-zero values.")
    ctx.clauses_decided = [
        "a: drawn points are contained (exact rotations: also in the region recomputed by TLC; orthonormal: contains() of the draw)",
        "b: density 1/volume inside, 0 outside; volume of the widened limits (exact rotations; orthonormal rotations through body-frame points)",
        "c: line search returns a positive offset with all probed steps up to it below (given the start is below)",
        "d: unnormalised density = prior x count with <=, region containment when surrogates are used",
        "e: weight = [dist < eps] x prior / region density",
    ]
    ctx.clauses_not_decided = [
        "b on the faces themselves and for points within 1e-6 of a face (measure zero / float rounding): either answer accepted",
        "widening of a raw width that equals the threshold 0.001 exactly: either outcome accepted, then used consistently",
        "b for inexact rotations uses the harness's float forward map x = c + R u as the oracle (trusted base)",
        "RomcPosterior.pdf (normalised, grid partition) and the parallelize=True process pool are not part of the statement",
    ]
    ctx.trusted_base += ["numpy matmul for the harness's forward/inverse maps with random orthonormal rotations",
                         "decimal projection of floats to 7 significant digits (relative tolerance 2e-6 in TLC)"]
    ctx.assumptions += ["objective callables are functions of the point (same value when probed twice)", "the step size eta is positive",
                        "the start of a line search is below the threshold (ROMC only searches from accepted optima); otherwise only positivity is claimed"]
    design_runs(ctx)
    ls_scs, n_ls = ls_scenarios(ctx)
    ls_scs = emitted_ls_scenarios(ctx) + ls_scs
    bb_scs, n_exact = bb_scenarios(ctx)
    rp_scs = rp_scenarios(ctx)
    tl = check_ls(ctx, ls_scs)
    tb = check_bb(ctx, bb_scs)
    tp = check_rp(ctx, rp_scs)
    from harness.props import x_romc_pipeline
    x_romc_pipeline.check_romc_pipeline(ctx)      # extension: the ROMC pipeline as a state machine (E: clauses, drift only)
    ctx.exhaustive = True
    ctx.notes.append("%d line-search traces (%d emitted by TLC), %d boxes (%d with exact rotations = every signed permutation in 1-3 D), %d posteriors"
                     % (len(ls_scs), sum(1 for s in ls_scs if s.get("emitted")), len(bb_scs), n_exact, len(rp_scs)))
    ctx.sample(dict(scenario={k: v for k, v in ls_scs[0].items()}, trace=tl[0]["events"][:10]))
    ctx.sample(dict(scenario={k: (v if k != "upts" else v[:4]) for k, v in bb_scs[len(bb_scs) // 3].items()}, trace=tb[len(bb_scs) // 3]["events"][:6]))
    ctx.sample(dict(scenario={k: (v if k != "pts" else v[:4]) for k, v in rp_scs[0].items()}, trace=tp[0]["events"][:4] + tp[0]["events"][-3:]))


def replay(ctx, scenario):
    check_scenarios(ctx, [scenario])

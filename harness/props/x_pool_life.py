"""EXTENSION (no listed property): the on-disk LIFECYCLE of elfi.ArrayPool / elfi.OutputPool as a state machine
(elfi/store.py: __init__, set_context, add_batch, remove_batch, get_batch, add_store, remove_store, clear, save, close, flush, delete,
open, __len__, __contains__, path / prefix / _pkl_name, ArrayPool._make_store_for, and how NpyStore / NpyArray objects follow the pool
through save -> close -> open, a renamed or copied folder, a second object on the same folder).

O1: PoolLife.tla (+ PoolLifeOps.tla) - one action per public call, transcribed; abstract state = pool objects in handles, pool
    folders (pool pickle, store pickles, .npy files with their batch values), working directory.  The user-level invariants (close then
    open gives the same pool; every batch a store claims is backed by data; a newly made store is empty; the working directory is kept;
    stores work on files in the pool's own folder; a raising call changes nothing; a call changes nothing outside its folder; delete
    removes the folder, close keeps the files, clear keeps the stores, context rules, the constructor refuses an existing folder) are
    checked exhaustively on the REPAIRED machine (six repairs) and TLC refutes one of them as soon as one repair is left out (six
    negative controls = six findings about store.py).  For the code as transcribed TLC checks what does hold.
O3: pinned + seeded-random call histories on real pool objects in scratch directories; PoolLife_Trace.tla replays each history with
    the design's Run and compares outcome and the whole projected state (every pool object, every folder) after every call, and
    evaluates the user-level invariants along the history.
All failures are E: clauses, reported as drift (extension beyond the listed properties).
"""
import contextlib
import copy
import gc
import logging
import os
import random
import re
import shutil
import sys
import threading
import warnings
import weakref

import numpy as np

from harness import core, tlc
from harness.util import Hang, time_limit

ALL_FIXES = ["atomic", "save_restores_cwd", "make_store_exclusive", "open_reconciles", "empty_file_is_empty_store", "basename_first"]
NODESEQ = ["a", "b", "c"]
PREFIXES = ["p", "q", "A", "B"]
SEEDS = [0, 7]
NAMES = ["x", "y"] + ["%spool_%d" % (k, s) for k in ("array", "output") for s in SEEDS]
DIRS = [[p, n] for p in PREFIXES for n in NAMES]
NHANDLES = 3
NHAS = 4
CALL_LIMIT_S = 20
C0 = dict(op="", h=0, kind="", outs=[], name="", prefix="", bs=0, seed=-1, i=0, ns=[], v=0, node="", what="", d1=["", ""], d2=["", ""])


class Unpicklable(dict):
    """a user store (any dict works as a store) that cannot be pickled"""

    def __reduce_ex__(self, protocol):
        raise TypeError("this store cannot be pickled")


# ------------------------------------------------------------------------------ batch contents
def enc(node, v, bs, wide):
    """position dependent content: value id v, the node, the row (and the column)"""
    a = np.arange(bs, dtype=np.int64) + 16 * v + 1000 * (NODESEQ.index(node) + 1)
    if wide:
        a = np.stack([a, a + 100000], axis=1)
    return a


def dec(arr, node, bs, wide):
    """the value id of a batch, -1 where rows are missing or are not what enc wrote"""
    try:
        arr = np.asarray(arr)
        if arr.dtype != np.int64 or arr.shape != ((bs, 2) if wide else (bs,)):
            return -1
        v = (int(arr.reshape(bs, -1)[0, 0]) - 1000 * (NODESEQ.index(node) + 1)) // 16
        if 1 <= v < 4000 and np.array_equal(arr, enc(node, v, bs, wide)):
            return v
    except Exception:
        pass
    return -1


# ------------------------------------------------------------------------------ the scratch world of one history
class World:
    def __init__(self, root, bs, wide):
        self.root = root
        self.bs = bs
        self.wide = wide
        self.pools = {}
        self.where = weakref.WeakKeyDictionary()        # store object -> the folder its file was last seen in (projection only)

    def prefix_arg(self, p):
        return {"p": None, "q": "q", "A": os.path.join(self.root, "A"), "B": os.path.join(self.root, "B")}[p]

    def prefix_id(self, s):
        return {"pools": "p", "q": "q", os.path.join(self.root, "A"): "A", os.path.join(self.root, "B"): "B"}.get(s, str(s))

    def prefix_dir(self, p):
        return os.path.join(self.root, {"p": "pools", "q": "q", "A": "A", "B": "B"}[p])

    def path(self, d):
        return os.path.join(self.prefix_dir(d[0]), d[1])

    # -- one call
    def call(self, c):
        import elfi
        op = c["op"]
        ret = []
        if op == "new":
            cls = elfi.ArrayPool if c["kind"] == "array" else elfi.OutputPool
            self.pools[c["h"]] = cls(list(c["outs"]) if c["outs"] else None, name=c["name"] or None, prefix=self.prefix_arg(c["prefix"]))
        elif op == "open":
            cls = elfi.OutputPool if c.get("via") == "output" else elfi.ArrayPool
            self.pools[c["h"]] = cls.open(c["name"], self.prefix_arg(c["prefix"]))
        elif op == "drop":
            del self.pools[c["h"]]
            gc.collect(0)
        elif op in ("move", "copy"):         # the environment renames / copies a pool folder (only to a name that is free)
            src, dst = self.path(c["d1"]), self.path(c["d2"])
            if not os.path.isdir(src) or os.path.exists(dst):
                raise OSError("no such folder, or the target exists")
            os.makedirs(self.prefix_dir(c["d2"][0]), exist_ok=True)
            (shutil.move if op == "move" else shutil.copytree)(src, dst)
        elif op == "chdir_home":
            os.chdir(self.root)
        else:
            p = self.pools[c["h"]]
            if op == "set_context":
                p.set_context(elfi.ComputationContext(batch_size=c["bs"], seed=c["seed"]))
            elif op == "add_batch":
                batch = {n: enc(n, c["v"], self.bs, self.wide) for n in c["ns"]}
                if c.get("item"):
                    p[c["i"]] = batch                    # __setitem__
                else:
                    p.add_batch(batch, c["i"])
            elif op == "remove_batch":
                p.remove_batch(c["i"])
            elif op == "get_batch":
                b = p[c["i"]] if c.get("item") and not c["ns"] else p.get_batch(c["i"], list(c["ns"]) or None)
                ret = [[n, dec(a, n, self.bs, self.wide)] for n, a in b.items()]
            elif op == "clear":
                p.clear()
            elif op == "flush":
                p.flush()
            elif op == "add_store":
                if c["what"] == "default":
                    p.add_store(c["node"])
                else:
                    p.add_store(c["node"], Unpicklable() if c["what"] == "bad" else {})
            elif op == "remove_store":
                st = p.remove_store(c["node"])
                del st
                gc.collect(0)
            elif op == "save":
                p.save()
            elif op == "close":
                p.close()
            elif op == "delete":
                p.delete()
            else:
                raise RuntimeError("unknown call in scenario: %r" % op)
        return ret

    # -- projection
    def locate(self, st, pool):
        """the folder [prefix, name] of the file an NpyStore works on"""
        arr = st.array
        fs = getattr(arr, "fs", None)
        if fs is not None and not fs.closed:
            try:
                ino = os.fstat(fs.fileno()).st_ino
                base = os.path.basename(arr.filename)
                for d in DIRS:
                    f = os.path.join(self.path(d), base)
                    if os.path.exists(f) and os.stat(f).st_ino == ino:
                        self.where[st] = d
                        return d
            except OSError:
                pass
            return ["?", "unlinked"]
        if st in self.where:
            return self.where[st]
        fn = arr.filename
        dn = os.path.dirname(fn if os.path.isabs(fn) else os.path.join(self.root, fn))
        for d in DIRS:
            if os.path.normpath(self.path(d)) == os.path.normpath(dn):
                return d
        return ["?", os.path.relpath(dn, self.root)]

    def project_store(self, node, st, pool):
        from elfi.store import ArrayStore
        if st is None:
            return dict(k="none", n=0, al=0, op=False, ini=False, keys=[], vals=[], d=["", ""])
        if isinstance(st, dict):
            keys = sorted(int(k) for k in st.keys())
            return dict(k="bad" if isinstance(st, Unpicklable) else "dict", n=len(st), al=0, op=False, ini=False, keys=keys,
                        vals=[dec(st[k], node, self.bs, self.wide) for k in keys], d=["", ""])
        if isinstance(st, ArrayStore):
            arr = st.array
            fs = getattr(arr, "fs", None)
            is_open = fs is not None and not fs.closed
            n = int(st.n_batches)
            vals = []
            for i in range(max(0, min(n, 40))):
                try:
                    vals.append(dec(st[i], node, self.bs, self.wide))
                except Exception:
                    vals.append(-2)
            try:
                al = len(arr) // self.bs
            except Exception:
                al = -1
            return dict(k="npy", n=n, al=int(al), op=bool(is_open), ini=arr.header_length is not None, keys=list(range(max(0, min(n, 40)))),
                        vals=vals, d=self.locate(st, pool))
        return dict(k=type(st).__name__, n=0, al=0, op=False, ini=False, keys=[], vals=[], d=["", ""])

    def project_pool(self, p):
        import elfi
        if p is None:
            return dict(ex=False, kind="", name="", prefix="", bs=0, seed=-1, order=[], stores=[], len=0, has=[False] * NHAS)
        try:
            ln = int(len(p))
        except Exception:
            ln = -1
        try:
            has = [bool(i in p) for i in range(NHAS)]
        except Exception:
            has = []
        order = [str(k) for k in p.stores.keys()]
        return dict(ex=True, kind="array" if isinstance(p, elfi.ArrayPool) else "output", name=p.name or "", prefix=self.prefix_id(p.prefix),
                    bs=int(p.batch_size or 0), seed=-1 if p.seed is None else int(p.seed), order=order,
                    stores=[self.project_store(n, p.stores[n], p) for n in p.stores.keys()], len=ln, has=has)

    def safe_project_pool(self, p):
        try:
            return self.project_pool(p)
        except Exception as ex:          # a changed tree may break what the projection reads: reported by TLC as a difference
            return dict(ex=True, kind="projection failed: " + type(ex).__name__, name="", prefix="", bs=0, seed=-1, order=[], stores=[], len=0,
                        has=[False] * NHAS)

    def project_dir(self, d):
        path = self.path(d)
        if not os.path.isdir(path):
            return None
        entries = set(os.listdir(path))
        known = {"_outputpool.pkl"}
        spk, npy = [], []
        for n in NODESEQ:
            known |= {n + ".pkl", n + ".npy"}
            spk.append(os.path.isfile(os.path.join(path, n + ".pkl")))
            f = os.path.join(path, n + ".npy")
            if not os.path.isfile(f):
                npy.append(dict(ex=False, ini=False, vals=[]))
            elif os.path.getsize(f) == 0:
                npy.append(dict(ex=True, ini=False, vals=[]))
            else:
                try:
                    rows = np.load(f)
                    k = len(rows) // self.bs
                    vals = [dec(rows[j * self.bs:(j + 1) * self.bs], n, self.bs, self.wide) for j in range(k)] + ([-1] if len(rows) % self.bs else [])
                except Exception:
                    vals = [-3]
                npy.append(dict(ex=True, ini=True, vals=vals))
        return dict(j=DIRS.index(d) + 1, pkl=os.path.isfile(os.path.join(path, "_outputpool.pkl")), spk=spk, npy=npy, extra=len(entries - known))

    def observe(self):
        from elfi.store import ArrayStore
        # write-through (named deviation of the design): what open stores appended goes to their files before anything is read
        for p in self.pools.values():
            for st in list(p.stores.values()):
                if isinstance(st, ArrayStore):
                    fs = getattr(st.array, "fs", None)
                    if fs is not None and not fs.closed:
                        try:
                            st.array.flush()
                        except Exception:
                            pass
        outside = 0
        if os.path.isdir(self.root):
            outside += len(set(os.listdir(self.root)) - {"pools", "q", "A", "B"})
            for pfx in PREFIXES:
                pd = self.prefix_dir(pfx)
                if os.path.isdir(pd):
                    outside += len(set(os.listdir(pd)) - set(NAMES))
        return dict(cwd_home=os.path.realpath(os.getcwd()) == os.path.realpath(self.root),
                    pools=[self.safe_project_pool(self.pools.get(h)) for h in range(1, NHANDLES + 1)],
                    disk=[x for x in (self.project_dir(d) for d in DIRS) if x is not None], outside=outside)


@contextlib.contextmanager
def quiet():
    lg = logging.getLogger("elfi")
    old = lg.level
    lg.setLevel(logging.CRITICAL)
    hook = sys.unraisablehook
    sys.unraisablehook = lambda *a, **k: None        # ArrayStore.__del__ of a half-unpickled store (no `array`) raises AttributeError
    try:
        with warnings.catch_warnings():
            warnings.simplefilter("ignore")
            yield
    finally:
        gc.collect(0)
        sys.unraisablehook = hook
        lg.setLevel(old)


_counter = [0]


def scratch_root():
    _counter[0] += 1
    return os.path.join(core.OUT, "pool_life", "h_%d_%d" % (os.getpid(), _counter[0]))


def record(sc):
    """run one history on real pool objects; the trace = per call its arguments, outcome and the projected state afterwards"""
    root = scratch_root()
    shutil.rmtree(root, ignore_errors=True)
    os.makedirs(root)
    home = os.getcwd()
    events = []
    w = World(root, sc["bs"], bool(sc.get("wide")))
    with quiet():
        try:
            os.chdir(root)
            todo = [dict(C0, **c) for c in sc["calls"]]
            k = 0
            while k < len(todo):
                c = todo[k]
                k += 1
                if (c["op"] in ("new", "open")) == (c["h"] in w.pools) and c["op"] not in ("move", "copy", "chdir_home"):
                    continue          # a random history may address a variable that holds no object (an earlier call raised), or a taken one
                e = dict(call={f: c[f] for f in C0}, raised="", ret=[])
                try:
                    with time_limit(CALL_LIMIT_S):
                        e["ret"] = w.call(c)
                except Hang:
                    e["raised"] = "Hang"
                except Exception as ex:
                    e["raised"] = type(ex).__name__
                    e["msg"] = str(ex)[:100]
                e.setdefault("msg", "")
                try:
                    with time_limit(CALL_LIMIT_S):
                        e["obs"] = w.observe()
                except Hang:
                    break
                events.append(e)
                if not e["obs"]["cwd_home"] and c["op"] != "chdir_home":
                    todo.insert(k, dict(C0, op="chdir_home"))        # the environment goes back before the next call
        finally:
            w.pools.clear()
            gc.collect(0)
            os.chdir(home)
            shutil.rmtree(root, ignore_errors=True)
    return dict(bs=sc["bs"], dirs=DIRS, nodes=NODESEQ, events=events)


# ------------------------------------------------------------------------------ scenarios
def S(calls, bs=2, wide=False, pin=None):
    return dict(calls=calls, bs=bs, wide=wide, pin=pin)


def new(h, outs, name="x", prefix="p", kind="array"):
    return dict(op="new", h=h, kind=kind, outs=list(outs), name=name, prefix=prefix)


def ctx_(h, seed=7, bs=2):
    return dict(op="set_context", h=h, bs=bs, seed=seed)


def add(h, i, ns, v):
    return dict(op="add_batch", h=h, i=i, ns=list(ns), v=v)


def rm(h, i):
    return dict(op="remove_batch", h=h, i=i)


def get(h, i, ns=""):
    return dict(op="get_batch", h=h, i=i, ns=list(ns))


def m(op, h):
    return dict(op=op, h=h)


def opn(h, name="x", prefix="p", via="array"):
    return dict(op="open", h=h, name=name, prefix=prefix, via=via)


def adds(h, node, what="default"):
    return dict(op="add_store", h=h, node=node, what=what)


def rms(h, node):
    return dict(op="remove_store", h=h, node=node)


def mv(op, d1, d2):
    return dict(op=op, d1=list(d1), d2=list(d2))


def pinned():
    """deterministic histories: what a user relies on, and one per finding (reproduced on every run, whatever the seed)"""
    return [
        S([new(1, "abc"), ctx_(1), add(1, 0, "ab", 1), add(1, 1, "a", 2), get(1, 0), get(1, 1), get(1, 0, "ba"), get(1, 0, "cb"), m("save", 1), m("close", 1), opn(2),
           get(2, 0), get(2, 1), add(2, 1, "ab", 3), add(2, 2, "a", 4), m("close", 2), m("drop", 1), m("drop", 2), opn(1, via="output"),
           get(1, 1), get(1, 2), m("delete", 1), opn(2)],
          pin="straight path: save, close, open gives the same stores / batches / batch_size / seed / name; delete removes the folder"),
        S([new(1, "ab"), ctx_(1), add(1, 0, "ab", 1), m("save", 1), add(1, 1, "ab", 2), add(1, 2, "a", 3), m("flush", 1), m("drop", 1), opn(1),
           get(1, 1), get(1, 0, "ac"), add(1, 1, "ab", 4), get(1, 1), m("save", 1), m("save", 1), m("close", 1), opn(2), get(2, 1), get(2, 2)],
          pin="an older pickle after more batches were added: open reports the saved count, the later batches stay hidden in the file and "
              "are overwritten in place; saving twice"),
        S([new(1, "ab"), ctx_(1), add(1, 0, "ab", 1), add(1, 1, "ab", 2), m("save", 1), rm(1, 1), m("drop", 1), opn(1), get(1, 1), get(1, 0),
           add(1, 2, "a", 3), rm(1, 1), get(1, 0)],
          pin="FINDING save; remove_batch; open: the opened pool claims batches that are empty arrays"),
        S([new(1, "a"), ctx_(1), add(1, 0, "a", 1), m("save", 1), m("clear", 1), opn(2), get(2, 0), m("clear", 2), get(2, 0)],
          pin="FINDING save; clear; open: len 1, batch 0 is an empty array"),
        S([new(1, "abc"), ctx_(1), add(1, 0, "ab", 1), add(1, 1, "a", 2), m("close", 1), get(1, 0), add(1, 0, "a", 9), add(1, 2, "a", 9),
           add(1, 0, "c", 5), get(1, 0), m("flush", 1), rm(1, 1), m("clear", 1), m("save", 1), m("close", 1), opn(2), get(2, 0), get(2, 1)],
          pin="FINDING a closed pool: get_batch raises, add_batch of a held index does nothing, a store that was None is made and filled, "
              "remove_batch lowers the count and THEN raises, and the next save persists that"),
        S([new(1, "ab"), ctx_(1), add(1, 0, "ab", 1), m("save", 1), m("delete", 1), get(1, 0), m("save", 1), opn(2), m("delete", 1),
           m("delete", 1), opn(3)],
          pin="delete: folder gone; len still answers, get_batch raises; save after delete writes pickles whose files are gone, open drops "
              "those stores; delete twice; open of a deleted pool"),
        S([new(1, "ab"), ctx_(1), add(1, 1, "a", 1), m("clear", 1), m("save", 1), opn(2), add(1, 0, "a", 2), m("close", 1), opn(3)],
          pin="FINDING a refused first add_batch (index 1) leaves an empty store and a 0-byte a.npy; clear raises; after save / open the "
              "store 'a' is gone from the pool"),
        S([new(1, "b"), ctx_(1), adds(1, "a"), m("close", 1), opn(2), add(2, 0, "ab", 1), m("close", 2), opn(3)],
          pin="FINDING add_store(node) on an ArrayPool; close; open: the store is dropped"),
        S([new(1, "a", name=""), ctx_(1), add(1, 0, "a", 1), m("drop", 1), new(1, "a", name=""), ctx_(1), get(1, 0), add(1, 0, "a", 2),
           get(1, 0), add(1, 1, "a", 3)],
          pin="FINDING auto-named pools: a NEW ArrayPool with the same seed adopts arraypool_<seed>/a.npy and serves the old batch"),
        S([new(1, "a"), new(2, "a"), ctx_(1), ctx_(2), add(1, 0, "a", 1), add(2, 0, "a", 2), get(2, 0), add(2, 1, "a", 3), get(1, 1),
           add(1, 1, "a", 4), get(1, 1), get(2, 1)],
          pin="FINDING two pools built with one name before the folder exists share the files"),
        S([new(1, "a"), ctx_(1), add(1, 0, "a", 1), adds(1, "b", "bad"), m("save", 1), add(1, 1, "a", 2), rms(1, "b"), m("save", 1), opn(2)],
          pin="FINDING save() with a store that cannot be pickled raises and leaves the process inside the pool folder"),
        S([new(1, "a", prefix="A"), ctx_(1), add(1, 0, "a", 1), m("close", 1), mv("copy", ["A", "x"], ["B", "x"]), opn(2, prefix="B"),
           add(2, 1, "a", 2), m("close", 2), opn(3, prefix="A"), get(3, 1), m("drop", 3), opn(3, prefix="B"), get(3, 1), m("delete", 3)],
          pin="FINDING a COPY of a pool saved under an absolute prefix works on the original's a.npy"),
        S([new(1, "a", prefix="A"), ctx_(1), add(1, 0, "a", 1), m("close", 1), m("drop", 1), mv("move", ["A", "x"], ["B", "y"]),
           opn(1, name="y", prefix="B"), add(1, 1, "a", 2), m("close", 1), m("drop", 1), new(2, "a", prefix="A"), ctx_(2), add(2, 0, "a", 5),
           m("close", 2), opn(1, name="y", prefix="B"), get(1, 0)],
          pin="a renamed folder opens under its new name; once a namesake exists at the old absolute path the moved pool works on THAT file"),
        S([new(1, "ab", prefix="p"), new(2, "ab", prefix="q"), ctx_(1), ctx_(2, seed=0), add(1, 0, "ab", 1), add(2, 0, "ab", 2), add(2, 1, "a", 3),
           m("close", 1), m("delete", 2), opn(3, prefix="p"), get(3, 0), m("drop", 2), opn(2, prefix="q")],
          pin="one name under two prefixes (the default one and another): no interference; seed 0"),
        S([new(1, "a"), ctx_(1), add(1, 0, "a", 1), m("close", 1), opn(2), opn(3), add(2, 1, "a", 2), add(3, 1, "a", 3), get(2, 1), get(3, 1),
           m("close", 2), m("close", 3), m("drop", 2), opn(2), get(2, 1)],
          pin="the same pool opened twice: both objects write batch 1 of the one file, the last writer's values are what both read"),
        S([new(1, "ab"), add(1, 0, "a", 1), m("save", 1), m("close", 1), m("clear", 1), rm(1, 0), get(1, 0), m("flush", 1), adds(1, "c"),
           m("delete", 1), ctx_(1), ctx_(1), add(1, 0, "a", 1), m("save", 1)],
          pin="before set_context: add_batch / add_store / save / close refused (ValueError), clear AttributeError and remove_batch TypeError "
              "on None stores, flush / delete / get_batch / len fine; set_context twice"),
        S([new(1, "ab", kind="output"), add(1, 0, "a", 1), add(1, 2, "ab", 2), m("save", 1), ctx_(1, seed=0), get(1, 2), m("save", 1), m("close", 1),
           add(1, 1, "b", 3), rm(1, 2), opn(2), get(2, 2), add(2, 5, "a", 4), m("clear", 2), m("flush", 2), m("delete", 2), m("save", 1), opn(3)],
          pin="OutputPool (dict stores): usable without context and after close, sparse batch indices, len = largest store, open gives "
              "independent copies"),
        S([new(1, "ab"), ctx_(1), add(1, 0, "ab", 1), add(1, 1, "a", 2), rms(1, "a"), get(1, 0), adds(1, "a"), get(1, 1), rms(1, "c"),
           adds(1, "b"), adds(1, "c", "dict"), add(1, 3, "c", 3), m("close", 1), opn(2)],
          pin="FINDING remove_store keeps the file: add_store for the node brings its batches back; KeyError / ValueError of remove_store / "
              "add_store; a dict store inside an ArrayPool"),
        S([new(1, "ab"), ctx_(1), add(1, 0, "ab", 1), add(1, 1, "b", 2), rm(1, 0), get(1, 0), rm(1, 1), rm(1, 0), rm(1, 0), add(1, 2, "ab", 3),
           add(1, 0, "ab", 4)],
          pin="FINDING remove_batch stops half way: 'a' loses batch 0, then 'b' (holding 0 and 1) raises IndexError"),
        S([new(1, "a"), ctx_(1), add(1, 0, "a", 1), new(2, "a"), m("save", 1), new(2, "b"), opn(2, name="y"), opn(2), m("delete", 1), new(3, "a"),
           ctx_(3, seed=0), m("save", 3), m("drop", 1), new(1, "a", name="y")],
          pin="the constructor refuses a name whose folder exists (also one that only holds .npy files) and accepts it again after delete; "
              "open of a name that was never saved"),
    ]


def random_scenario(rnd, k):
    """a seeded-random history; `guess` is only a bias towards calls that are not refused (TLC decides what is expected)"""
    bs = rnd.choice([1, 2, 2, 3])
    wide = rnd.random() < 0.25
    mode = rnd.choice(["rel", "rel", "rel2", "abs", "output", "mixed"])
    prefixes = {"rel": ["p"], "rel2": ["p", "q"], "abs": ["A", "B"], "output": ["p", "q"], "mixed": ["p", "A"]}[mode]
    nodes = rnd.choice(["a", "ab", "ab", "abc"])
    names = ["x", "x", "y", ""] if mode != "abs" else ["x", "y"]
    calls = []
    live = {}            # h -> guess dict(ctx, dirs)
    saved = []           # (name, prefix) that probably hold a pool pickle
    v = [0]
    n_calls = rnd.randint(7, 14)

    def nv():
        v[0] += 1
        return v[0]

    def free():
        return [h for h in range(1, NHANDLES + 1) if h not in live]

    while len(calls) < n_calls:
        ws = []
        if free():
            ws += [("new", 3 if not live else 0.7)]
            if saved:
                ws += [("open", 2.2)]
        if live:
            ws += [("set_context", 1.5), ("add_batch", 5), ("remove_batch", 1.0), ("get_batch", 1.5), ("clear", 0.35), ("flush", 0.4),
                   ("save", 1.4), ("close", 1.3), ("delete", 0.45), ("drop", 0.7), ("add_store", 0.5), ("remove_store", 0.35)]
        if saved and mode in ("abs", "mixed", "rel2"):
            ws += [("move", 0.4), ("copy", 0.5)]
        op = rnd.choices([x[0] for x in ws], [x[1] for x in ws])[0]
        if op == "new":
            h = free()[0]
            kind = "output" if mode == "output" or (mode != "abs" and rnd.random() < 0.12) else "array"
            name = rnd.choice(names)
            calls.append(new(h, nodes if rnd.random() < 0.8 else nodes[:1], name=name, prefix=rnd.choice(prefixes), kind=kind))
            live[h] = dict(ctx=False, name=name, prefix=calls[-1]["prefix"], kind=kind, n=0)
        elif op == "open":
            h = free()[0]
            name, prefix = rnd.choice(saved)
            calls.append(opn(h, name=name, prefix=prefix, via=rnd.choice(["array", "output"])))
            live[h] = dict(ctx=True, name=name, prefix=prefix, kind="array", n=1)
        else:
            if op in ("move", "copy"):
                name, prefix = rnd.choice(saved)
                others = [p for p in prefixes if p != prefix] or prefixes
                d2 = [rnd.choice(others), rnd.choice(["x", "y"])]
                if d2 != [prefix, name]:
                    calls.append(mv(op, [prefix, name], d2))
                    saved.append((d2[1], d2[0]))
                continue
            h = rnd.choice(sorted(live))
            g = live[h]
            if op == "set_context":
                if g["ctx"] and rnd.random() < 0.8:
                    continue
                seed = rnd.choice(SEEDS)
                calls.append(ctx_(h, seed=seed, bs=bs))
                if not g["ctx"] and not g["name"]:
                    g["name"] = "%spool_%d" % (g["kind"], seed)
                g["ctx"] = True
            elif op == "add_batch":
                if not g["ctx"] and g["kind"] == "array" and rnd.random() < 0.85:
                    calls.append(ctx_(h, seed=rnd.choice(SEEDS), bs=bs))
                    if not g["name"]:
                        g["name"] = "%spool_%d" % (g["kind"], calls[-1]["seed"])
                    g["ctx"] = True
                i = g["n"] if rnd.random() < 0.7 else rnd.randint(0, max(1, g["n"] + 1))
                sub = [n for n in nodes if rnd.random() < 0.75] or [nodes[0]]
                calls.append(add(h, min(i, NHAS), sub, nv()))
                calls[-1]["item"] = rnd.random() < 0.25
                g["n"] = max(g["n"], min(i, NHAS) + 1) if i <= g["n"] else g["n"]
            elif op == "remove_batch":
                i = max(0, g["n"] - 1) if rnd.random() < 0.7 else rnd.randint(0, 2)
                calls.append(rm(h, i))
                if i == g["n"] - 1:
                    g["n"] -= 1
            elif op == "get_batch":
                calls.append(get(h, rnd.randint(0, max(0, g["n"])), [n for n in NODESEQ if rnd.random() < 0.5] if rnd.random() < 0.25 else ""))
                calls[-1]["item"] = rnd.random() < 0.3
            elif op in ("clear", "flush", "save", "close", "delete"):
                calls.append(m(op, h))
                if op in ("save", "close") and g["ctx"] and g["name"]:
                    saved.append((g["name"], g["prefix"]))
                if op == "clear":
                    g["n"] = 0
            elif op == "drop":
                calls.append(m("drop", h))
                del live[h]
            elif op == "add_store":
                calls.append(adds(h, rnd.choice(NODESEQ), rnd.choices(["default", "dict", "bad"], [3, 1, 0.7])[0]))
            elif op == "remove_store":
                calls.append(rms(h, rnd.choice(nodes)))
    for c in calls:
        if c["op"] == "set_context":
            c["bs"] = bs
    return S(calls, bs=bs, wide=wide)


def scenarios(ctx):
    rnd = random.Random(ctx.seed * 104729 + 77)
    n = 50 if ctx.quick else 500
    out = pinned()
    out += [random_scenario(rnd, k) for k in range(max(0, n - len(out)))]
    return out


# ------------------------------------------------------------------------------ design check
INV_USER = ["RoundTrip", "NoPhantoms", "NewStoreIsEmpty", "CwdKept", "SelfContained", "AtomicCalls", "Isolation"]
INV_CALLS = ["DeleteRemovesFolder", "CloseKeepsFiles", "ClearKeepsStores", "ContextRules", "NewRefusesExistingFolder"]
INV_MACHINE = ["Shape", "DiskShape"]
ACTIONS = ["CallNew", "CallSetContext", "CallAddBatch", "CallRemoveBatch", "CallGetBatch", "CallAddStore", "CallRemoveStore", "CallClear",
           "CallFlush", "CallSave", "CallClose", "CallDelete", "CallOpen", "DropObject", "MoveFolder", "CopyFolder", "ChdirBack"]


def tset(vals):
    return "{" + ", ".join(('"%s"' % v) if isinstance(v, str) else str(v) for v in vals) + "}"


def mc_cfg(fix, invs, nodes=("a", "b"), prefixes=("p",), absp=(), names=("x",), seeds=(1,), handles=(1, 2), kinds=("array",),
           outs="Outs_ab_only", ns="Ns_a_or_ab", whats=("default",), vals=(1, 2), maxi=1, bss=(1,), maxops=5, env=False):
    return """SPECIFICATION Spec
CONSTANTS
  Nodes = %s
  Prefixes = %s
  AbsPrefixes = %s
  Names = %s
  Seeds = %s
  Handles = %s
  Fix = %s
  KindsUsed = %s
  OutsSet <- %s
  NsSet <- %s
  Whats = %s
  Vals = %s
  MaxI = %d
  BSs = %s
  MaxOps = %d
  EnvMoves = %s
%s
CHECK_DEADLOCK FALSE
""" % (tset(nodes), tset(prefixes), tset(absp), tset(names), tset(seeds), tset(handles), tset(fix), tset(kinds), outs, ns, tset(whats),
       tset(vals), maxi, tset(bss), maxops, "TRUE" if env else "FALSE", "\n".join("INVARIANT " + i for i in invs))


class _Lane:
    """what ctx.tlc accumulates, per thread (merged by Design.join)"""

    def __init__(self, ctx):
        self.ctx = ctx
        self.states = 0
        self.transitions = 0
        self.tlc_runs = []
        self.negative_controls = []

    def tlc(self, module, cfg, expect_actions=None, expect_ok=True, expect_violated=None, label=None, **kw):
        kw.setdefault("metadir", os.path.join(self.ctx.outdir, "meta_%s" % cfg))
        kw.setdefault("coverage", bool(expect_actions))
        r = tlc.run(module, cfg, **kw)
        self.states += r.distinct
        self.transitions += r.generated
        summ = r.as_dict()
        summ["label"] = label or cfg
        summ["expect_ok"] = expect_ok
        self.tlc_runs.append(summ)
        cov = dict(r.coverage)
        for mm in re.finditer(r"^<(\w+) line \d+, col \d+ to line \d+, col \d+ of module \w+ \([\d ]+\)>: (\d+):(\d+)", r.out, re.M):
            cov[mm.group(1)] = [int(mm.group(2)), int(mm.group(3))]        # actions TLC reports with a sub-location
        for a in (expect_actions or []):
            if cov.get(a, [0, 0])[1] == 0:
                raise tlc.MachineryFailure("action %s of %s never taken (vacuous run)\n%s" % (a, module, r.out[-1500:]))
        if expect_ok and not r.ok:
            raise tlc.MachineryFailure("design module %s/%s violates %s\n%s" % (module, cfg, r.violated, r.trace_text[:3000]))
        if not expect_ok:
            if r.ok:
                raise tlc.MachineryFailure("negative control %s/%s found no violation" % (module, cfg))
            if expect_violated and r.violated != expect_violated:
                raise tlc.MachineryFailure("negative control %s/%s refuted %s, expected %s" % (module, cfg, r.violated, expect_violated))
            self.negative_controls.append(dict(run=summ["label"], refuted=r.violated))
        return r


def design_jobs(ctx):
    """three lanes of jobs; TLC workers per lane 2 + 2 + 2 = 6"""
    q = ctx.quick
    lanes = [[], [], []]

    def job(lane, name, cfg_text, workers=2, **kw):
        lanes[lane].append(lambda acc: acc.tlc("MC_PoolLife", "MC_PoolLife_" + name, cfg_text=cfg_text, workers=workers, timeout=1800, **kw))

    every = INV_MACHINE + INV_USER + INV_CALLS
    one = dict(nodes=("a",), outs="Outs_a_only", ns="Ns_a", vals=(1,))
    abs1 = dict(one, prefixes=("A",), absp=("A",), env=True)
    abs2 = dict(one, prefixes=("A", "B"), absp=("A", "B"), env=True)
    # (1) every action is taken (small instance with everything switched on; the only run with TLC's coverage statistics)
    job(0, "actions", mc_cfg([], INV_MACHINE, maxi=0, whats=("default", "bad"), maxops=5, handles=(1,), **abs2),
        expect_actions=ACTIONS, label="PoolLife as the code is: every action taken")
    # (2) the repaired machine keeps every user-level invariant
    job(0, "repaired", mc_cfg(ALL_FIXES, every, whats=("default", "bad") if q else ("default", "bad", "dict"), outs="Outs_ab_only" if q else "Outs_ab",
                              maxops=5 if q else 6),
        label="PoolLife repaired (all six repairs): every user-level invariant")
    job(1, "repaired_abs", mc_cfg(ALL_FIXES, every, maxi=1, maxops=6 if q else 7, **(abs1 if q else abs2)),
        label="PoolLife repaired, absolute prefixes, folders renamed / copied")
    # (3) the code as transcribed: what does hold
    code_invs = INV_MACHINE + INV_CALLS + ["RoundTripInitialised"]
    rel_invs = code_invs + ["Isolation", "SelfContained", "CwdKept"]
    job(2, "code", mc_cfg([], rel_invs, prefixes=("p",) if q else ("p", "q"), outs="Outs_ab_only" if q else "Outs_ab", whats=("default", "dict"),
                          maxops=5),
        label="PoolLife as the code is (relative prefixes, picklable stores): folder rules, isolation, round trip of initialised stores")
    if not q:
        job(2, "code_deep", mc_cfg([], rel_invs, maxops=6), label="PoolLife as the code is, one prefix, six calls")
    job(0, "code_output", mc_cfg([], rel_invs + ["NoPhantoms", "NewStoreIsEmpty", "RoundTrip"], kinds=("output",), maxi=2, maxops=5 if q else 6,
                                 prefixes=("p",) if q else ("p", "q"), **one),
        label="PoolLife as the code is, OutputPool (dict stores): every invariant but atomicity")
    if not q:
        job(1, "code_abs", mc_cfg([], code_invs, maxi=1, maxops=7, whats=("default", "bad"), **abs2),
            label="PoolLife as the code is, absolute prefixes, folders renamed / copied, unpicklable stores")
    # (4) negative controls: leave one repair out and a user-level invariant breaks
    ctl = [("atomic", "AtomicCalls", dict(maxops=4)),
           ("save_restores_cwd", "CwdKept", dict(one, maxops=5, whats=("default", "bad"))),
           ("make_store_exclusive", "NewStoreIsEmpty", dict(one, maxops=6)),
           ("open_reconciles", "NoPhantoms", dict(one, maxops=6)),
           ("empty_file_is_empty_store", "RoundTrip", dict(one, maxops=5)),
           ("basename_first", "SelfContained", dict(abs1, maxops=7, maxi=0))]
    for k, (fixname, inv, kw) in enumerate(ctl):
        rest = [f for f in ALL_FIXES if f != fixname]
        job(2 if k < 4 else 0, "without_" + fixname, mc_cfg(rest, [inv], **kw), expect_ok=False, expect_violated=inv,
            label="PoolLife control: store.py without the repair '%s' breaks %s" % (fixname, inv))
    if not q:
        job(0, "code_isolation", mc_cfg([], ["Isolation"], maxi=1, maxops=7, **abs1), expect_ok=False, expect_violated="Isolation",
            label="PoolLife control: the code as it is under absolute prefixes breaks Isolation")
    return lanes


class Design:
    """runs the design jobs on three threads (TLC is a subprocess; at most 6 TLC workers at a time)"""

    def __init__(self, ctx):
        self.ctx = ctx
        jobs = design_jobs(ctx)
        self.lanes = [_Lane(ctx) for _ in jobs]
        self.errors = []
        self.threads = [threading.Thread(target=self._run, args=(self.lanes[k], jobs[k]), daemon=True) for k in range(len(jobs))]
        for th in self.threads:
            th.start()

    def _run(self, lane, jobs):
        try:
            for job in jobs:
                job(lane)
        except BaseException as ex:      # re-raised in the main thread by join()
            self.errors.append(ex)

    def join(self):
        for th in self.threads:
            th.join()
        for lane in self.lanes:
            self.ctx.states += lane.states
            self.ctx.transitions += lane.transitions
            self.ctx.tlc_runs += lane.tlc_runs
            self.ctx.negative_controls += lane.negative_controls
        if self.errors:
            raise self.errors[0]


# ------------------------------------------------------------------------------ corrupted copies (binding demonstration)
def corruptions(scs, traces):
    """(what, expected clause, trace, index of the source trace): one observed field of a real trace is changed; TLC must reject the
    copy with the clause.  Python only picks WHERE to corrupt.  (On a changed tree the source trace may not have the shape a corruption
    needs: that one is skipped.)"""
    out = []

    def first(tr, pred):
        return next((i for i, e in enumerate(tr["events"]) if pred(e)), None)

    def attempt(what, want, k, pred, change):
        tr = traces[k]
        j = first(tr, pred)
        if j is None:
            return
        t = copy.deepcopy(tr)
        t["events"] = t["events"][:j + 1]
        try:
            change(t["events"], j, t["events"][j]["obs"]["pools"][max(0, t["events"][j]["call"]["h"] - 1)])
        except (IndexError, KeyError, TypeError):
            return
        out.append((what, want, t, k))

    def returned(op):
        return lambda e: e["call"]["op"] == op and e["raised"] == ""

    def bump(field):
        def f(evs, j, p):
            p["stores"][0][field] += 1
        return f

    def bump_content(evs, j, p):
        p["stores"][0]["vals"][0] += 1

    def reverse(evs, j, p):
        if len(p["order"]) < 2:
            raise IndexError
        p["order"] = p["order"][::-1]
        p["stores"] = p["stores"][::-1]

    def other_seed(evs, j, p):
        p["seed"] = 0 if p["seed"] != 0 else 7

    def still_open(evs, j, p):
        if p["stores"][0]["k"] != "npy":
            raise IndexError
        p["stores"][0]["op"] = True

    def no_pickle(evs, j, p):
        evs[j]["obs"]["disk"][0]["pkl"] = False

    def folder_stays(evs, j, p):
        if not evs[j - 1]["obs"]["disk"] or j == 0:
            raise IndexError
        evs[j]["obs"]["disk"] = copy.deepcopy(evs[j - 1]["obs"]["disk"])

    def other_batch(evs, j, p):
        evs[j]["ret"][0][1] += 1

    def no_raise(evs, j, p):
        evs[j]["raised"] = ""

    attempt("the opened pool reports one batch more than was saved", "E:open-store-count", 0, returned("open"), bump("n"))
    attempt("the opened pool reports another seed", "E:open-pool-seed", 0, returned("open"), other_seed)
    attempt("the opened pool returns other content for batch 0", "E:open-store-content", 0, returned("open"), bump_content)
    attempt("the opened pool lists its stores in another order", "E:open-pool-stores", 0, returned("open"), reverse)
    attempt("a store is still open after close()", "E:close-store-open", 0, returned("close"), still_open)
    attempt("no pool pickle after close()", "E:close-disk-pool-pickle", 0, returned("close"), no_pickle)
    attempt("the folder is still there after delete()", "E:delete-disk-folder-exists", 0, returned("delete"), folder_stays)
    attempt("get_batch returns other content than was added", "E:get_batch-returns-the-stored-batch", 0,
            lambda e: e["call"]["op"] == "get_batch" and e["raised"] == "" and e["ret"], other_batch)
    for k in range(len(traces)):
        n = len(out)
        attempt("get_batch on a closed pool reported as returning", "E:get_batch-raises-as-transcribed", k,
                lambda e: e["call"]["op"] == "get_batch" and e["raised"] == "IndexError", no_raise)
        if len(out) > n:
            break
    return out


# ------------------------------------------------------------------------------ check
CLAUSES_DESIGN = [
    "repaired machine (six repairs): close then open gives the same pool (stores in order, batch_size, seed, per store the same batches); every "
    "batch a usable store claims is backed by data; a newly made store is empty; the working directory is kept; stores work on files in "
    "the pool's own folder; a raising call changes nothing; a call changes nothing outside its folder (one name under two prefixes, renamed "
    "and copied folders); delete removes the folder, close keeps every data file and leaves the pickles, clear keeps the stores, "
    "save / close need the context, set_context once, the constructor refuses an existing folder",
    "each repair is necessary (six controls) and the code as it is breaks folder isolation under absolute prefixes (control)",
    "the code as transcribed: folder rules, isolation and self-containedness under relative prefixes, round trip of pools whose stores were "
    "initialised"]
CLAUSES_TRACE = [
    "after every public call on real ArrayPool / OutputPool objects (up to three objects, 24 folders): exception type, returned batch, "
    "working directory, and per object class / name / prefix / batch_size / seed / keys of self.stores in order / per store kind, "
    "n_batches, array length, file open, initialised, batch indices, content of every batch read through the store, the folder its file "
    "lives in / len / `in`, and per folder existence, pool pickle, store pickles, .npy files with all their batch values equal what the "
    "design's Run gives",
    "the twelve user-level invariants evaluated along every history (violations = findings, collected per history)"]


def check_pool_life(ctx, design=True):
    scs = scenarios(ctx)
    traces = [record(sc) for sc in scs]              # before the TLC threads exist: the histories change the working directory
    bg = Design(ctx) if design else None
    corr = corruptions(scs, traces)
    allv = ctx.validate("PoolLife_Trace", traces + [c[2] for c in corr], chunk=max(6, -(-(len(traces) + len(corr)) // (4 if ctx.quick else 6))), name="poollife")
    if bg is not None:
        bg.join()
    verdicts = allv[:len(traces)]
    ctx.traces_validated -= len(corr)                # corrupted copies are not executions of the real code
    for (what, want, _t, k), v in zip(corr, allv[len(traces):]):
        if verdicts[k]["verdict"] != "ok":
            continue          # the source trace itself fails (changed tree): its copy may fail earlier for that reason
        if v["verdict"] != want:
            raise tlc.MachineryFailure("PoolLife_Trace did not reject a corrupted trace (%s): expected %s, got %r" % (what, want, v))
        ctx.negative_controls.append(dict(run="corrupted trace / PoolLife_Trace: " + what, refuted=want))
    if verdicts and verdicts[0]["verdict"] == "ok" and len(corr) < 9:
        raise tlc.MachineryFailure("only %d of the 9 corrupted-trace controls could be built from the straight-path history" % len(corr))
    ncalls = nraised = nleft = 0
    inv_count = {}
    for sc, tr, v in zip(scs, traces, verdicts):
        evs = tr["events"]
        ncalls += len(evs)
        nraised += sum(1 for e in evs if e["raised"])
        returned = sum(1 for e in evs if not e["raised"] and e["call"]["op"] in ("add_batch", "save", "close", "open", "delete", "remove_batch", "clear"))
        ctx.case("pool-life:" + core.digest(sc), nontrivial=returned >= 3)
        ctx.trace_events += len(evs)
        if v["verdict"] == "ok" and v["l"] <= len(evs):
            nleft += 1                                   # accepted up to the call where the history left the modelled domain
        if v["verdict"] != "ok":
            k = min(max(v["l"] - 2, 0), len(evs) - 1)
            e = evs[k]
            ctx.drifted(v["verdict"], sc, detail=dict(call_index=k, call={f: x for f, x in e["call"].items() if x != C0[f]}, raised=e["raised"],
                                                      msg=e["msg"], ret=e["ret"], pools=[p for p in e["obs"]["pools"] if p["ex"]],
                                                      disk=[dict(d, d=DIRS[d["j"] - 1]) for d in e["obs"]["disk"]]))
        for name in [x for x in v["drift"].split("|") if x]:
            inv_count[name] = inv_count.get(name, 0) + 1
            ctx.drifted("E:" + name, sc, detail=dict(pinned=sc.get("pin"), calls=[c["op"] for c in sc["calls"]],
                                                     outcomes=[e["raised"] for e in evs]))
    ctx.trusted_base += ["harness projection of pool objects and folders (reads every batch through the store and every .npy file with "
                         "numpy.load; locates an open store's file by inode)",
                         "harness encoding of a batch value, its node and row into small integer arrays (decoded back for TLC)"]
    ctx.assumptions += ["write-through: the projection flushes every open NpyArray after every call (buffered / crashed writes are C06's "
                        "NpyStore.tla)", "all pools of one history use one batch_size; appended arrays have one shape and dtype",
                        "histories that cut or remove a file under another live open store are accepted up to that call"]
    ctx.clauses_decided += CLAUSES_DESIGN + CLAUSES_TRACE
    ctx.clauses_not_decided += ["(pool lifecycle) dtype / shape mismatches, stores given to the constructor as a dict, custom StoreBase "
                                "implementations, concurrent processes on one folder"]
    ctx.notes.append("pool lifecycle extension: %d histories (%d pinned), %d calls, %d raised, %d left the modelled domain; user-level "
                     "invariants violated along the histories (histories): %s"
                     % (len(scs), len(pinned()), ncalls, nraised, nleft, ", ".join("%s=%d" % kv for kv in sorted(inv_count.items())) or "none"))
    if traces:
        ctx.sample(dict(scenario=scs[0]["pin"], events=[dict(call={f: x for f, x in e["call"].items() if x != C0[f]}, raised=e["raised"], ret=e["ret"],
                                                             pools=[p for p in e["obs"]["pools"] if p["ex"]]) for e in traces[0]["events"][:9]]))
    return dict(histories=len(scs), calls=ncalls, raised=nraised, left_domain=nleft, invariants_violated=inv_count)

"""C09 - MCMC kernels implement their algorithm and never leave the target's support.

O1: Metropolis.tla (the step machine against an adversarial target / generator: OutputsFinite,
    LengthExact, ChainIsRandomWalk, AcceptIff, OutputIsChainTail; negative controls: no NaN guard, no
    inf guard, warm-up slice off by one, invalid start) and NutsTree.tla (one NUTS iteration over every
    assignment of abstract leaf outcomes, every U-turn answer and every selection draw up to depth 3:
    SelectedIsInSliceLeafOrPrevious, ...; negative control: `if n_sub2 > 0` dropped) - exhaustively.
O3: real elfi.methods.mcmc.metropolis / nuts calls.  The harness supplies the target (and gradient)
    callables, which log every argument they are called with: for Metropolis that is the exact
    proposal of every iteration, including the hidden warm-up part.  The harness replays
    RandomState(seed) in the order the code consumes it (per iteration: d normals, then one uniform),
    identifies for every proposal the earlier state(s) it was built from - bit for bit
    `proposal == state + sigma * z` - and logs the class of every log-target value, the lattice level
    and the top 30 bits of the uniform.  Metropolis_Trace.tla lets TLC infer accept / reject of every
    iteration from the base of the next proposal and judge it with the rule of the design module; on
    lattice targets (k * ln 2) TLC computes the comparison ratio < u itself, elsewhere it uses the
    harness's float evaluation of the same target (oracle field, DESIGN T4; cross-checked against the
    integer arithmetic on the lattice, X: clause).  NUTS: per leapfrog step the leaf outcome is
    computed from the values the code itself holds when it calls the target (log_slicevar, momentum1 -
    read from the calling frame, nothing in /repo changes) and Nuts_Trace.tla requires every written
    row to be a selection NutsTree allows for exactly the observed leaves (M: clauses), besides the
    P: clauses on the returned array.

No verdict is computed here; Python drives elfi, projects observations to ids / classes and reads
TLC's verdict lines.
"""
import copy
import hashlib
import math
import random
import sys
import warnings

import numpy as np

from harness import tlc
from harness.util import Hang, time_limit

LN2 = math.log(2.0)
F12 = "F12"     # nuts: float() of 1-element arrays (numpy 2) when the target returns shape-(1,) values
F28 = "F28"     # nuts: ZeroDivisionError in the closing log line when n_adapt == n_iter - 1
TIE = 1e-12
HANGS = [0]


# ---------------------------------------------------------------------------------------------
# targets: pure functions of a scenario's `tg` dict
# ---------------------------------------------------------------------------------------------
def evaluate(tg, x):
    """(class, value, lattice level) of the log-target at x.  Region precedence: NaN region, +inf
    region, outside the box (-inf), then the family's finite value."""
    x = np.asarray(x, dtype=float).reshape(-1)
    x0 = x[0]
    if tg.get("nan") and tg["nan"][0] < x0 < tg["nan"][1]:
        return "nan", float("nan"), 0
    if tg.get("pinf") and tg["pinf"][0] < x0 < tg["pinf"][1]:
        return "inf", float("inf"), 0
    if tg.get("box") is not None and bool(np.any(np.abs(x) > tg["box"])):
        return "-inf", float("-inf"), 0
    fam = tg["fam"]
    if fam == "stair":            # staircase Laplace: k = -sum floor(c |x_j|), value k ln 2
        k = -int(np.sum(np.floor(np.abs(x) * tg["c"])))
        return "fin", k * LN2, k
    if fam == "flat":
        return "fin", 0.0, 0
    if fam == "gauss":
        s = tg["s"]
        return "fin", float(-0.5 * np.sum((x / s) ** 2)), 0
    raise ValueError(fam)


def gradient(tg, x):
    x = np.asarray(x, dtype=float)
    if tg["fam"] == "gauss":
        return -x / (tg["s"] ** 2)
    return np.zeros_like(x)


def wrap(val, ret):
    if ret == "float":
        return float(val)
    if ret == "np64":
        return np.float64(val)
    if ret == "arr0":
        return np.array(val, dtype=float)
    if ret == "arr1":
        return np.array([val], dtype=float)
    raise ValueError(ret)


def is_lattice(tg):
    return tg["fam"] in ("stair", "flat")


def digest_run(out, calls):
    h = hashlib.sha256()
    if out is not None:
        a = np.ascontiguousarray(np.asarray(out, dtype=float))
        h.update(str(a.shape).encode())
        h.update(a.tobytes())
    h.update(str(len(calls)).encode())
    for c in calls:
        h.update(c.tobytes())
    return h.hexdigest()[:20]


def rows_of(out):
    a = np.asarray(out, dtype=float)
    if a.ndim == 0:
        a = a.reshape(1, 1)
    if a.shape[0] == 0:
        return a.reshape(0, 1)
    return a.reshape(a.shape[0], -1)


# ---------------------------------------------------------------------------------------------
# Metropolis
# ---------------------------------------------------------------------------------------------
def eff_x0(sc):
    """the start as numbers (float64): integer starts are the rounded values"""
    v = np.array(sc["x0"], dtype=float)
    if sc.get("x0dt") == "int64":
        return np.round(v) + 0.0          # (+ 0.0: no negative zero - an integer array has none)
    if sc.get("x0dt") == "float32":
        return v.astype(np.float32).astype(float)
    return v


def start_obj(sc):
    """the object handed to the kernel as params0: a float64 array, or the SAME numbers as an int64 / float32 array (every
    start used here is exactly representable in all three)"""
    return eff_x0(sc).astype(sc.get("x0dt", "float64"))


def run_metropolis(sc, global_seed):
    """One real call.  Returns (res, exc, out, calls): calls = copies of every target argument."""
    from elfi.methods import mcmc
    tg = sc["tg"]
    calls = []

    def target(x):
        calls.append(np.array(x, dtype=float, copy=True).reshape(-1))   # the code passes a view it overwrites later
        return wrap(evaluate(tg, x)[1], tg["ret"])

    x0 = start_obj(sc)
    sigma = np.array(sc["sigma"], dtype=float) if isinstance(sc["sigma"], list) else float(sc["sigma"])
    np.random.seed(global_seed)          # the kernel must not depend on the global generator
    res, exc, out = "ok", "", None
    try:
        with warnings.catch_warnings():
            warnings.simplefilter("ignore")
            with time_limit(30):
                out = mcmc.metropolis(sc["n"], x0, target, sigma, warmup=sc["warmup"], seed=sc["seed"])
    except Hang:
        res, exc = "hang", "Hang"
        HANGS[0] += 1
    except BaseException as ex:          # an exception raised by elfi is an event
        if isinstance(ex, KeyboardInterrupt):
            raise
        res, exc = "raise", type(ex).__name__
    return res, exc, out, calls


def record_metropolis(sc):
    tg = sc["tg"]
    res, exc, out, calls = run_metropolis(sc, 101)
    res2, exc2, out2, calls2 = run_metropolis(sc, 202)
    d1 = res + exc + digest_run(out, calls)
    d2 = res2 + exc2 + digest_run(out2, calls2)
    x0 = eff_x0(sc).reshape(-1)
    t0c, t0v, k0 = evaluate(tg, x0)
    sigma = np.array(sc["sigma"], dtype=float) if isinstance(sc["sigma"], list) else float(sc["sigma"])
    # states: id 0 = params0, id i = i-th NEW argument of the target (re-evaluations of known states are not proposals)
    states = [x0]
    ids = {x0.tobytes(): 0}
    for c in calls[1:] if calls and calls[0].tobytes() == x0.tobytes() else calls:
        if c.tobytes() not in ids:
            ids[c.tobytes()] = len(states)
            states.append(c)
    ev = [evaluate(tg, s) for s in states]
    rs = np.random.RandomState(sc["seed"])
    steps = []
    with np.errstate(all="ignore"):
        for i in range(1, len(states)):
            z = rs.randn(*x0.shape)
            u = rs.rand()
            cand = np.stack(states[:i]) + (sigma * z)[None, :]
            hit = np.nonzero((cand == states[i][None, :]).all(axis=1))[0]
            bases = []
            for b in hit:
                b = int(b)
                ratio = np.exp(np.float64(ev[i][1]) - np.float64(ev[b][1]))
                if np.isfinite(ratio) and abs(float(ratio) - u) < TIE:
                    cmp_ = "either"
                else:
                    cmp_ = "lt" if bool(ratio < u) else "ge"
                bases.append(dict(b=b, cmp=cmp_))
            steps.append(dict(bases=bases, t=ev[i][0], k=ev[i][2], u30=int(math.floor(u * (1 << 30)))))
    outs = []
    if res == "ok":
        for row in rows_of(out):
            j = ids.get(np.ascontiguousarray(row).tobytes())
            outs.append(dict(ids=[] if j is None else [j], t=evaluate(tg, row)[0] if row.size == x0.size else "nan"))
    return dict(kernel="metropolis", n=sc["n"], warmup=sc["warmup"], t0=t0c, k0=k0, lattice=is_lattice(tg), res=res, exc=exc,
                ncalls=len(calls), steps=steps, outs=outs, d1=d1, d2=d2)


# ---------------------------------------------------------------------------------------------
# NUTS
# ---------------------------------------------------------------------------------------------
def run_nuts(sc, global_seed):
    """One real call.  Returns (res, exc, out, events); an event is one target call:
    dict(x, cls, where in {"init", "iter", "leaf", "recheck", "?"}, o = leaf outcome)."""
    from elfi.methods import mcmc
    tg = sc["tg"]
    events = []

    def target(x):
        xa = np.array(x, dtype=float, copy=True).reshape(-1)
        cls, val, _k = evaluate(tg, xa)
        e = dict(x=xa, cls=cls, where="?", o="unk")
        try:
            f = sys._getframe(1)
            name = f.f_code.co_name
            loc = f.f_locals
            if name == "nuts":
                e["where"] = "iter" if "ii" in loc else "init"
            elif name == "_build_tree_nuts":
                if "sub_ok" in loc:
                    e["where"] = "recheck"          # `if np.isinf(target(params1))` of a failed leaf
                else:
                    e["where"] = "leaf"
                    if "log_slicevar" in loc and "momentum1" in loc:
                        with np.errstate(all="ignore"):
                            lj = val - 0.5 * np.inner(loc["momentum1"], loc["momentum1"])
                            n_ok = bool(np.all(loc["log_slicevar"] <= lj))
                            s_ok = bool(np.all(loc["log_slicevar"] < (1000. + lj)))
                        e["o"] = "in" if (n_ok and s_ok) else ("ok" if s_ok else ("div" if not n_ok else "in-not-ok"))
        except Exception:       # frame not as expected: leaves stay "unk", the M: clauses are skipped
            pass
        events.append(e)
        return wrap(val, tg["ret"])

    def grad(x):
        return gradient(tg, x)

    x0 = start_obj(sc)          # float64, or the same numbers as an int64 / float32 array
    kw = {}
    for k_ in ("n_adapt", "stepsize", "max_depth"):
        if sc.get(k_) is not None:
            kw[k_] = sc[k_]
    np.random.seed(global_seed)
    res, exc, out = "ok", "", None
    try:
        with warnings.catch_warnings():
            warnings.simplefilter("ignore")
            with time_limit(60):
                out = mcmc.nuts(sc["n"], x0, target, grad, seed=sc["seed"], **kw)
    except Hang:
        res, exc = "hang", "Hang"
        HANGS[0] += 1
    except BaseException as ex:
        if isinstance(ex, KeyboardInterrupt):
            raise
        res, exc = "raise", type(ex).__name__
    return res, exc, out, events


def record_nuts(sc):
    tg = sc["tg"]
    res, exc, out, events = run_nuts(sc, 101)
    res2, exc2, out2, events2 = run_nuts(sc, 202)
    d1 = res + exc + digest_run(out, [e["x"] for e in events])
    d2 = res2 + exc2 + digest_run(out2, [e["x"] for e in events2])
    x0 = eff_x0(sc).reshape(-1)
    sid = {}

    def S(a):
        return sid.setdefault(np.ascontiguousarray(a, dtype=float).tobytes(), len(sid))

    start = S(x0)
    iters = []
    observable = all(e["where"] != "?" for e in events)
    if observable:
        for e in events:
            if e["where"] == "iter":
                iters.append(dict(prev=S(e["x"]), leaves=[]))
            elif e["where"] == "leaf" and iters:
                iters[-1]["leaves"].append(dict(s=S(e["x"]), o=e["o"]))
    outs = []
    if res == "ok":
        for row in rows_of(out):
            outs.append(dict(s=S(row), t=evaluate(tg, row)[0] if row.size == x0.size else "nan"))
    md = sc.get("max_depth")
    return dict(kernel="nuts", n=sc["n"], maxdepth=5 if md is None else md, t0=evaluate(tg, x0)[0], res=res, exc=exc, start=start,
                observable=observable, iters=iters, outs=outs, d1=d1, d2=d2)


# ---------------------------------------------------------------------------------------------
# scenarios
# ---------------------------------------------------------------------------------------------
TARGETS = [
    dict(fam="stair", c=1.0),
    dict(fam="stair", c=2.0, box=2.0),
    dict(fam="stair", c=1.0, box=3.0, nan=[0.5, 1.25]),
    dict(fam="stair", c=0.5, box=4.0, pinf=[-1.5, -0.75]),
    dict(fam="flat", box=1.0),
    dict(fam="gauss", s=1.0),
    dict(fam="gauss", s=1.0, box=1.5, nan=[0.25, 0.75]),
    dict(fam="gauss", s=2.0, box=3.0, pinf=[1.0, 1.5], nan=[-2.5, -2.0]),
]
NUTS_TARGETS = [
    dict(fam="gauss", s=1.0),
    dict(fam="gauss", s=1.0, box=1.5),
    dict(fam="gauss", s=0.5, box=1.0, nan=[0.5, 0.8]),
    dict(fam="gauss", s=2.0, box=2.0, nan=[-1.5, -1.0]),
    dict(fam="gauss", s=1.0, nan=[0.75, 1.5]),
    dict(fam="stair", c=1.0, box=3.0),                       # zero gradient: needs an explicit stepsize
    dict(fam="stair", c=2.0, box=2.0, nan=[1.0, 1.5]),
    dict(fam="flat", box=1.0),
]
RETS = ["float", "np64", "arr0", "arr1"]


def valid_start(rnd, tg, d, dyadic):
    lim = min(tg.get("box") or 2.0, 2.0) * 0.9
    for _ in range(200):
        x = [round(rnd.uniform(-lim, lim) * 8) / 8.0 if dyadic else rnd.uniform(-lim, lim) for _j in range(d)]
        if evaluate(tg, x)[0] == "fin":
            return x
    raise tlc.MachineryFailure("no valid start for %r" % (tg,))


def metropolis_scenarios(ctx, rnd):
    out = []
    base = ctx.seed * 1000
    # small: every target x dimension x warm-up x length x two scales
    k = 0
    for ti, tg0 in enumerate(TARGETS):
        for d in (1, 2, 3):
            for w in (0, 1, 2):
                for n in (1, 2, 3):
                    for sg in (0.5, 2.0):
                        k += 1
                        tg = dict(tg0, ret=RETS[k % 4])
                        sigma = sg if k % 3 else [sg * (1 + 0.5 * j) for j in range(d)]
                        out.append(dict(kernel="metropolis", tg=tg, d=d, x0=valid_start(rnd, tg, d, True), sigma=sigma, n=n, warmup=w,
                                        seed=base + k % 7))
    n_small = len(out)
    n_rand = 250 if ctx.quick else 8000
    for _ in range(n_rand):
        tg = dict(rnd.choice(TARGETS), ret=rnd.choice(RETS))
        d = rnd.choice([1, 1, 2, 3])
        sg = rnd.choice([0.25, 0.5, 1.0, 2.0, 3.7])
        sigma = sg if rnd.random() < 0.5 else [sg * rnd.choice([0.5, 1.0, 1.5]) for _j in range(d)]
        n = rnd.choice([1, 2, 3, 5, 8, 13, 20, 40] if not ctx.quick else [1, 2, 3, 5, 8, 13, 20])
        w = rnd.choice([0, 0, 1, 2, 3, 5, 10])
        out.append(dict(kernel="metropolis", tg=tg, d=d, x0=valid_start(rnd, tg, d, rnd.random() < 0.5), sigma=sigma, n=n, warmup=w,
                        seed=(0 if rnd.random() < 0.08 else rnd.randint(0, 2 ** 31 - 1))))
        if rnd.random() < 0.25:
            # the start handed over as an integer or single-precision array (same chain: the numbers are what counts)
            cand = dict(out[-1], x0dt=rnd.choice(["int64", "float32"]))
            if evaluate(tg, eff_x0(cand))[0] not in ("nan", "inf", "-inf"):
                out[-1] = cand
    # starts outside the statement's hypothesis (mechanism only: +-inf starts are refused)
    out.append(dict(kernel="metropolis", tg=dict(fam="flat", box=1.0, ret="float"), d=1, x0=[2.0], sigma=0.5, n=2, warmup=0, seed=1))
    out.append(dict(kernel="metropolis", tg=dict(fam="gauss", s=1.0, nan=[0.0, 1.0], ret="float"), d=1, x0=[0.5], sigma=0.5, n=2,
                    warmup=0, seed=1))
    return out, n_small


def nuts_scenarios(ctx, rnd):
    out = []
    base = ctx.seed * 1000
    k = 0
    for ti, tg0 in enumerate(NUTS_TARGETS):
        for d in (1, 2):
            for md in (0, 1, 2, 3):
                k += 1
                tg = dict(tg0, ret=RETS[k % 3])
                zero_grad = tg0["fam"] != "gauss"
                out.append(dict(kernel="nuts", tg=tg, d=d, x0=valid_start(rnd, tg, d, True), n=4 + k % 5, n_adapt=None if k % 2 else 0,
                                stepsize=[0.25, 0.5, 1.0][k % 3] if (zero_grad or k % 4 == 0) else None, max_depth=md, seed=base + k % 11))
    n_small = len(out)
    n_rand = 60 if ctx.quick else 2500
    for _ in range(n_rand):
        tg0 = rnd.choice(NUTS_TARGETS)
        tg = dict(tg0, ret=rnd.choice(RETS[:3]))
        d = rnd.choice([1, 2, 3])
        n = rnd.choice([3, 4, 6, 10, 16, 25])
        n_adapt = rnd.choice([None, 0, 1, 2, n, n + 3])
        zero_grad = tg0["fam"] != "gauss"
        stepsize = rnd.choice([0.1, 0.5, 1.0, 2.0]) if (zero_grad or rnd.random() < 0.5) else None
        md = rnd.choice([0, 1, 2, 3, 3, None])
        sc = dict(kernel="nuts", tg=tg, d=d, x0=valid_start(rnd, tg, d, rnd.random() < 0.5), n=n, n_adapt=n_adapt, stepsize=stepsize,
                  max_depth=md, seed=(0 if rnd.random() < 0.08 else rnd.randint(0, 2 ** 31 - 1)))
        if f28_class(sc):                      # that input class is finding F28 (pinned below), not sampled
            sc["n_adapt"] = n
        if rnd.random() < 0.3:
            # the start handed over as an integer or single-precision array (the numbers are what counts)
            cand = dict(sc, x0dt=rnd.choice(["int64", "int64", "float32"]))
            if evaluate(tg, eff_x0(cand))[0] not in ("nan", "inf", "-inf"):
                sc = cand
        out.append(sc)
    out.append(dict(kernel="nuts", tg=dict(fam="gauss", s=1.0, box=1.0, ret="float"), d=1, x0=[2.0], n=3, n_adapt=0, stepsize=0.5,
                    max_depth=2, seed=1))      # -inf start: refused (mechanism only)
    return out, n_small


PINNED = [
    # F12: the target returns a 1-element array (what BolfiPosterior.logpdf returns for a 1-parameter model)
    dict(kernel="nuts", tg=dict(fam="gauss", s=1.0, ret="arr1"), d=1, x0=[0.25], n=6, n_adapt=None, stepsize=None, max_depth=3, seed=3,
         pinned=F12),
    dict(kernel="nuts", tg=dict(fam="gauss", s=1.0, box=1.5, ret="arr1"), d=2, x0=[0.25, -0.5], n=5, n_adapt=0, stepsize=0.5, max_depth=2,
         seed=4, pinned=F12),
    # F28: n_adapt == n_iter - 1 (the default n_adapt = n_iter // 2 for n_iter in {1, 2})
    dict(kernel="nuts", tg=dict(fam="gauss", s=1.0, ret="float"), d=2, x0=[0.25, -0.5], n=1, n_adapt=None, stepsize=None, max_depth=3,
         seed=1, pinned=F28),
    dict(kernel="nuts", tg=dict(fam="gauss", s=1.0, ret="np64"), d=1, x0=[0.5], n=2, n_adapt=None, stepsize=0.5, max_depth=2, seed=2,
         pinned=F28),
    dict(kernel="nuts", tg=dict(fam="gauss", s=1.0, box=2.0, ret="float"), d=1, x0=[0.5], n=5, n_adapt=4, stepsize=None, max_depth=3,
         seed=5, pinned=F28),
]


def f28_class(sc):
    if sc["kernel"] != "nuts":
        return False
    na = sc.get("n_adapt")
    na = sc["n"] // 2 if na is None else na
    return na == sc["n"] - 1


def classify(sc, tr, verdict):
    """Known-finding classifiers: exactly the failing input class of the finding."""
    if verdict != "P:returns-the-requested-number-of-states" or sc["kernel"] != "nuts":
        return None
    if tr["exc"] == "TypeError" and sc["tg"]["ret"] == "arr1":
        return F12
    if tr["exc"] == "ZeroDivisionError" and f28_class(sc):
        return F28
    return None


# ---------------------------------------------------------------------------------------------
RECORD = dict(metropolis=record_metropolis, nuts=record_nuts)
MODULE = dict(metropolis="Metropolis_Trace", nuts="Nuts_Trace")


def trace_stats(tr):
    if tr["kernel"] == "metropolis":
        cls = set(s["t"] for s in tr["steps"])
        cm = set(b["cmp"] for s in tr["steps"] for b in s["bases"])
        return len(tr["steps"]) >= 2 and (len(cls) > 1 or len(cm) > 1)
    outs = set(lf["o"] for it in tr["iters"] for lf in it["leaves"])
    return len(tr["iters"]) >= 2 and len(outs) > 1


def check_scenarios(ctx, scs, sample=False):
    for kernel in ("metropolis", "nuts"):
        sub = [sc for sc in scs if sc["kernel"] == kernel]
        if not sub:
            continue
        traces = []
        kept = []
        for sc in sub:
            if HANGS[0] >= 3:           # the code under test loops; enough evidence
                break
            traces.append(RECORD[kernel](sc))
            kept.append(sc)
        verdicts = ctx.validate(MODULE[kernel], traces, chunk=400 if kernel == "metropolis" else 150, name=kernel)
        for sc, tr, v in zip(kept, traces, verdicts):
            key = (kernel, tlc_key(sc))
            ctx.case(key, nontrivial=trace_stats(tr))
            ctx.trace_events += len(tr["steps"]) if kernel == "metropolis" else len(tr["iters"])
            if v["verdict"] != "ok":
                small = dict(tr)
                if kernel == "metropolis":
                    small["steps"] = tr["steps"][max(0, v["l"] - 4):v["l"] + 1]
                    small["outs"] = tr["outs"][-3:]
                else:
                    small["iters"] = tr["iters"][max(0, v["l"] - 3):v["l"]]
                    small["outs"] = tr["outs"][-3:]
                ctx.fail(v["verdict"], sc, detail=dict(at=v["l"] - 1, exc=tr["exc"], trace=small), finding=classify(sc, tr, v["verdict"]))
            elif v["drift"]:
                ctx.drifted(v["drift"], sc)
            if sample and trace_stats(tr):
                ctx.sample(dict(scenario=sc, verdict=v, trace=dict((k_, (val[:4] if isinstance(val, list) else val)) for k_, val in tr.items())),
                           limit=4)
    return None


def tlc_key(sc):
    return hashlib.sha256(repr(sorted((k, repr(v)) for k, v in sc.items())).encode()).hexdigest()[:16]


def corruption_controls(ctx):
    """Binding demonstration (DESIGN T5 i): one logged field of a passing trace of the real code is corrupted;
    the trace spec must answer with the expected P: clause.  TLC decides; an accepted control is a machinery failure."""
    msc = dict(kernel="metropolis", tg=dict(fam="stair", c=1.0, box=3.0, ret="float"), d=1, x0=[0.25], sigma=1.0, n=6, warmup=2, seed=11)
    nsc = dict(kernel="nuts", tg=dict(fam="gauss", s=1.0, box=1.5, ret="float"), d=1, x0=[0.25], n=6, n_adapt=0, stepsize=0.5, max_depth=2,
               seed=3)
    mt = record_metropolis(msc)
    nt = record_nuts(nsc)

    def flip_cmp(t):
        for s in t["steps"]:
            s["u30"] = (1 << 30) - 1 - s["u30"] if s["u30"] < (1 << 29) else 0
            for b in s["bases"]:
                b["cmp"] = "lt" if b["cmp"] == "ge" else "ge"

    def bad_base(t):
        t["steps"][2]["bases"] = []

    def wrong_base(t):
        for s in t["steps"]:
            for b in s["bases"]:
                b["b"] = 99

    def drop_row(t):
        t["outs"] = t["outs"][1:]

    def shift_rows(t):
        t["outs"][0] = dict(ids=[98], t="fin")        # a row that is not the chain state after warm-up + 1 iterations

    def nan_row(t):
        t["outs"][1]["t"] = "nan"

    def impure(t):
        t["d2"] = "x" + t["d2"]

    def raised(t):
        t["res"] = "raise"

    def leaf_not_in(t):
        for i, it in enumerate(t["iters"]):
            for lf in it["leaves"]:
                if lf["s"] == t["outs"][i]["s"]:
                    lf["o"] = "ok"

    mcases = [("P:accept-iff", flip_cmp), ("P:proposal-is-a-state-plus-sigma-z", bad_base), ("P:proposal-is-current-plus-sigma-z", wrong_base), ("P:length", drop_row),
              ("P:output-is-chain-after-warmup", shift_rows), ("P:finite-output", nan_row), ("P:pure", impure),
              ("P:returns-the-requested-number-of-states", raised)]
    ncases = [("P:length", drop_row), ("P:finite-output", nan_row), ("P:pure", impure), ("P:returns-the-requested-number-of-states", raised),
              ("M:selected-in-slice", leaf_not_in)]
    for module, good, cases in (("Metropolis_Trace", mt, mcases), ("Nuts_Trace", nt, ncases)):
        bad = []
        for _c, f in cases:
            t2 = copy.deepcopy(good)
            f(t2)
            bad.append(t2)
        vs = ctx.validate(module, [good] + bad, chunk=100, name="ctl")
        if vs[0]["verdict"] != "ok" or vs[0]["drift"]:
            continue                     # the base trace does not pass: the main check reports that
        for (clause, _f), v in zip(cases, vs[1:]):
            got = v["verdict"] if clause.startswith("P:") else v["drift"]
            if got != clause:
                raise tlc.MachineryFailure("corrupted trace for %s was judged %r / drift %r by %s" % (clause, v["verdict"], v["drift"], module))
        ctx.notes.append("%s: %d corrupted-field controls rejected with the expected clause" % (module, len(cases)))
    ctx.traces_validated -= 2 + len(mcases) + len(ncases)      # controls are not evidence about the code


# ---------------------------------------------------------------------------------------------
# clause e: moments of standard targets (long seeded runs, batch-means standard errors)
# ---------------------------------------------------------------------------------------------
def std_target(name):
    """(log density, gradient, start, statistics [(name, f(chain) -> per-state values, exact value)], metropolis sigma)"""
    import scipy.stats as ss
    if name == "box2":          # uniform on the unit square: hard support boundaries
        logp = lambda x: 0.0 if np.all((np.asarray(x) >= 0) & (np.asarray(x) <= 1)) else -np.inf     # noqa: E731
        grad = lambda x: np.zeros(2)                                                                     # noqa: E731
        st = [("E[x%d]" % i, (lambda c, i=i: c[:, i]), 0.5) for i in range(2)] + [("E[x%d^2]" % i, (lambda c, i=i: c[:, i] ** 2), 1 / 3.) for i in range(2)]
        return logp, grad, np.array([0.5, 0.5]), st, 0.5
    if name == "tnorm":         # standard normal truncated to [-1, 1.5]
        logp = lambda x: float(-0.5 * np.sum(np.asarray(x) ** 2)) if np.all((np.asarray(x) >= -1) & (np.asarray(x) <= 1.5)) else -np.inf   # noqa: E731
        grad = lambda x: -np.asarray(x, dtype=float)                                                                                    # noqa: E731
        d = ss.truncnorm(-1, 1.5)
        st = [("E[x]", lambda c: c[:, 0], float(d.moment(1))), ("E[x^2]", lambda c: c[:, 0] ** 2, float(d.moment(2)))]
        return logp, grad, np.array([0.2]), st, 1.0
    if name == "corr2":         # correlated Gaussian, rho = 0.9
        rho = 0.9
        P = np.linalg.inv(np.array([[1, rho], [rho, 1.0]]))
        logp = lambda x: float(-0.5 * np.asarray(x) @ P @ np.asarray(x))      # noqa: E731
        grad = lambda x: -(P @ np.asarray(x, dtype=float))                    # noqa: E731
        st = [("E[x0]", lambda c: c[:, 0], 0.0), ("E[x1]", lambda c: c[:, 1], 0.0), ("E[x0^2]", lambda c: c[:, 0] ** 2, 1.0),
              ("E[x1^2]", lambda c: c[:, 1] ** 2, 1.0), ("E[x0 x1]", lambda c: c[:, 0] * c[:, 1], rho)]
        return logp, grad, np.array([0.1, -0.1]), st, 0.7
    mu, sd = np.array([1.0, -2.0, 0.5]), np.array([1.0, 2.0, 0.5])      # gauss3: independent normals
    logp = lambda x: float(-0.5 * np.sum(((np.asarray(x) - mu) / sd) ** 2))      # noqa: E731
    grad = lambda x: -(np.asarray(x, dtype=float) - mu) / sd ** 2                # noqa: E731
    st = [("E[x%d]" % i, (lambda c, i=i: c[:, i]), float(mu[i])) for i in range(3)] + \
         [("E[x%d^2]" % i, (lambda c, i=i: c[:, i] ** 2), float(mu[i] ** 2 + sd[i] ** 2)) for i in range(3)]
    return logp, grad, mu.copy(), st, [1.0, 2.0, 0.5]


def record_moments(sc):
    from elfi.methods import mcmc
    logp, grad, x0, stats, sigma = std_target(sc["target"])
    if sc.get("x0int"):
        x0 = np.zeros(len(x0), dtype=np.int64)
    tr = dict(kernel=sc["kernel"], target=sc["target"], n=sc["n"], seed=sc["seed"], res="ok", nonfinite=False, stats=[])
    try:
        with warnings.catch_warnings(), np.errstate(all="ignore"), time_limit(600):
            warnings.simplefilter("ignore")
            if sc["kernel"] == "nuts":
                chain = mcmc.nuts(sc["n"] + sc["warm"], x0, logp, grad, n_adapt=sc["warm"], seed=sc["seed"], info_freq=10 ** 9)
                chain = np.asarray(chain, dtype=float)[sc["warm"]:]
            else:
                chain = np.asarray(mcmc.metropolis(sc["n"], x0, logp, np.array(sigma, dtype=float) * np.ones(len(x0)), warmup=sc["warm"], seed=sc["seed"]), dtype=float)
        if chain.shape != (sc["n"], len(x0)):
            tr["res"] = "shape %s" % (chain.shape,)
            return tr
        tr["nonfinite"] = bool(not np.all(np.isfinite(chain)))
        B = 20
        m = sc["n"] // B
        for name, f, exact in stats:
            v = np.asarray(f(chain), dtype=float)[:B * m].reshape(B, m).mean(axis=1)
            def clamp(x, lim):          # TLC integers are 32 bit: a diverged chain is as wrong at 1000 as at 1e9
                x = float(x)
                if not np.isfinite(x):
                    return lim
                return int(round(max(-lim, min(lim, x * 1e6))))
            tr["stats"].append(dict(name=name, est=clamp(v.mean(), 10 ** 9), exact=int(round(exact * 1e6)),
                                    se=clamp(v.std(ddof=1) / np.sqrt(B), 10 ** 8)))
    except Hang:
        tr["res"] = "hang"
    except BaseException as ex:
        if isinstance(ex, KeyboardInterrupt):
            raise
        tr["res"] = "raise:" + type(ex).__name__
    return tr


def check_moments(ctx):
    rnd = random.Random(ctx.seed + 404)
    scs = []
    for target in ("box2", "tnorm", "corr2", "gauss3"):
        cheap = target in ("box2", "tnorm")       # hard boundaries: where a wrong tree rule biases most; cheap targets, long runs
        n_nuts = (40000 if cheap else 8000) if ctx.quick else (160000 if cheap else 40000)
        scs.append(dict(kernel="nuts", target=target, n=n_nuts, warm=1000, seed=rnd.randint(0, 2 ** 31 - 1)))
        scs.append(dict(kernel="metropolis", target=target, n=60000 if ctx.quick else 300000, warm=2000, seed=rnd.randint(0, 2 ** 31 - 1)))
        if cheap:       # a valid start given as an integer array (the origin): the chain is a chain of real vectors all the same
            scs.append(dict(kernel="nuts", target=target, n=n_nuts // 2, warm=1000, seed=rnd.randint(0, 2 ** 31 - 1), x0int=True))
    traces = [record_moments(sc) for sc in scs]
    vs = ctx.validate("Moments_Trace", traces, chunk=50, name="moments")
    worst = 0.0
    for sc, tr, v in zip(scs, traces, vs):
        ctx.case(("moments", sc["kernel"], sc["target"], sc["seed"]), nontrivial=True)
        for s in tr["stats"]:
            worst = max(worst, abs(s["est"] - s["exact"]) / float(6 * s["se"] + 2000))
        if v["verdict"] != "ok":
            ctx.fail(v["verdict"], sc, detail=dict(res=tr["res"], stats=tr["stats"]))
    ctx.notes.append("moments: %d long runs, largest |average - exact| / tolerance = %.2f" % (len(scs), worst))


M_INV = ["OutputsFinite", "CurrentFinite", "LengthExact", "ChainIsRandomWalk", "AcceptIff", "OutputIsChainTail", "RuleMatchesStatement"]


def run(ctx):
    ctx.rule = ("Metropolis: every combination of 8 targets (staircase lattice k*ln2 with / without box, NaN band, +inf band; flat box; "
                "Gaussian with box / NaN / +inf bands) x dimension 1-3 x warm-up 0-2 x length 1-3 x 2 proposal scales (scalar and per-axis), "
                "4 return types of the target (float, np.float64, 0-d array, 1-element array), plus seeded random chains (length <= 40, "
                "warm-up <= 10, 5 scales).  NUTS: 8 targets (Gaussian with box / NaN band, staircase, flat) x dimension 1-2 x max_depth 0-3, "
                "plus seeded random runs (n_iter <= 25, n_adapt in {default, 0, 1, 2, n, n+3}, stepsize given / searched, max_depth <= 3 or "
                "default).  Non-trivial = at least two iterations with different proposal classes / comparison outcomes (Metropolis), "
                "different leaf outcomes (NUTS).")
    ctx.clauses_decided = [
        "a: every Metropolis proposal is current + sigma*z with z from RandomState(seed) (P:proposal-is-a-state-plus-sigma-z, "
        "P:proposal-is-current-plus-sigma-z, bit-exact), "
        "every state is the previous state or the proposal (P:state-is-previous-or-proposal), accepted iff u below the ratio and the "
        "log-target finite (P:accept-iff; ratio < u computed by TLC on lattice targets, by the harness's float evaluation elsewhere; "
        "|ratio-u| < 1e-12 accepted both ways)",
        "b: requested number of states (P:length, P:returns-the-requested-number-of-states; Metropolis also P:one-proposal-per-iteration, "
        "P:output-is-chain-after-warmup)",
        "c: deterministic in the seed, independent of the global generator (P:pure: two calls, equal digests of outputs and target arguments)",
        "d: no returned state with log-target -inf / NaN from a valid start (P:finite-output), both kernels; design-level argument for "
        "NUTS: NutsTree!SelectedIsInSliceLeafOrPrevious for all leaf outcomes up to depth 3, bound by M:run-is-a-NutsTree-behaviour"]
    ctx.clauses_decided.append(
        "e: moments of four standard targets (uniform square with hard boundaries, truncated normal, correlated Gaussian rho=0.9, independent "
        "normals) reproduced by long seeded runs of both kernels within 6 batch-means standard errors + 0.002 (P:reproduces-the-moments-of-a-"
        "standard-target; a statistical relation judged by TLC on logged oracle fields, false-alarm probability < 1e-5 per statistic)")
    ctx.clauses_not_decided = [
        "e beyond the four targets / for biases smaller than the tolerance of the run length (statistical clause: no state-space argument)",
        "a for NUTS: the statement fixes no per-move rule for NUTS; leapfrog arithmetic, U-turn tests and step-size adaptation are "
        "abstracted (free booleans) and only bound as M: clauses",
        "exact ties ratio == u (probability ~2^-53) are accepted both ways"]
    ctx.trusted_base += ["harness float evaluation of exp(t_prop - t_cur) < u on non-lattice targets (oracle field; cross-checked against "
                         "integer arithmetic on lattice targets)",
                         "sys._getframe in the harness-supplied target to read log_slicevar / momentum1 of the calling NUTS frame "
                         "(M: clauses only; degrades to 'unk' leaves when unavailable)"]
    ctx.assumptions += ["the generator is consumed as d normals then one uniform per Metropolis iteration (read off mcmc.py:414-417)",
                        "valid start = finite log-target at params0"]
    rnd = random.Random(ctx.seed)

    # ---- O1 ---------------------------------------------------------------------------------
    ctx.tlc("Metropolis", "MC_Metropolis_quick" if ctx.quick else "MC_Metropolis_thorough", expect_actions=["Step", "Return"], workers=8,
            timeout=900)
    for cfg in ("MC_Metropolis_neg_nanguard", "MC_Metropolis_neg_infguard", "MC_Metropolis_neg_slice", "MC_Metropolis_neg_startnan"):
        ctx.tlc("Metropolis", cfg, expect_ok=False, workers=2, timeout=300)
    ctx.tlc("NutsTree", "MC_NutsTree_quick", expect_actions=["Double", "Finish"], workers=8, timeout=900)
    if not ctx.quick:
        ctx.tlc("NutsTree", "MC_NutsTree_thorough", expect_actions=["Double", "Finish"], workers=8, timeout=1800)
    ctx.tlc("NutsTree", "MC_NutsTree_neg_mergeguard", expect_ok=False, workers=2, timeout=300)

    # ---- O3 ---------------------------------------------------------------------------------
    mscs, m_small = metropolis_scenarios(ctx, rnd)
    nscs, n_small = nuts_scenarios(ctx, rnd)
    check_scenarios(ctx, mscs, sample=True)
    check_scenarios(ctx, nscs, sample=True)
    if not ctx.violations:
        corruption_controls(ctx)
    check_scenarios(ctx, [dict(sc) for sc in PINNED])
    check_moments(ctx)
    ctx.exhaustive = True
    ctx.notes.append("metropolis: %d small-domain + %d random chains; nuts: %d small-domain + %d random runs; %d pinned (F12, F28)"
                     % (m_small, len(mscs) - m_small, n_small, len(nscs) - n_small, len(PINNED)))


def replay(ctx, scenario):
    if "target" in scenario:        # a long moments run
        tr = record_moments(scenario)
        v = ctx.validate("Moments_Trace", [tr], name="moments")[0]
        ctx.case(("moments", scenario["kernel"], scenario["target"], scenario["seed"]), nontrivial=True)
        if v["verdict"] != "ok":
            ctx.fail(v["verdict"], scenario, detail=dict(res=tr["res"], stats=tr["stats"]))
        return
    check_scenarios(ctx, [scenario])

"""EXTENSION (no listed property): TwoStageSelection (elfi/methods/diagnostics.py).

O1: TwoStage.tla - the two scans of TwoStageSelection.run as a state machine over value ranks: the winner of
    each stage is a minimiser, has the fewest statistics among ties and is the first such candidate; stage 2
    measures against the stage-1 winner; the candidate enumeration is every non-empty subset up to the
    cardinality, once, smaller first.  Controls: `>=` in the tie rule, and the stale loop variable as reference.
O3: real runs on a recording subclass (observed entropies / MRSSEs per candidate, simulator invocations);
    TwoStage_Trace.tla recomputes both winners from the observed value ranks with the design's Scan and checks the
    observed values against numpy evaluations of the documented formulas (T4 oracle fields).
All failures are E: clauses, reported as drift (extension beyond the listed properties).
"""
import contextlib
import io
import math
import random

import numpy as np
from scipy.special import digamma, gamma

from harness.util import Hang, time_limit

SIMCALLS = [0]


def sim(t1, t2, batch_size=1, random_state=None):
    SIMCALLS[0] += 1
    t1 = np.asarray(t1, dtype=float).reshape(-1)
    t2 = np.asarray(t2, dtype=float).reshape(-1)
    noise = random_state.normal(size=(batch_size, 3)) * 0.25
    return np.column_stack([t1, t2, np.zeros(batch_size)]) + noise


def ss1(y):
    return y[:, 0]


def ss1b(y):        # the same statistic under another name: exact ties with ss1
    return y[:, 0]


def ss2(y):
    return y[:, 1]


def ss3(y):         # uninformative
    return y[:, 2]


SS = [ss1, ss1b, ss2, ss3]


def ranks(vals):
    """dense ranks by exact float comparison (order and equality are all the selection uses)"""
    u = sorted(set(float(v) for v in vals))
    return [u.index(float(v)) + 1 for v in vals]


def entropy_def(th, n_acc, k, include_self):
    """the docstring's formula with a brute-force k-nearest-neighbour distance"""
    q = th.shape[1]
    d = np.sqrt(((th[:, None, :] - th[None, :, :]) ** 2).sum(-1))
    d.sort(axis=1)
    r = d[:, k - 1] if include_self else d[:, k]
    with np.errstate(divide="ignore"):
        return math.log(math.pi ** (q / 2) / gamma(q / 2 + 1)) - digamma(k) + math.log(n_acc) + (q / n_acc) * np.log(r).sum()


def mrsse_def(th, closest):
    return float(np.mean([math.sqrt(((th - c) ** 2).sum()) for c in closest]))


def fx6(x):
    x = float(x)
    if not np.isfinite(x):
        return 2 ** 30 if x > 0 else -2 ** 30
    return int(round(x * 1e4))


def record(sc):
    import elfi
    from elfi.methods.diagnostics import TwoStageSelection
    m = elfi.ElfiModel(name="x2")
    elfi.Prior("uniform", 0, 1, model=m, name="t1")
    elfi.Prior("uniform", 0, 2, model=m, name="t2")
    simname = sc.get("simname", "sim")
    elfi.Simulator(sim, m["t1"], m["t2"], model=m, name=simname, observed=np.array([[0.5, 1.0, 0.0]]))
    obs = dict(E=[], M=[], thetas=[], simcalls=[])

    class Rec(TwoStageSelection):
        def _obtain_accepted_thetas(self, set_ss, n_sim, n_acc, batch_size):
            before = SIMCALLS[0]
            th = super()._obtain_accepted_thetas(set_ss, n_sim, n_acc, batch_size)
            obs["simcalls"].append(SIMCALLS[0] - before)
            obs["thetas"].append(np.array(th, dtype=float))
            return th

        def _calc_entropy(self, thetas_ss, n_acc, k):
            e = super()._calc_entropy(thetas_ss, n_acc, k)
            obs["E"].append(float(e))
            return e

        def _calc_MRSSE(self, set_ss, thetas_obs, thetas_sim):
            v = super()._calc_MRSSE(set_ss, thetas_obs, thetas_sim)
            obs["M"].append(float(v))
            return v

    fns = [SS[i] for i in sc["ss"]]
    ev = dict(raised="", n=0, maxc=0, cands=[], Er=[], Eok=[], Eself=[], Mr=[], Mobs=[], Mo=[], tol=5, selected=0, simcalls=[], nb=0,
              nacc=[], n_acc=sc["n_acc"])
    try:
        with time_limit(300), contextlib.redirect_stdout(io.StringIO()):       # run() draws progress bars
            if sc.get("prepared"):
                prepared = [tuple(fns[j] for j in comb) for comb in sc["prepared"]]
                sel = Rec(m[simname], "euclidean", prepared_ss=prepared, seed=sc["seed"])
            else:
                sel = Rec(m[simname], "euclidean", list_ss=fns, max_cardinality=sc["maxc"], seed=sc["seed"])
                ev["n"], ev["maxc"] = len(fns), sc["maxc"]
            cands = [[fns.index(f) + 1 for f in comb] for comb in sel.ss_candidates]
            chosen = sel.run(sc["n_sim"], n_acc=sc["n_acc"], n_closest=sc["n_closest"], batch_size=sc["bs"], k=sc["k"])
            K = len(cands)
            ev["cands"] = cands
            ev["selected"] = [tuple(c) for c in sel.ss_candidates].index(tuple(chosen)) + 1
            ev["Er"], ev["Mr"] = ranks(obs["E"]), ranks(obs["M"])
            for c in range(K):
                e_self = entropy_def(obs["thetas"][c], sc["n_acc"], sc["k"], True)
                e_doc = entropy_def(obs["thetas"][c], sc["n_acc"], sc["k"], False)
                ev["Eok"].append(bool(abs(e_self - obs["E"][c]) <= 1e-6 * max(1.0, abs(e_self)) or abs(e_doc - obs["E"][c]) <= 1e-6 * max(1.0, abs(e_doc))))
                ev["Eself"].append(bool(abs(e_self - obs["E"][c]) <= 1e-6 * max(1.0, abs(e_self))))
            ev["Mobs"] = [fx6(v) for v in obs["M"]]
            ev["Mo"] = [[fx6(mrsse_def(obs["thetas"][c], obs["thetas"][ref][:sc["n_closest"]])) for c in range(K)] for ref in range(K)]
            ev["simcalls"] = [int(v) for v in obs["simcalls"]]
            ev["nb"] = int(math.ceil(sc["n_sim"] / sc["bs"]))
            ev["nacc"] = [int(len(t)) for t in obs["thetas"]]
    except Hang:
        ev["raised"] = "Hang"
    except Exception as ex:
        ev["raised"] = "%s: %s" % (type(ex).__name__, str(ex)[:100])
    return dict(events=[ev])


def scenarios(ctx):
    rnd = random.Random(ctx.seed + 77)
    out = []
    for i in range(10 if ctx.quick else 80):
        n_ss = rnd.choice([2, 3, 3, 4])
        ss = rnd.sample(range(4), n_ss)
        if i % 3 == 0 and 0 not in ss:
            ss[0] = 0
        if i % 3 == 0 and 1 not in ss:
            ss[-1] = 1          # ss1 and ss1b together: exact ties between candidates
        ss = list(dict.fromkeys(ss))
        bs = rnd.choice([10, 20, 25, 50])
        n_sim = rnd.choice([100, 150, 200])
        n_acc = rnd.choice([10, 16, 20])
        sc = dict(ss=ss, maxc=rnd.randint(1, len(ss) + 1), n_sim=n_sim, n_acc=n_acc, n_closest=rnd.randint(1, 4), bs=bs,
                  k=rnd.randint(2, 4), seed=rnd.randint(0, 2 ** 31 - 1), simname=("y" if i % 2 else "sim"))
        if i % 4 == 3:      # prepared combinations, not ordered by size, with a duplicate-valued pair
            combs = [[0], [0, len(ss) - 1], [len(ss) - 1]]
            rnd.shuffle(combs)
            sc["prepared"] = combs
        out.append(sc)
    return out


def mc_cfg(strict, ref, invs, props=()):
    return """SPECIFICATION Spec
CONSTANTS
  K = 3
  Ranks = {1, 2}
  Sizes = {1, 2}
  StrictTie = %s
  RefIsWinner = %s
%s
%s
CHECK_DEADLOCK FALSE
""" % ("TRUE" if strict else "FALSE", "TRUE" if ref else "FALSE", "\n".join("INVARIANT " + i for i in invs), "\n".join("PROPERTY " + p for p in props))


def check_two_stage(ctx):
    ctx.tlc("TwoStage", "MC_TwoStage", cfg_text=mc_cfg(True, True, ["Stage1Right", "Stage2Right", "Stage2First", "LoopIsScan"], [] if ctx.quick else ["Terminates"]),
            expect_actions=["Stage1Step", "Stage2Step", "Stage2End"], timeout=600, label="TwoStage (extension)")
    ctx.tlc("TwoStage", "MC_TwoStage_tie", cfg_text=mc_cfg(False, True, ["Stage1Right"]), expect_ok=False, timeout=600,
            label="TwoStage control: >= in the tie rule")
    ctx.tlc("TwoStage", "MC_TwoStage_ref", cfg_text=mc_cfg(True, False, ["Stage2Right"]), expect_ok=False, timeout=600,
            label="TwoStage control: stale reference")
    scs = scenarios(ctx)
    traces = [record(sc) for sc in scs]
    verdicts = ctx.validate("TwoStage_Trace", traces, chunk=100, name="twostage")
    n_self = 0
    for sc, tr, v in zip(scs, traces, verdicts):
        e = tr["events"][0]
        ctx.case(("two-stage", str(sc)), nontrivial=len(e["cands"]) >= 3)
        n_self += int(bool(e["Eself"]) and all(e["Eself"]))
        if v["verdict"] != "ok":
            ctx.drifted(v["verdict"], sc, detail={k: e[k] for k in ("raised", "cands", "Er", "Mr", "selected", "simcalls", "nb", "Eok")})
    return dict(runs=len(scs), knn_counts_the_point_itself=n_self)

"""EXTENSION (no listed property): the ROMC inference PIPELINE as a state machine
(class ROMC of elfi/methods/inference/romc.py: inference_state flags, status lists, the objects the stages hand over).

O1: RomcPipeline.tla - one pure operator per private stage (_define_objectives, _solve_gradients, _solve_bo,
    _filter_solutions, _build_boxes, _fit_models, _define_posterior) and per single-stage public method, sequenced as
    solve_problems / estimate_regions / fit_posterior / sample / compute_* / eval_* / extract_result call them; a call whose
    precondition assert fails is refused and changes nothing.  The user-level invariants (later flag => earlier flags, lists
    of length n1 of the last solve, accepted => solved => attempted, a box exactly for the accepted problems, computed_BB
    says so, posterior of the current problems over the accepted set, samples / result of the current posterior, a call
    returns or is refused) are checked exhaustively on the REPAIRED machine (all six repairs), and TLC refutes them when any
    one repair is left out (six negative controls = six findings about the real sequencing) and under numpy 2.  For the code
    as transcribed (no repair) TLC checks what does hold: flags monotone, the flag chain, the list shapes, and every
    invariant but computed_BB on the straight path (one solve, one estimate).
O3: random and pinned histories of public calls on real ROMC objects (recording subclass: the private-stage overrides only
    note that they were entered); RomcPipeline_Trace.tla replays each history with the design's Run and compares flags,
    lists, per-problem states, posterior / samples / result identity and shape, the private stages entered and the outcome
    after every call, and evaluates the user-level invariants on the observed states.
All failures are E: clauses, reported as drift (extension beyond the listed properties).
"""
import contextlib
import copy
import io
import logging
import math
import random
import threading
import warnings

import numpy as np

from harness import tlc
from harness.util import Hang, time_limit

ALL_FIXES = ["bb_init_empty", "resolve_resets", "reestimate_resets", "parallel_attempted", "empty_sample_ok", "eps_nothing_solved"]
FLAGS = ["_has_gen_nuisance", "_has_defined_problems", "_has_solved_problems", "_has_fitted_surrogate_model",
         "_has_filtered_solutions", "_has_fitted_local_models", "_has_estimated_regions", "_has_defined_posterior",
         "_has_drawn_samples"]
MUTATING = ("solve_problems", "estimate_regions", "fit_posterior", "sample")
CALL_LIMIT_S = 60
FAIL_THR = [float("inf")]        # the simulator rejects (ValueError) nuisance seeds whose first noise draw exceeds this


# ------------------------------------------------------------------------------ tiny deterministic models
def sim1(t, batch_size=1, random_state=None):
    """one parameter, two outputs: min over t of the squared distance to (0, 0) is (a - b)^2 / 2 - varies with the seed"""
    noise = random_state.normal(size=(batch_size, 2)) * 0.5
    if noise[0, 0] > FAIL_THR[0]:
        raise ValueError("simulator rejects this nuisance seed")
    t = np.asarray(t, dtype=float).reshape(-1, 1)
    return t + noise


def sim2(t1, t2, batch_size=1, random_state=None):
    noise = random_state.normal(size=(batch_size, 3)) * 0.5
    if noise[0, 0] > FAIL_THR[0]:
        raise ValueError("simulator rejects this nuisance seed")
    t1 = np.asarray(t1, dtype=float).reshape(-1)
    t2 = np.asarray(t2, dtype=float).reshape(-1)
    return np.column_stack([t1, t2, t1 + t2]) + noise


def disc0(y, observed):
    """Euclidean distance as a 0-d value when batch_size is 1 (ROMC only ever generates with batch_size 1)"""
    d = np.sqrt(np.sum((np.asarray(y, dtype=float) - observed[0]) ** 2, axis=1))
    return d[0] if d.shape[0] == 1 else d


def h_sum(x):
    return np.sum(x, axis=-1)


Rec = None


def rec_class():
    """recording subclass of ROMC (module-level name so that parallelize=True can pickle its instances): the overrides only
    note that the private stage was entered"""
    global Rec
    if Rec is not None:
        return Rec
    from elfi.methods.inference.romc import ROMC

    class _Rec(ROMC):
        x_stages = None
        x_ep = 0

        def _note(self, name):
            if self.x_stages is not None:
                self.x_stages.append(name)

        def _define_objectives(self, *a, **k):
            self._note("define_objectives")
            self.x_ep += 1
            return super()._define_objectives(*a, **k)

        def _solve_gradients(self, *a, **k):
            self._note("solve_gradients")
            return super()._solve_gradients(*a, **k)

        def _solve_bo(self, *a, **k):
            self._note("solve_bo")
            return super()._solve_bo(*a, **k)

        def _filter_solutions(self, *a, **k):
            self._note("filter_solutions")
            return super()._filter_solutions(*a, **k)

        def _build_boxes(self, *a, **k):
            self._note("build_boxes")
            return super()._build_boxes(*a, **k)

        def _fit_models(self, *a, **k):
            self._note("fit_models")
            return super()._fit_models(*a, **k)

        def _define_posterior(self, *a, **k):
            self._note("define_posterior")
            return super()._define_posterior(*a, **k)

    _Rec.__name__ = _Rec.__qualname__ = "Rec"
    Rec = _Rec
    return Rec


def build(sc):
    import elfi
    rec_class()
    m = elfi.ElfiModel(name="xromc")
    dim = sc["dim"]
    if dim == 1:
        elfi.Prior("uniform", -2, 4, model=m, name="t")
        elfi.Simulator(sim1, m["t"], model=m, name="y", observed=np.zeros((1, 2)))
    else:
        elfi.Prior("uniform", -2, 4, model=m, name="t1")
        elfi.Prior("uniform", -2, 4, model=m, name="t2")
        elfi.Simulator(sim2, m["t1"], m["t2"], model=m, name="y", observed=np.zeros((1, 3)))
    if sc["scalar"]:
        elfi.Discrepancy(disc0, m["y"], model=m, name="d")
    else:
        elfi.Distance("euclidean", m["y"], model=m, name="d")
    return Rec(m["d"], bounds=[(-2, 2)] * dim, parallelize=bool(sc["par"]))


# ------------------------------------------------------------------------------ recording
@contextlib.contextmanager
def quiet():
    lg = logging.getLogger("elfi")
    old = lg.level
    lg.setLevel(logging.CRITICAL)
    try:
        with contextlib.redirect_stdout(io.StringIO()), warnings.catch_warnings(), np.errstate(all="ignore"):
            warnings.simplefilter("ignore")
            yield
    finally:
        lg.setLevel(old)


def fx6(x):
    try:
        x = float(x)
    except Exception:
        return 2000000000
    if not math.isfinite(x):
        return 2000000000 if not x < 0 else -2000000000
    return int(max(-2000000000, min(2000000000, round(x * 1e6))))


def blist(v):
    return [] if v is None else [bool(b) for b in v]


class Watch:
    """identity bookkeeping across the calls of one history (projection only: who was built from whom)"""

    def __init__(self):
        self.owner = {}          # id(region) -> problem index (1-based) in its own problem set
        self.keep = []
        self.post = None
        self.post_ep = 0
        self.samples = None
        self.smp_post = None     # the posterior object in place when the samples object appeared
        self.result = None
        self.res_smp = None      # the samples object in place when the result object appeared

    def after(self, r):
        for i, p in enumerate(r.optim_problems or []):
            for g in (getattr(p, "regions", None) or []):
                if id(g) not in self.owner:
                    self.owner[id(g)] = i + 1
                    self.keep.append(g)
        if r.posterior is not self.post:
            self.post = r.posterior
            self.post_ep = r.x_ep
            self.keep.append(r.posterior)
        if r.samples is not self.samples:
            self.samples = r.samples
            self.smp_post = r.posterior
            self.keep.append(r.samples)
        if r.result is not self.result:
            self.result = r.result
            self.res_smp = r.samples
            self.keep.append(r.result)


def observe(r, w):
    st = r.inference_state
    probs = []
    slv, fmin = [], []
    for p in (r.optim_problems or []):
        probs.append(dict(solved=bool(p.state["solved"]), region=bool(p.state["region"]), local=p.local_surrogates is not None,
                          sur=p.surrogate is not None))
        slv.append(bool(p.state["solved"]))
        fmin.append(fx6(p.result.f_min) if p.result is not None else 0)
    post = dict(set=False, cur=False, boxes=[], obj="none", nocall=False)
    po = r.posterior
    if po is not None:
        funcs = list(po.funcs)
        if funcs and po.objectives_local is not None and all(f is g for f, g in zip(funcs, po.objectives_local)):
            obj = "local"
        elif funcs and po.objectives_surrogate is not None and all(f is g for f, g in zip(funcs, po.objectives_surrogate)):
            obj = "surrogate"
        elif funcs and all(f is g for f, g in zip(funcs, po.objectives_actual)):
            obj = "actual"
        elif funcs:
            obj = "mixed"
        else:
            obj = "local" if po.objectives_local is not None else ("surrogate" if po.objectives_surrogate is not None else "actual")
        post = dict(set=True, cur=bool(w.post_ep == r.x_ep), boxes=[int(w.owner.get(id(g), 0)) for g in po.regions], obj=obj,
                    nocall=any(f is None for f in funcs))
    smps = dict(set=False, cur=False, rows=0, n2=0)
    if r.samples is not None:
        sh = np.shape(r.samples)
        smps = dict(set=True, cur=bool(w.smp_post is r.posterior and r.posterior is not None),
                    rows=int(sh[0]) if len(sh) == 3 else 0, n2=int(sh[1]) if len(sh) == 3 else 0)
    res = dict(set=False, cur=False, n=0)
    if r.result is not None:
        try:
            n = int(np.size(r.result.weights))
        except Exception:
            n = -1
        res = dict(set=True, cur=bool(w.res_smp is r.samples and r.samples is not None), n=n)
    return dict(flags=[bool(st[f]) for f in FLAGS], n1=int(r.inference_args.get("N1", 0)), att=blist(st["attempted"]),
                sld=blist(st["solved"]), acc=blist(st["accepted"]), bb=blist(st["computed_BB"]), probs=probs, slv=slv, fmin=fmin,
                post=post, smps=smps, res=res)


def choose_eps(r, k):
    """an eps_filter that accepts the k best solved problems (k = "all" / "none" / int), away from every f_min"""
    fs = sorted(float(p.result.f_min) for p in (r.optim_problems or []) if p.state["solved"] and p.result is not None)
    fs = [f for f in fs if math.isfinite(f)]
    if k == "none":
        return -1.0
    if not fs or k == "all" or k >= len(fs):
        return (fs[-1] if fs else 0.0) + 0.5
    if k <= 0:
        return fs[0] / 2 if fs[0] > 1e-4 else -1.0
    return (fs[k - 1] + fs[k]) / 2


def query_point(r, dim, inside):
    po = r.posterior
    if inside and po is not None and len(po.regions):
        return np.array([np.asarray(po.regions[0].center, dtype=float)])
    return np.array([[1.96875] * dim])


def record(sc):
    FAIL_THR[0] = float(sc["fail_thr"])
    events = []
    with quiet():
        r = build(sc)
    w = Watch()
    for c in sc["calls"]:
        m = c["m"]
        e = dict(m=m, n=int(c.get("n1", 0)), bo=bool(c.get("bo", False)), us=c.get("us", "F"), fit=bool(c.get("fit", False)),
                 auto=bool(c.get("auto", False)), n2=int(c.get("n2", 0)), eps=0, hit=False, raised="", stages=[])
        r.x_stages = e["stages"]
        eps = None
        theta = None
        try:
            with quiet(), time_limit(CALL_LIMIT_S):
                if m == "solve_problems":
                    oa = {"n_evidence": 8} if c.get("bo") else None
                    r.solve_problems(n1=c["n1"], use_bo=bool(c.get("bo", False)), optimizer_args=oa, seed=c["seed"])
                elif m == "estimate_regions":
                    eps = choose_eps(r, c["k"])
                    e["eps"] = fx6(eps)
                    r.estimate_regions(eps_filter=eps, use_surrogate={"F": False, "T": True, "A": None}[e["us"]], fit_models=e["fit"])
                elif m == "fit_posterior":
                    oa = {"n_evidence": 8} if c.get("bo") else None
                    if e["auto"]:
                        r.fit_posterior(n1=c["n1"], eps_filter="auto", quantile=c["q"], use_bo=e["bo"], optimizer_args=oa,
                                        fit_models=e["fit"], seed=c["seed"])
                    else:
                        eps = 50.0 if c["k"] == "all" else -1.0
                        r.fit_posterior(n1=c["n1"], eps_filter=eps, use_bo=e["bo"], optimizer_args=oa, fit_models=e["fit"], seed=c["seed"])
                elif m == "sample":
                    r.sample(n2=c["n2"], seed=c.get("seed"))
                elif m == "compute_expectation":
                    r.compute_expectation(h_sum)
                elif m == "compute_ess":
                    r.compute_ess()
                elif m == "compute_eps":
                    r.compute_eps(0.5)
                elif m == "extract_result":
                    r.extract_result()
                elif m in ("eval_unnorm_posterior", "eval_posterior"):
                    theta = query_point(r, sc["dim"], c.get("inside", False))
                    if m == "eval_unnorm_posterior":
                        r.eval_unnorm_posterior(theta)
                    else:
                        r.eval_posterior(theta)
                else:
                    raise RuntimeError("unknown method in scenario: %r" % m)
        except Hang:
            e["raised"] = "Hang"
        except Exception as ex:
            e["raised"] = type(ex).__name__
            e["msg"] = str(ex)[:120]
        r.x_stages = None
        with quiet():
            w.after(r)
            e.update(observe(r, w))
            if m == "fit_posterior":
                e["us"] = "T" if e["bo"] else "F"
                if e["auto"]:
                    eps = r.inference_args.get("eps_filter") if "filter_solutions" in e["stages"] else None
                e["eps"] = fx6(eps) if eps is not None else 0
            if theta is not None and r.posterior is not None:
                try:
                    e["hit"] = bool(any(g.contains(theta[0]) for g in r.posterior.regions))        # oracle (C19 checks `contains`)
                except Exception:
                    e["hit"] = False
        e.setdefault("msg", "")
        events.append(e)
    return dict(par=bool(sc["par"]), scalar=bool(sc["scalar"]), events=events)


# ------------------------------------------------------------------------------ scenarios
def S(calls, dim=1, par=False, scalar=True, fail_thr="inf", pin=None):
    return dict(calls=calls, dim=dim, par=par, scalar=scalar, fail_thr=fail_thr, pin=pin)


def solve(n1, seed, bo=False):
    return dict(m="solve_problems", n1=n1, seed=seed, bo=bo)


def est(k="all", us="F", fit=False):
    return dict(m="estimate_regions", k=k, us=us, fit=fit)


def smp(n2, seed=3):
    return dict(m="sample", n2=n2, seed=seed)


def rd(m, **kw):
    return dict(m=m, **kw)


READS = [rd("compute_eps"), rd("compute_ess"), rd("compute_expectation"), rd("extract_result"), rd("eval_unnorm_posterior", inside=True),
         rd("eval_posterior", inside=True)]


def pinned():
    """one deterministic history per finding (reproduced on every run, whatever the seed)"""
    return [
        S([solve(3, 1), est(), smp(4), rd("compute_ess"), rd("compute_expectation"), rd("eval_unnorm_posterior", inside=True),
           rd("eval_posterior", inside=True), rd("extract_result")], pin="straight path: computed_BB has 2*n1 entries"),
        S([solve(3, 1), est(), smp(4), solve(2, 2), smp(3), rd("compute_ess"), rd("eval_unnorm_posterior", inside=True)],
          pin="second solve_problems: flags, accepted / computed_BB, posterior, samples stay from the first problem set"),
        S([solve(3, 1), est(), smp(4), est(k=1), smp(2)], pin="second estimate_regions with fewer accepted: old regions stay in the posterior"),
        S([solve(3, 1), est(fit=True), smp(4), rd("eval_unnorm_posterior", inside=True)], pin="fit_models=True (the default): local surrogates raise TypeError under numpy 2"),
        S([solve(3, 1), est(k=1, fit=True), est(fit=False)], pin="_has_fitted_local_models is never reset: _define_posterior subscripts None"),
        S([solve(2, 1), est(k="none"), smp(3), rd("compute_ess"), rd("compute_expectation"), rd("extract_result")],
          pin="no accepted problem: sample sets the flag, then raises IndexError; compute_ess AttributeError"),
        S([solve(2, 1, bo=True), est(us="T"), smp(3), solve(2, 2), est(), smp(3)], pin="BO then gradient solve: surrogate flag stays, posterior objectives are None"),
        S([solve(2, 1), est(), smp(3)], par=True, pin="parallelize=True: attempted stays all False"),
        S([solve(2, 1), est(), smp(3)], scalar=False, pin="standard Distance node: _det_generator float() raises TypeError under numpy 2"),
        S([solve(2, 1), rd("compute_eps"), dict(m="fit_posterior", n1=2, seed=1, bo=False, auto=True, q=0.5, fit=False)], fail_thr="-inf",
          pin="nothing solved: compute_eps / fit_posterior(eps_filter='auto') IndexError from np.quantile([])"),
        S([dict(m="fit_posterior", n1=3, seed=4, bo=False, k="all", fit=False), smp(2), rd("compute_eps"),
           dict(m="fit_posterior", n1=2, seed=5, bo=False, auto=True, q=0.5, fit=False), smp(2)], pin="fit_posterior twice"),
        S([rd("compute_eps"), solve(2, 7)] + READS + [est()] + READS + [smp(2)] + READS, pin="every read-only method at every stage"),
        S([est(), smp(2), rd("compute_ess"), rd("compute_expectation"), rd("eval_unnorm_posterior"), rd("eval_posterior"), rd("compute_eps"),
           rd("extract_result")], pin="everything refused on a fresh object"),
    ]


def random_scenario(rnd, i):
    dim = 2 if i % 7 == 5 else 1
    bo_ok = i % 5 == 3
    fail_thr = "inf" if (bo_ok or i % 3 == 0) else rnd.choice(["0.25", "0.5", "0.0"])
    n = rnd.randint(3, 8)
    calls = []
    have = 0          # a guess of the stage reached, only to bias the choice of calls towards non-refused ones
    for _j in range(n):
        ws = [("solve_problems", 3 if have == 0 else 1.2), ("estimate_regions", 0.4 if have == 0 else 3.5), ("sample", 0.3 if have < 2 else 3),
              ("fit_posterior", 0.8), ("compute_expectation", 0.6), ("compute_ess", 0.6), ("eval_unnorm_posterior", 0.6),
              ("eval_posterior", 0.4 if dim == 1 else 0.1), ("compute_eps", 0.4), ("extract_result", 0.4)]
        m = rnd.choices([x[0] for x in ws], [x[1] for x in ws])[0]
        n1 = rnd.randint(2, 5) if dim == 1 else rnd.randint(2, 3)
        bo = bo_ok and rnd.random() < 0.45
        if bo:
            n1 = 2
        if m == "solve_problems":
            calls.append(solve(n1, rnd.randint(0, 10 ** 6), bo))
            have = max(have, 1)
        elif m == "estimate_regions":
            k = rnd.choice(["all", "all", "all", 0, 1, 1, 2, 3, "none"])
            us = rnd.choices(["F", "T", "A"], [6, 1.5 if bo_ok else 0.6, 1.5])[0]
            calls.append(est(k, us, rnd.random() < 0.25))
            have = 2 if have >= 1 else have
        elif m == "fit_posterior":
            if rnd.random() < 0.4:
                calls.append(dict(m=m, n1=n1, seed=rnd.randint(0, 10 ** 6), bo=bo, auto=True, q=rnd.choice([0.0, 0.5, 1.0]), fit=rnd.random() < 0.2))
            else:
                calls.append(dict(m=m, n1=n1, seed=rnd.randint(0, 10 ** 6), bo=bo, k=rnd.choice(["all", "all", "all", "none"]), fit=rnd.random() < 0.2))
            have = 2
        elif m == "sample":
            calls.append(smp(rnd.randint(2, 10), rnd.randint(0, 10 ** 6)))
        elif m in ("eval_unnorm_posterior", "eval_posterior"):
            calls.append(rd(m, inside=rnd.random() < 0.7))
        else:
            calls.append(rd(m))
    return S(calls, dim=dim, fail_thr=fail_thr)


def scenarios(ctx):
    rnd = random.Random(ctx.seed * 7919 + 4242)
    n = 18 if ctx.quick else 120
    out = pinned()
    out += [random_scenario(rnd, i) for i in range(max(0, n - len(out)))]
    # the histories that fork a process pool are recorded first (before the TLC threads exist)
    out.sort(key=lambda sc: not sc["par"])
    return out


# ------------------------------------------------------------------------------ design check
INV_USER = ["FlagChain", "ListLengths", "AccSolAtt", "BoxIffAccepted", "ComputedBB", "PosteriorCurrent", "PosteriorCallable",
            "SamplesCurrent", "OnlyRefusals"]
INV_MACHINE = ["StagewiseEqualsComposed", "RefusedChangesNothing", "ReadOnlyChangesNothing"]
ACTIONS = ["SolveProblems", "EstimateRegions", "FitPosterior", "CallSample", "CallReadOnly", "CallEval", "DefineObjectivesStage",
           "SolveGradientsStage", "SolveBoStage", "ComputeEpsStage", "CheckSolvedStage", "FilterStage", "BuildBoxesStage", "FitModelsStage",
           "DefinePosteriorStage", "SampleStage", "OtherStage", "Return"]


def tset(vals):
    def one(v):
        if isinstance(v, bool):
            return "TRUE" if v else "FALSE"
        if isinstance(v, str):
            return '"%s"' % v
        return str(v)
    return "{" + ", ".join(one(v) for v in vals) + "}"


def mc_cfg(fix, invs, n1s=(1, 2), fitn1s=(1, 2), pars=(False,), scalars=(True,), np2=False, bos=(False, True), uss=("F", "T"), maxmut=0,
           props=()):
    return """SPECIFICATION Spec
CONSTANTS
  N1s = %s
  FitN1s = %s
  N2s = {2}
  Fix = %s
  Pars = %s
  Scalars = %s
  Np2 = %s
  Bos = %s
  Uss = %s
  MaxMut = %d
%s
%s
CHECK_DEADLOCK FALSE
""" % (tset(n1s), tset(fitn1s), tset(fix), tset(pars), tset(scalars), "TRUE" if np2 else "FALSE", tset(bos), tset(uss), maxmut,
       "\n".join("INVARIANT " + i for i in invs), "\n".join("PROPERTY " + p for p in props))


class _Lane:
    """what ctx.tlc accumulates, per thread (merged by Design.join)"""

    def __init__(self, ctx):
        self.ctx = ctx
        self.states = 0
        self.transitions = 0
        self.tlc_runs = []
        self.negative_controls = []

    def tlc(self, module, cfg, expect_actions=None, expect_ok=True, label=None, **kw):
        import os
        kw.setdefault("metadir", os.path.join(self.ctx.outdir, "meta_%s" % cfg))
        r = tlc.run(module, cfg, **kw)
        self.states += r.distinct
        self.transitions += r.generated
        summ = r.as_dict()
        summ["label"] = label or cfg
        summ["expect_ok"] = expect_ok
        self.tlc_runs.append(summ)
        for a in (expect_actions or []):
            if r.coverage.get(a, [0, 0])[1] == 0:
                raise tlc.MachineryFailure("action %s of %s never taken (vacuous run)\n%s" % (a, module, r.out[-1500:]))
        if expect_ok and not r.ok:
            raise tlc.MachineryFailure("design module %s/%s violates %s\n%s" % (module, cfg, r.violated, r.trace_text[:3000]))
        if not expect_ok:
            if r.ok:
                raise tlc.MachineryFailure("negative control %s/%s found no violation" % (module, cfg))
            self.negative_controls.append(dict(run=summ["label"], refuted=r.violated))
        return r


def design_jobs(ctx):
    """four lanes of jobs; TLC workers per lane 3 + 3 + 1 + 1 = 8"""
    q = ctx.quick
    lanes = [[], [], [], []]

    def add(lane, name, cfg_text, workers, **kw):
        lanes[lane].append(lambda acc: acc.tlc("RomcPipeline", "MC_RomcPipeline_" + name, cfg_text=cfg_text, workers=workers, timeout=1800, **kw))

    code_invs = INV_MACHINE + ["FlagChain", "CodeListsHold", "StraightPathHolds"]
    # the repaired machine keeps every user-level invariant, for call sequences of any length
    add(0, "repaired", mc_cfg(ALL_FIXES, INV_MACHINE + INV_USER, fitn1s=(1,) if q else (1, 2), pars=(False,) if q else (False, True),
                              uss=("F", "T") if q else ("F", "T", "A")),
        3, expect_actions=ACTIONS, label="RomcPipeline repaired (all six repairs): every user-level invariant")
    # the code as transcribed: what does hold (bounded number of state-changing calls; read-only calls are free)
    add(1, "code", mc_cfg([], code_invs, fitn1s=() if q else (1,), pars=(False,) if q else (False, True), scalars=(True,) if q else (True, False),
                          np2=True, maxmut=4 if q else 5, props=["FlagsMonotone"]),
        3, expect_actions=[a for a in ACTIONS if not (q and a == "FitPosterior")],
        label="RomcPipeline as the code is: monotone flags, flag chain, list shapes, straight path")
    if q:
        add(0, "repaired_par", mc_cfg(ALL_FIXES, INV_MACHINE + INV_USER, n1s=(2,), fitn1s=(), pars=(True,), bos=(False,), uss=("F",)), 3,
            label="RomcPipeline repaired, parallelize=True")
        add(1, "code_dist", mc_cfg([], code_invs, n1s=(2,), fitn1s=(2,), scalars=(False,), np2=True, maxmut=3), 3,
            label="RomcPipeline as the code is, standard Distance node under numpy 2")
    # negative controls: leave one repair out (or run under numpy 2) and a user-level invariant breaks
    cost = [0, 0]
    for fixname, w in (("reestimate_resets", 3), ("empty_sample_ok", 2), ("resolve_resets", 2), ("bb_init_empty", 1), ("parallel_attempted", 1),
                       ("eps_nothing_solved", 1)):
        rest = [f for f in ALL_FIXES if f != fixname]
        k = cost.index(min(cost))
        cost[k] += w
        add(2 + k, "without_" + fixname, mc_cfg(rest, INV_USER, pars=(True,) if fixname == "parallel_attempted" else (False,)), 1, expect_ok=False,
            label="RomcPipeline control: the real sequencing without the repair '%s'" % fixname)
    add(1 if q else 2, "numpy2", mc_cfg(ALL_FIXES, INV_USER, np2=True), 3 if q else 1, expect_ok=False,
        label="RomcPipeline control: numpy 2 (float() of 1-element arrays) with every repair")
    return lanes


class Design:
    """runs the design jobs on four threads (TLC is a subprocess; at most 8 TLC workers at a time)"""

    def __init__(self, ctx):
        self.ctx = ctx
        jobs = design_jobs(ctx)
        self.lanes = [_Lane(ctx) for _ in jobs]
        self.errors = []
        self.threads = [threading.Thread(target=self._run, args=(self.lanes[k], jobs[k]), daemon=True) for k in range(len(jobs))]
        for th in self.threads:
            th.start()

    def _run(self, lane, jobs):
        try:
            for job in jobs:
                job(lane)
        except BaseException as ex:      # re-raised in the main thread by join()
            self.errors.append(ex)

    def join(self):
        for th in self.threads:
            th.join()
        for lane in self.lanes:
            self.ctx.states += lane.states
            self.ctx.transitions += lane.transitions
            self.ctx.tlc_runs += lane.tlc_runs
            self.ctx.negative_controls += lane.negative_controls
        if self.errors:
            raise self.errors[0]


# ------------------------------------------------------------------------------ corrupted copies (binding demonstration)
def corruptions(scs, traces):
    """(what, expected clause, trace, index of the source trace): one observed field of a real trace is changed; TLC must
    reject the copy with the clause.  Python only picks WHERE to corrupt."""
    out = []
    for k, (sc, tr) in enumerate(zip(scs, traces)):
        evs = tr["events"]
        j = next((i for i, e in enumerate(evs) if e["m"] == "estimate_regions" and e["raised"] == "" and e["flags"][7]), None)
        if j is None or not sc["scalar"] or sc["par"]:
            continue
        t = copy.deepcopy(tr)
        t["events"] = t["events"][:j + 1]
        t["events"][j]["flags"][6] = False
        out.append(("_has_estimated_regions not set after a successful estimate_regions", "E:estimate_regions-flag-_has_estimated_regions", t, k))
        t = copy.deepcopy(tr)
        t["events"] = t["events"][:j + 1]
        t["events"][j]["stages"] = [s for s in t["events"][j]["stages"] if s != "filter_solutions"]
        out.append(("estimate_regions without _filter_solutions", "E:estimate_regions-private-stages-in-order", t, k))
        if any(evs[j]["acc"]):
            t = copy.deepcopy(tr)
            t["events"] = t["events"][:j + 1]
            i = evs[j]["acc"].index(True)
            t["events"][j]["acc"][i] = False
            out.append(("an accepted problem reported as not accepted", "E:estimate_regions-list-accepted", t, k))
        break
    for k, (sc, tr) in enumerate(zip(scs, traces)):
        evs = tr["events"]
        if evs and evs[0]["m"] in ("sample", "estimate_regions", "compute_ess") and evs[0]["raised"] == "AssertionError":
            t = copy.deepcopy(tr)
            t["events"] = t["events"][:1]
            t["events"][0]["raised"] = ""
            out.append(("a call made too early reported as returning", "E:%s-refused-exactly-when-precondition-fails" % evs[0]["m"], t, k))
            break
    return out


# ------------------------------------------------------------------------------ check
CLAUSES_DESIGN = [
    "repaired machine (six repairs), any number of calls, n1 <= 2: later flag => earlier flags; attempted / solved / accepted have the "
    "length n1 of the last solve; accepted => solved => attempted; after estimate_regions a box exactly for the accepted problems and "
    "computed_BB says so; 'posterior defined' = of the current problems over exactly the accepted set with existing objectives; 'samples "
    "drawn' = from the current posterior, one row per box, result built from them; every call returns or is refused",
    "each repair is necessary (six controls) and numpy 2 breaks 'returns or is refused' (control)",
    "the code as transcribed, <= 4 (quick) / 5 (thorough) state-changing calls: flags never taken back, flag chain, list shapes, every "
    "invariant but computed_BB / empty samples on the straight path (one solve, one estimate)",
    "stage by stage execution = composed Run operator; a refused call changes nothing; read-only methods change nothing"]
CLAUSES_TRACE = [
    "after every public call on a real ROMC object: private stages entered = the design's, in order, up to the raising stage; refused "
    "(AssertionError) exactly when the design's precondition fails, and then nothing changes; other exceptions exactly where a stage of the "
    "design raises; the nine flags, N1, attempted / solved / accepted / computed_BB, per-problem solved / region / local-models / surrogate, "
    "posterior (identity, problem set, boxes, objective kind, missing objectives), samples (identity, drawn from which posterior, shape), "
    "result (identity, built from which samples, size) equal what the design's stages give",
    "accepted[i] = solved[i] and f_min[i] < eps_filter recomputed by TLC from the logged f_min / eps (1e-6; boundary both ways)",
    "the nine user-level invariants evaluated on every observed state (violations = findings, collected per history)"]


def check_romc_pipeline(ctx, design=True):
    scs = scenarios(ctx)
    par = [sc for sc in scs if sc["par"]]
    traces = [record(sc) for sc in par]              # fork()ing histories first, while the process is single-threaded
    bg = Design(ctx) if design else None
    traces += [record(sc) for sc in scs[len(par):]]
    if bg is not None:
        bg.join()
    corr = corruptions(scs, traces)
    allv = ctx.validate("RomcPipeline_Trace", traces + [c[2] for c in corr], chunk=max(8, -(-(len(traces) + len(corr)) // 6)), name="romcp")
    verdicts = allv[:len(traces)]
    ctx.traces_validated -= len(corr)                # corrupted copies are not executions of the real code
    for (what, want, _t, k), v in zip(corr, allv[len(traces):]):
        if verdicts[k]["verdict"] != "ok":
            continue          # the source trace itself fails (changed tree): its copy may fail earlier for that reason
        if v["verdict"] != want:
            raise tlc.MachineryFailure("RomcPipeline_Trace did not reject a corrupted trace (%s): expected %s, got %r" % (what, want, v))
        ctx.negative_controls.append(dict(run="corrupted trace / RomcPipeline_Trace: " + what, refuted=want))
    ncalls = nrefused = nraised = 0
    inv_count = {}
    for sc, tr, v in zip(scs, traces, verdicts):
        evs = tr["events"]
        ncalls += len(evs)
        nrefused += sum(1 for e in evs if e["raised"] == "AssertionError")
        nraised += sum(1 for e in evs if e["raised"] not in ("", "AssertionError"))
        progressed = sum(1 for e in evs if e["m"] in MUTATING and e["raised"] == "")
        ctx.case("romc-pipeline:" + str(sc), nontrivial=progressed >= 2)
        ctx.trace_events += len(evs)
        if v["verdict"] != "ok":
            k = min(max(v["l"] - 2, 0), len(evs) - 1)
            e = evs[k]
            ctx.drifted(v["verdict"], sc, detail=dict(call_index=k, call=sc["calls"][k], observed={f: e[f] for f in e if f not in ("fmin",)}))
        for name in [x for x in v["drift"].split("|") if x]:
            inv_count[name] = inv_count.get(name, 0) + 1
            ctx.drifted("E:" + name, sc, detail=dict(pinned=sc.get("pin"), calls=[c["m"] for c in sc["calls"]],
                                                     outcomes=[e["raised"] for e in evs]))
    ctx.trusted_base += ["harness hooks: subclass overrides of the seven private ROMC stages that only record that they were entered",
                         "harness projection: object identity of posterior / samples / result / regions across calls (who was built from whom)",
                         "NDimBoundingBox.contains as the oracle for 'the query point lies in a region' (checked by C19)"]
    ctx.assumptions += ["n1 >= 1 (None and the empty list are not distinguished in the status lists)",
                        "TypeErrors that only numpy >= 2 raises are accepted both ways (the history must match the design with or without them)"]
    ctx.clauses_decided = CLAUSES_DESIGN + CLAUSES_TRACE
    ctx.rule = ("RomcPipeline.tla: every public ROMC call = the composition of the transcribed private stages; refused iff its precondition "
                "flag is unset; RomcPipeline_Trace.tla replays real call histories on the design state")
    ctx.clauses_not_decided = ["region geometry, line search, posterior values and weights (property C19)", "plotting methods, compute_divergence",
                               "a simulator that raises anything but ValueError in the middle of solve_problems"]
    ctx.notes.append("ROMC pipeline extension: %d histories (%d pinned), %d calls, %d refused, %d raised otherwise; user-level invariants violated "
                     "on observed states (histories): %s" % (len(scs), len(pinned()), ncalls, nrefused, nraised,
                                                            ", ".join("%s=%d" % kv for kv in sorted(inv_count.items())) or "none"))
    if traces:
        ctx.sample(dict(scenario=scs[0], events=[{k: e[k] for k in ("m", "raised", "stages", "flags", "n1", "att", "sld", "acc", "bb", "post", "smps", "res")}
                                                 for e in traces[0]["events"]][:4]))
    return dict(histories=len(scs), calls=ncalls, refused=nrefused, raised=nraised, invariants_violated=inv_count)

"""C01 - Rejection ABC returns exactly the best simulated draws, row-consistent.

O1: Rejection.tla exhaustively (all batches over small discrepancy sets incl. ties / inf / nan, free
    tie order of the unstable sort, the three objective forms); negative control: with +inf draws
    the buffer's filler rows can displace real draws (finding F2).
O3: (direct) the public stepping API set_objective / update / extract_result driven with
    id-carrying batches; (e2e) Rejection.sample through the real engine on T1 models with a
    recording subclass.  Every update and the result are validated by Rejection_Trace.tla.
"""
import itertools
import math
import random

import numpy as np

from harness import tlc
from harness.t1 import T1Model, decode
from harness.util import Hang, time_limit

INF_CODE, NAN_CODE = 999, 1000


def dcode(x):
    x = float(x)
    if math.isnan(x):
        return NAN_CODE
    if math.isinf(x):
        return INF_CODE if x > 0 else -999
    if x != int(x) or abs(x) > 900:
        return 998            # not a table value: garbage
    return int(x)


def mc_cfg(bs, n, dvals, thr, budget, initb, maxb, invs):
    return """SPECIFICATION Spec
CONSTANTS
  BS = %d
  N = %d
  DVals <- %s
  Thr %s
  Budget = %d
  InitB = %d
  MaxBatches = %d
%s
CHECK_DEADLOCK FALSE
""" % (bs, n, dvals, ("= %d" % thr) if thr >= 0 else "<- NoThr", budget, initb, maxb,
       "\n".join("INVARIANT " + i for i in invs))


ALL_INV = ["BestN", "AreConsumedDraws", "AreConsumedDrawsWhenEnoughFinite", "NoDuplicates", "Sorted", "ThrIsMax",
           "BudgetBatches", "ThresholdModeFull", "FirstRowsBest"]
WEAK_INV = ["AreConsumedDrawsWhenEnoughFinite", "Sorted", "ThrIsMax", "BudgetBatches", "NoDuplicates"]


# ------------------------------------------------------------------ recording
def decode_id(v, offset, scale=1.0):
    """payload value -> draw id, or -1 when it is not the image of an id (uninitialised filler)."""
    try:
        v = float(v)
    except Exception:
        return -1
    if not math.isfinite(v):
        return -1
    x = (v - offset) * scale
    if x != int(x) or x < 0 or x > 10 ** 6:
        return -1
    return int(x)


def make_recording_class():
    import elfi

    class RecRejection(elfi.Rejection):
        """Rejection with an update() that logs the batch and the projected state (harness side)."""

        def update(self, batch, batch_index):
            super().update(batch, batch_index)
            self._rec(batch)

    return RecRejection


def project(r, idT_of, cons):
    """Buffer rows as [idS, idT, d].  A row with distance +inf whose payload is not a consumed draw with
    distance +inf is a never-written filler: its payload is uninitialised memory (np.empty) and is
    reported as id -1 whatever stale bytes it happens to hold."""
    s = r.state["samples"]
    d = np.atleast_2d(np.transpose(s["d"]))[-1]
    buf = []
    for i in range(len(d)):
        row = [decode_id(np.ravel(s["S1"][i])[0], 10000.0), idT_of(np.ravel(s["t1"][i])[0]), dcode(d[i])]
        if row[2] == INF_CODE and not (row[0] == row[1] and cons.get(row[0]) == INF_CODE):
            row = [-1, -1, INF_CODE]
        buf.append(row)
    return dict(buf=buf, thr=dcode(np.ravel(r.state["threshold"])[-1]), objb=int(r.objective["n_batches"]),
                fin=bool(r.finished), nsim=int(r.state["n_sim"]))


def batch_rows(batch, idT_of):
    d = np.atleast_2d(np.transpose(batch["d"]))[-1]
    return [[decode_id(np.ravel(batch["S1"][i])[0], 10000.0), idT_of(np.ravel(batch["t1"][i])[0]), dcode(d[i])]
            for i in range(len(d))]


def result_event(res, idT_of):
    o = res.outputs
    d = np.atleast_2d(np.transpose(o["d"]))[-1]
    rows = [[decode_id(np.ravel(o["S1"][i])[0], 10000.0), idT_of(np.ravel(o["t1"][i])[0]), dcode(d[i])] for i in range(len(d))]
    return dict(ev="result", rows=rows, thr=dcode(np.ravel(res.threshold)[-1]), nsim=int(res.n_sim), nbatches=int(res.n_batches))


def base_trace(sc):
    q = sc.get("q") or [1, 1]
    return dict(bs=sc["bs"], n=sc["n"], mode=sc["mode"], thr=sc.get("thr", -1) if sc.get("thr") is not None else -1,
                nsim=sc.get("n_sim", 0) or 0, qn=q[0], qd=q[1], initb=sc.get("maxpar", 1), events=[])


def objective_kwargs(sc):
    if sc["mode"] == "thr":
        return dict(threshold=sc["thr"])
    if sc["mode"] == "nsim":
        return dict(n_sim=sc["n_sim"])
    return dict(quantile=sc["q"][0] / sc["q"][1])


def record_direct(sc):
    """set_objective / update(batch, i) / extract_result with harness-built id-carrying batches."""
    import elfi
    tm = T1Model([0], name="c01d")
    r = elfi.Rejection(tm.model["d"], batch_size=sc["bs"], output_names=["S1"], max_parallel_batches=sc.get("maxpar", 1), seed=1)
    tr = base_trace(sc)
    idT = lambda v: decode_id(v, 0.0, 1024.0)   # noqa: E731   parameters are id/1024 (exact)
    bs = sc["bs"]
    for k, pv in enumerate(sc.get("prev", ())):
        # earlier runs on the SAME sampler object (their draws carry ids from another range): a run returns draws of its own
        r.set_objective(pv["n"], **objective_kwargs(pv))
        for bi, ds in enumerate(pv["batches"]):
            if r.finished:
                break
            ids = 500000 + k * 10000 + np.arange(bi * bs, (bi + 1) * bs)
            r.update(dict(d=np.array([decode(x) for x in ds], dtype=float), S1=ids + 10000.0, t1=ids / 1024.0), bi)
        if r.finished and pv.get("extract", True):
            r.extract_result()
    r.set_objective(sc["n"], **objective_kwargs(sc))
    cons = {}
    for bi, ds in enumerate(sc["batches"]):
        if r.finished:
            break
        ids = np.arange(bi * bs, (bi + 1) * bs)
        batch = dict(d=np.array([decode(x) for x in ds], dtype=float), S1=ids + 10000.0, t1=ids / 1024.0)
        r.update(batch, bi)
        if bi in sc.get("peek_after", ()):
            r.extract_result()          # looking at the intermediate result must not disturb the run
        rows = batch_rows(batch, idT)
        cons.update({x[0]: x[2] for x in rows})
        tr["events"].append(dict(ev="update", rows=rows, obs=project(r, idT, cons)))
    if r.finished:
        res = r.extract_result()
        post = sc.get("post")
        if post:
            # the sampler is used again (same n_samples, draws with ids of another range): the result handed out before must
            # stay what it was - it is judged AFTER the later run
            r.set_objective(sc["n"], **objective_kwargs(post))
            for bi, ds in enumerate(post["batches"]):
                if r.finished:
                    break
                ids = 900000 + np.arange(bi * bs, (bi + 1) * bs)
                r.update(dict(d=np.array([decode(x) for x in ds], dtype=float), S1=ids + 10000.0, t1=ids / 1024.0), bi)
            if r.finished:
                r.extract_result()
        tr["events"].append(result_event(res, idT))
    return tr


def record_e2e(sc):
    """Rejection.sample through the real engine (native client) on a T1 model."""
    Rec = make_recording_class()
    tm = T1Model(sc["table"], name="c01e", width=sc.get("width", 0))
    tr = base_trace(sc)
    r = Rec(tm.model["d"], batch_size=sc["bs"], output_names=["S1"], max_parallel_batches=sc.get("maxpar", 1), seed=sc["seed"])

    def idT(v):
        v = float(v)
        hits = [i for i, p in tm.param_of.items() if p[0] == v]
        return hits[0] if len(hits) == 1 else -1

    cons = {}

    def rec(batch):
        rows = batch_rows(batch, idT)
        cons.update({x[0]: x[2] for x in rows})
        tr["events"].append(dict(ev="update", rows=rows, obs=project(r, idT, cons)))
    r._rec = lambda batch: None
    for pv in sc.get("prev", ()):       # earlier sample() calls on the same sampler object
        r.sample(pv["n"], bar=False, **objective_kwargs(pv))
    tm.calls.clear()
    r._rec = rec
    res = r.sample(sc["n"], bar=False, **objective_kwargs(sc))
    if sc.get("post"):
        # a later, longer run on the same sampler object with the same n_samples: the earlier result is judged afterwards
        r._rec = lambda batch: None
        calls = {k: list(v) for k, v in tm.calls.items()}
        r.sample(sc["n"], bar=False, **objective_kwargs(sc["post"]))
        tm.calls.clear()
        tm.calls.update(calls)
    tr["events"].append(result_event(res, idT))
    # the operations' own record of what was simulated must agree with what was consumed
    tr["simulated_batches"] = sorted(set(b for b, _n in tm.calls.get("sim", [])))
    return tr


HANGS = [0]


def record(sc):
    if HANGS[0] >= 3:
        return None          # the code under test does not terminate: enough evidence, do not burn the time budget
    try:
        with time_limit(180):
            return record_direct(sc) if sc["kind"] == "direct" else record_e2e(sc)
    except Hang:
        HANGS[0] += 1
        tr = base_trace(sc)
        tr["events"] = [dict(ev="result", rows=[], thr=0, nsim=-1, nbatches=-1)]
        return tr
    except Exception as ex:   # the sampler raised on an input the property covers: no result
        tr = base_trace(sc)
        tr["events"] = [dict(ev="result", rows=[], thr=0, nsim=-1, nbatches=-1, exc="%s: %s" % (type(ex).__name__, str(ex)[:100]))]
        return tr


# ------------------------------------------------------------------ scenarios
PINNED_F2 = dict(kind="direct", mode="nsim", bs=2, n=2, n_sim=2, batches=[["inf", 1]], pinned="F2")
DV = [0, 1, 2, "inf", "nan"]


def scenarios(ctx):
    rnd = random.Random(ctx.seed)
    out = [dict(PINNED_F2)]
    # direct, exhaustive for the smallest sizes: every batch sequence over DV
    sizes_ex = [(1, 1), (1, 2), (2, 1)] if ctx.quick else [(1, 1), (1, 2), (2, 1), (2, 2), (1, 3)]
    for (bs, n) in sizes_ex:
        nb = 3 if bs == 1 else 2
        for seq in itertools.product(DV, repeat=bs * nb):
            batches = [list(seq[i * bs:(i + 1) * bs]) for i in range(nb)]
            for mode, kw in (("nsim", dict(n_sim=bs * nb)), ("thr", dict(thr=1))):
                if mode == "nsim" and kw["n_sim"] < n:
                    continue
                extra = [[rnd.choice([0, 1, 2]) for _ in range(bs)] for _k in range(6)] if mode == "thr" else []
                out.append(dict(kind="direct", mode=mode, bs=bs, n=n, batches=batches + extra, maxpar=rnd.choice([1, 2, 3]), **kw))
    n_ex = len(out)
    # direct, random: larger sizes, all three objective forms, ties/inf/nan densities varied
    n_rand = 1500 if ctx.quick else 20000
    for _ in range(n_rand):
        bs, n = rnd.randint(1, 5), rnd.randint(1, 6)
        p_bad = rnd.choice([0.0, 0.1, 0.4])
        top = rnd.choice([1, 2, 5, 9])
        nb = rnd.randint(1, 6)
        mode = rnd.choice(["thr", "nsim", "quantile"])
        sc = dict(kind="direct", mode=mode, bs=bs, n=n, maxpar=rnd.choice([1, 2, 4]))
        if mode == "nsim":
            sc["n_sim"] = n + rnd.randint(0, 3 * bs)
            nb = -(-sc["n_sim"] // bs) + 1
        elif mode == "quantile":
            sc["q"] = rnd.choice([[1, 1], [1, 2], [1, 4], [3, 4], [1, 8], [5, 8]])
            nb = -(-(-(-n * sc["q"][1] // sc["q"][0])) // bs) + 1
        else:
            sc["thr"] = rnd.randint(0, top)
            nb = 40
        batches = []
        for b in range(nb):
            row = []
            for _r in range(bs):
                u = rnd.random()
                row.append("inf" if u < p_bad / 2 else ("nan" if u < p_bad else rnd.randint(0, top)))
            batches.append(row)
        if mode == "thr":   # make sure the run can finish: plenty of acceptable draws at the end
            batches += [[0] * bs for _k in range(n + 2)]
        sc["batches"] = batches
        if rnd.random() < 0.3:
            sc["peek_after"] = sorted(rnd.sample(range(len(batches)), min(len(batches), rnd.randint(1, 2))))
        if rnd.random() < 0.25:     # the sampler object was used before (other n_samples / objective)
            pn = rnd.choice([n, n, rnd.randint(1, 6)])
            pmode = rnd.choice(["nsim", "thr"])
            pv = dict(n=pn, mode=pmode, extract=rnd.random() < 0.7)
            if pmode == "nsim":
                pv["n_sim"] = pn + rnd.randint(0, 2 * bs)
                pv["batches"] = [[rnd.randint(0, top) for _r in range(bs)] for _b in range(-(-pv["n_sim"] // bs))]
            else:
                pv["thr"] = top
                pv["batches"] = [[rnd.randint(0, top) for _r in range(bs)] for _b in range(pn + 2)]
            sc["prev"] = [pv]
        if rnd.random() < 0.25:     # ... and is used again afterwards, with the same n_samples
            sc["post"] = dict(mode="nsim", n_sim=n + rnd.randint(bs, 3 * bs))
            sc["post"]["batches"] = [[rnd.randint(0, top) for _r in range(bs)] for _b in range(-(-sc["post"]["n_sim"] // bs))]
        out.append(sc)
    # end to end through the engine
    n_e2e = 150 if ctx.quick else 1500
    for _ in range(n_e2e):
        bs, n = rnd.randint(1, 4), rnd.randint(1, 5)
        top = rnd.choice([1, 3, 9])
        table = [rnd.randint(0, top) for _k in range(rnd.choice([5, 11, 23]))]
        if rnd.random() < 0.3:
            for _k in range(2):
                table[rnd.randrange(len(table))] = rnd.choice(["inf", "nan"])
        mode = rnd.choice(["thr", "nsim", "quantile"])
        sc = dict(kind="e2e", mode=mode, bs=bs, n=n, table=table, seed=(0 if rnd.random() < 0.08 else rnd.randint(0, 10 ** 6)), maxpar=rnd.choice([1, 2, 3]),
                  width=rnd.choice([0, 0, 2]))
        if mode == "nsim":
            sc["n_sim"] = n + rnd.randint(0, 3 * bs)
        elif mode == "quantile":
            sc["q"] = rnd.choice([[1, 1], [1, 2], [1, 4], [3, 4]])
        else:
            finite = [v for v in table if not isinstance(v, str)]
            sc["thr"] = min(finite) + rnd.randint(0, 2)     # at least one acceptable value in every table cycle
        if rnd.random() < 0.25:     # sample() was called before on the same object
            finite = [v for v in table if not isinstance(v, str)]
            pn = rnd.choice([n, rnd.randint(1, 5)])
            sc["prev"] = [rnd.choice([dict(n=pn, mode="nsim", n_sim=pn + rnd.randint(0, 2 * bs)), dict(n=pn, mode="thr", thr=max(finite)),
                                      dict(n=pn, mode="quantile", q=[1, 2])])]
        if rnd.random() < 0.25:     # sample() is called again afterwards with the same n_samples and a larger budget
            sc["post"] = dict(mode="nsim", n_sim=(sc.get("n_sim") or n) + len(table) * bs + rnd.randint(0, 2 * bs))
        out.append(sc)
    return out, n_ex


def consumed_draws(tr):
    out = []
    for e in tr["events"]:
        if e["ev"] == "update":
            out += [(r[0], r[2]) for r in e["rows"]]
    return out


def is_f2(sc, tr, verdict):
    """F2 classifier: the failing result contains a row that is no consumed draw (a buffer filler: discrepancy code inf) or
    misses a nan/inf draw, AND fewer than n_samples eligible draws with FINITE discrepancy were consumed."""
    if verdict not in ("P:is-consumed-draw", "P:best-n", "P:row-consistent"):
        return False
    res = tr["events"][-1]
    if res["ev"] != "result" or not res["rows"]:
        return False
    if sc["mode"] == "thr":
        return False        # with a threshold, inf / nan draws are never eligible: a filler in the result is never F2
    thr = None
    cons = consumed_draws(tr)
    finite_elig = [d for (_i, d) in cons if d < INF_CODE]
    if len(finite_elig) >= sc["n"] or len(cons) < sc["n"] or not any(d >= INF_CODE for (_i, d) in cons):
        return False        # F2 needs: enough consumed draws, some of them inf / nan, fewer than n_samples finite ones
    ids = {i for (i, _d) in cons}
    bad_rows = [r for r in res["rows"] if r[0] not in ids or r[0] != r[1]]
    # every offending row must be a filler: distance inf, payload not a draw
    return all(r[2] == INF_CODE for r in bad_rows) and all(r[2] >= INF_CODE for r in res["rows"][len(finite_elig):])


def check_scenarios(ctx, scs):
    traces = [record(sc) for sc in scs]
    scs = [sc for sc, tr in zip(scs, traces) if tr is not None]
    traces = [tr for tr in traces if tr is not None]
    verdicts = ctx.validate("Rejection_Trace", traces, chunk=1500)
    for sc, tr, v in zip(scs, traces, verdicts):
        cons = consumed_draws(tr)
        ds = [d for (_i, d) in cons]
        nontrivial = len(set(ds)) < len(ds) or any(d >= INF_CODE for d in ds)      # ties or non-finite present
        key = (sc["kind"], sc["mode"], sc["bs"], sc["n"], tuple(ds), sc.get("thr"), sc.get("n_sim"), tuple(sc.get("q") or ()), str(sc.get("prev", "")), str(sc.get("post", "")))
        ctx.case(key, nontrivial=nontrivial)
        ctx.trace_events += len(tr["events"])
        if v["verdict"] != "ok":
            ctx.fail(v["verdict"], sc, detail=dict(at_event=v["l"] - 1, last=tr["events"][-1]),
                     finding="F2" if is_f2(sc, tr, v["verdict"]) else None)
        elif v["drift"]:
            ctx.drifted(v["drift"], sc, detail=dict(at=v["l"]))
        if sc["kind"] == "e2e" and "simulated_batches" in tr:
            n_upd = sum(1 for e in tr["events"] if e["ev"] == "update")
            if tr["simulated_batches"] != list(range(n_upd)):
                ctx.drifted("M:simulated-batches-are-the-consumed-ones", sc, detail=tr["simulated_batches"])
    return traces


def run(ctx):
    ctx.rule = ("direct: set_objective/update/extract_result with id-carrying batches - every batch sequence over {0,1,2,inf,nan} for "
                "the smallest (batch_size, n_samples) and seeded random sequences for sizes up to 5x6 in all three objective forms "
                "(threshold | quantile as dyadic rational | n_sim, incl. batch_size not dividing n_sim); e2e: Rejection.sample through "
                "the engine on T1 models (scalar and vector summaries); a quarter of the random runs on a sampler object that "
                "already completed another run (other n_samples / objective).  Non-trivial = the consumed draws contain ties or inf/nan.")
    ctx.clauses_decided = ["a: n best eligible draws (ties free)", "b: ascending", "c: row consistency over all output columns",
                           "d: threshold = largest returned", "e: n_sim = batch_size x consumed", "f: ceil(budget/batch_size) batches"]
    ctx.assumptions.append("quantiles are dyadic rationals so that ceil(n_samples/quantile) is exact in floats")
    acts = ["Update", "Extract"]
    runs = [(2, 2, "DFinite", -1, 5, 1, 4, ALL_INV, True), (2, 2, "DAll", 1, 0, 2, 3, ALL_INV, True),
            (2, 2, "DAll", -1, 4, 1, 4, WEAK_INV, True), (2, 2, "DWithInf", -1, 4, 1, 4, ["AreConsumedDraws"], False)]
    if not ctx.quick:
        runs += [(3, 2, "DFinite", -1, 6, 1, 4, ALL_INV, True), (2, 3, "DFinite", 1, 0, 1, 4, ALL_INV, True),
                 (3, 3, "DFinite", -1, 6, 1, 4, ALL_INV, True), (1, 3, "DAll", 1, 0, 3, 6, ALL_INV, True),
                 (3, 1, "DAll", -1, 5, 1, 4, WEAK_INV, True)]
    for i, (bs, n, dv, thr, bud, ib, mb, invs, ok) in enumerate(runs):
        ctx.tlc("MC_Rejection", "MC_Rejection_%d" % i, cfg_text=mc_cfg(bs, n, dv, thr, bud, ib, mb, invs),
                expect_actions=acts if ok else None, expect_ok=ok, timeout=1200,
                label="Rejection bs=%d n=%d %s thr=%d budget=%d" % (bs, n, dv, thr, bud))
    scs, n_ex = scenarios(ctx)
    traces = check_scenarios(ctx, scs)
    ctx.notes.append("%d exhaustive direct sequences, %d random/e2e" % (n_ex, len(scs) - n_ex))
    for i in (0, n_ex // 2, n_ex + 3, len(scs) - 1):
        if i >= len(traces):
            continue
        ctx.sample(dict(scenario=scs[i], trace_events=traces[i]["events"][:3]))


def replay(ctx, scenario):
    check_scenarios(ctx, [scenario])

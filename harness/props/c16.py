"""C16 - result objects report what the sampler produced, and survive saving.

O1: ResultObjects.tla (constructor / samples_array / means / intervals / BOLFI slice-and-reshape operators
    and the Save/Load state machine over csv, json, pkl with the aliasing Sample.save('x.json') has in the
    code) and ChainDiag.tla (split R-hat == BDA3 11.4, the ESS transcription == its cleared integer form,
    invariance under shifts, integer scalings, chain reordering) exhaustively within small bounds, with
    negative controls (sorted-outputs constructor, Fortran reshape, warm-up off by one, the JSON save as coded
    (finding F30), un-split R-hat, ddof=0, uncentred autocovariance, first-chain-only autocovariance).
O3: real Sample / SmcSample / BolfiSample objects built from id-valued arrays (T1) with dyadic weights are
    taken through histories of attribute reads, Sample.save and read-backs; real gelman_rubin_statistic /
    eff_sample_size calls on integer chains and on exactly transformed copies.  ResultObjects_Trace.tla /
    ChainDiag_Trace.tla recompute the expected values from the logged INPUTS and compare.

Float soundness (DESIGN 4/T1, T2).  Sample values are ids mapped to floats through a strictly increasing
table (id, id * 2^-sh, or "opaque": sorted arbitrary finite doubles), so order and equality of values are
those of the ids; read-back values are projected to ids by exact table lookup (-1 = not in the table).
Means are judged only on the arithmetic tables, in fixed point 10^-6 (floor <= logged <= floor + 1).
Interval ends are judged with the DEFINITION IsWQ at 1/40 and 39/40, which accepts both neighbours of an
exact cumulative-weight boundary (weights are small integers / 2^k, so a comparison can only be undecided
by floats where it is an exact tie).  R-hat / ESS values are logged as floor(value * 10^9) (exact, via
Fraction) and compared with tolerance 5 * 10^-8; transformed chains are sgn * 2^k * x[perm] + c with
integer x, c (exact in floats); chains with a truncation test exactly 0 are not judged (ESS).
"""
import concurrent.futures
import csv
import itertools
import json
import os
import pickle
import random
import warnings
from collections import OrderedDict
from fractions import Fraction

import numpy as np

from harness.util import Hang, fx, time_limit

F30 = "F30"
HANGS = [0]
FMTS = ("csv", "json", "pkl")


# ---------------------------------------------------------------------------------------------
# value tables: id -> float (strictly increasing), and the projection back
# ---------------------------------------------------------------------------------------------
SPECIALS = [0.1, 0.2, 0.30000000000000004, 1.0 / 3.0, 1e-300, 5e-324, 2.2250738585072014e-308, 1e16, 9007199254740993.0,
            1.7976931348623157e308, -1.7976931348623157e308, 123456.789, 1e22, 1e-7, 2.5, -0.5, 1e21, 1.5e-5]


def make_table(tab, size):
    kind = tab["kind"]
    if kind == "id":
        return [float(i) for i in range(size)]
    if kind == "dyadic":
        return [i / float(2 ** tab["sh"]) for i in range(size)]
    rnd = random.Random(tab["seed"])
    vals = set()
    while len(vals) < size:
        r = rnd.random()
        if r < 0.25:
            v = rnd.choice(SPECIALS) * rnd.choice([1, -1])
        elif r < 0.5:
            v = round(rnd.uniform(-100, 100), rnd.randint(0, 4))
        elif r < 0.75:
            v = rnd.gauss(0, 1) * 10.0 ** rnd.randint(-9, 9)
        else:
            v = rnd.uniform(-1, 1)
        v = float(v)
        if v == 0.0:
            v = 0.0          # no negative zero (0.0 == -0.0 would alias two ids)
        vals.add(v)
    return sorted(vals)


def projector(table):
    inv = {v: i for i, v in enumerate(table)}

    def proj(x):
        try:
            return inv.get(float(x), -1)
        except (TypeError, ValueError):
            return -1
    return proj


def proj_list(proj, seq):
    try:
        return [proj(x) for x in (seq.tolist() if hasattr(seq, "tolist") else list(seq))]
    except Exception:
        return [-1]


# ---------------------------------------------------------------------------------------------
# recording: result objects
# ---------------------------------------------------------------------------------------------
def blank_event(ev, obj="", fmt=""):
    return dict(ev=ev, obj=obj, fmt=fmt, res="ok", exc="",
                pnames=[], skeys=[], svals=[], rep="", n=-1, dim=-1,
                arr=[], arres="skip", means=[], mres="skip", lo=[], hi=[], qres="skip", qexc="",
                ohasw=False, ows=[],
                fkeys=[], fvals=[], fnames=[], fhasw=False, fws=[], fpops=[])


def int_weights(w, wsh):
    if w is None:
        return False, []
    out = []
    for x in np.asarray(w, dtype=float).ravel().tolist():
        y = x * 2 ** wsh
        out.append(int(y) if float(y).is_integer() and abs(y) < 2 ** 30 else -1)
    return True, out


def rep_of(samples):
    vals = list(samples.values())
    if all(isinstance(v, np.ndarray) for v in vals):
        return "array"
    if all(isinstance(v, list) for v in vals):
        return "list"
    return "other"


def project_object(e, obj, sc, proj, full):
    """Fill the object-projection fields of event e from a (Bolfi/Smc)Sample object."""
    e["pnames"] = [str(x) for x in obj.parameter_names]
    e["skeys"] = [str(k) for k in obj.samples.keys()]
    e["svals"] = [proj_list(proj, v) for v in obj.samples.values()]
    e["rep"] = rep_of(obj.samples)
    try:
        e["n"] = int(obj.n_samples)
        e["dim"] = int(obj.dim)
    except Exception:
        pass
    e["ohasw"], e["ows"] = int_weights(obj.weights, sc.get("wsh", 0))
    if not full:
        return
    with warnings.catch_warnings(), np.errstate(all="ignore"):
        warnings.simplefilter("ignore")
        try:
            with time_limit(10):
                a = np.asarray(obj.samples_array)
            if a.ndim == 2:
                e["arr"] = [proj_list(proj, a[:, j]) for j in range(a.shape[1])]
                e["arres"] = "ok"
            else:
                e["arres"] = "shape"
        except Hang:
            e["arres"] = "hang"
        except Exception:
            e["arres"] = "raise"
        if sc["tab"]["kind"] != "opaque":
            try:
                with time_limit(10):
                    m = obj.sample_means
                e["means"] = [fx(v) for v in m.values()]
                e["mres"] = "ok" if all(isinstance(v, int) for v in e["means"]) else "nonfinite"
                if e["mres"] != "ok":
                    e["means"] = []
            except Hang:
                e["mres"] = "hang"
            except OverflowError:
                e["mres"] = "nonfinite"
            except Exception:
                e["mres"] = "raise"
        try:
            with time_limit(10):
                c = obj.sample_means_and_95CIs
            e["lo"] = [proj(v[1]) for v in c.values()]
            e["hi"] = [proj(v[2]) for v in c.values()]
            e["qres"] = "ok"
        except Hang:
            e["qres"] = "hang"
        except Exception as ex:      # an exception of the code under test is an event
            e["qres"] = "raise"
            e["qexc"] = type(ex).__name__


def pops_projection(pops, proj):
    out = []
    for p in pops:
        out.append(dict(keys=[str(k) for k in p.samples.keys()], vals=[proj_list(proj, v) for v in p.samples.values()]))
    return out


def build_sample(spec, table, wsh, dtype):
    outputs = OrderedDict()
    for k, ids in zip(spec["okeys"], spec["ovals"]):
        if dtype == "int":
            outputs[k] = np.array([int(table[i]) for i in ids], dtype=np.int64)
        else:
            outputs[k] = np.array([table[i] for i in ids], dtype=float)
    weights = np.array(spec["ws"], dtype=float) / 2 ** wsh if spec["hasw"] else None
    disc = "d" if "d" in spec["okeys"] else None
    meta = dict(n_sim=100, n_batches=np.int64(4), threshold=np.float64(0.5), seed=np.uint32(7), accept_rate=0.25)
    return outputs, weights, disc, meta


def record_ro(sc, outdir):
    from elfi.methods.results import BolfiSample, Sample, SmcSample
    table = make_table(sc["tab"], sc["tsize"])
    proj = projector(table)
    wsh = sc.get("wsh", 0)
    dtype = sc.get("dtype", "float")
    header = dict(kind=sc["kind"], names=sc["names"], okeys=sc["okeys"], ovals=sc["ovals"], hasw=sc["hasw"], ws=sc["ws"],
                  num=sc["tab"]["kind"] != "opaque", sh=sc["tab"].get("sh", 0) if sc["tab"]["kind"] == "dyadic" else 0,
                  chains=sc.get("chains", []), warmup=sc.get("warmup", 0),
                  pops=[dict(names=p["names"], okeys=p["okeys"], ovals=p["ovals"], hasw=p["hasw"], ws=p["ws"]) for p in sc.get("pops", [])])
    events = []
    e = blank_event("init", "live")
    obj = None
    try:
        with time_limit(20):
            if sc["kind"] == "bolfi":
                ch = np.array([[[table[i] for i in row] for row in chain] for chain in sc["chains"]], dtype=float)
                ch = ch.reshape((len(sc["chains"]), len(sc["chains"][0]), len(sc["names"])))
                obj = BolfiSample(method_name="BOLFI", chains=ch, parameter_names=list(sc["names"]), warmup=sc["warmup"],
                                  threshold=0.25, n_sim=np.int64(50), seed=np.uint32(3))
            else:
                outputs, weights, disc, meta = build_sample(sc, table, wsh, dtype)
                if sc["kind"] == "smc":
                    pops = []
                    for p in sc["pops"]:
                        po, pw, pd, pm = build_sample(p, table, wsh, dtype)
                        pops.append(Sample(method_name="Rejection within SMC-ABC", outputs=po, parameter_names=list(p["names"]),
                                           discrepancy_name=pd, weights=pw, **pm))
                    obj = SmcSample(method_name="SMC", outputs=outputs, parameter_names=list(sc["names"]), populations=pops,
                                    discrepancy_name=disc, weights=weights, **meta)
                else:
                    # every third weighted sample gets its weights the way the SMC sampler gives them to its populations:
                    # assigned to the attribute after construction
                    late = weights is not None and bool(sc.get("latew"))
                    obj = Sample(method_name="harness", outputs=outputs, parameter_names=list(sc["names"]),
                                 discrepancy_name=disc, weights=None if late else weights, **meta)
                    if late:
                        obj.weights = weights
        project_object(e, obj, sc, proj, full=False)
    except Hang:
        e["res"] = "hang"
        HANGS[0] += 1
    except Exception as ex:
        e["res"] = "raise"
        e["exc"] = type(ex).__name__
    events.append(e)
    if obj is None:
        header["events"] = events
        return header
    fdir = os.path.join(outdir, "files")
    os.makedirs(fdir, exist_ok=True)
    base = os.path.join(fdir, "s%d_%d" % (os.getpid(), sc.get("_k", 0)))
    for op in list(sc["history"]) + ["attrs"]:
        if op == "attrs":
            e = blank_event("attrs", "live")
            try:
                project_object(e, obj, sc, proj, full=True)
            except Exception as ex:
                e["res"] = "raise"
                e["exc"] = type(ex).__name__
            events.append(e)
            continue
        act, fmt = op.split(":")
        path = base + "." + fmt
        if act == "save":
            e = blank_event("save", "live", fmt)
            try:
                with time_limit(20):
                    obj.save(path)
                if not os.path.exists(path):
                    e["res"] = "nofile"
            except Hang:
                e["res"] = "hang"
            except Exception as ex:
                e["res"] = "raise"
                e["exc"] = type(ex).__name__
            events.append(e)
        else:
            if not os.path.exists(path):
                continue      # nothing of that kind saved (yet): the history generator does not emit this
            e = blank_event("load", "pkl" if fmt == "pkl" else "", fmt)
            try:
                if fmt == "csv":
                    with open(path, newline="") as f:
                        rows = list(csv.reader(f))
                    e["fkeys"] = [str(x) for x in rows[0]]
                    body = rows[1:]
                    e["fvals"] = [[proj(r[j]) if j < len(r) else -1 for r in body] for j in range(len(rows[0]))]
                elif fmt == "json":
                    with open(path) as f:
                        d = json.load(f)
                    e["fkeys"] = [str(k) for k in d["samples"].keys()]
                    e["fvals"] = [proj_list(proj, v) for v in d["samples"].values()]
                    e["fnames"] = [str(x) for x in d["parameter_names"]]
                    e["fhasw"], e["fws"] = int_weights(d.get("weights"), wsh)
                    pp = d.get("populations") or {}
                    e["fpops"] = [dict(keys=[str(k) for k in pp[c]["samples"].keys()],
                                       vals=[proj_list(proj, v) for v in pp[c]["samples"].values()]) for c in sorted(pp)]
                else:
                    with open(path, "rb") as f, time_limit(20):
                        o2 = pickle.load(f)
                    project_object(e, o2, sc, proj, full=True)
                    e["fpops"] = pops_projection(getattr(o2, "populations", []) if "populations" in o2.__dict__ else [], proj)
            except Hang:
                e["res"] = "hang"
            except Exception as ex:
                e["res"] = "raise"
                e["exc"] = type(ex).__name__
            events.append(e)
    for fmt in FMTS:
        try:
            os.remove(base + "." + fmt)
        except OSError:
            pass
    header["events"] = events
    return header


# ---------------------------------------------------------------------------------------------
# recording: chain diagnostics
# ---------------------------------------------------------------------------------------------
def limbs(n):
    out = []
    while True:
        out.append(int(n % 10000))
        n //= 10000
        if n == 0:
            return out


def record_cd(sc):
    from elfi.methods.mcmc import eff_sample_size, gelman_rubin_statistic
    base = np.array(sc["chains"], dtype=float)
    ident = dict(perm=list(range(base.shape[0])), sgn=1, k=0, c=0)
    events = []
    for fn, f in (("rhat", gelman_rubin_statistic), ("ess", eff_sample_size)):
        for tf in [ident] + list(sc["tfs"]):
            x = (tf["sgn"] * 2.0 ** tf["k"]) * base[tf["perm"], :] + float(tf["c"])
            e = dict(fn=fn, ident=tf is ident, how="perm=%s sgn=%d k=%d c=%d" % (tf["perm"], tf["sgn"], tf["k"], tf["c"]),
                     res="ok", v=[0])
            try:
                with time_limit(10), warnings.catch_warnings(), np.errstate(all="ignore"):
                    warnings.simplefilter("ignore")
                    val = float(f(x.copy()))
                if not np.isfinite(val) or val < 0 or val > 1e15:
                    e["res"] = "nonfinite"
                else:
                    e["v"] = limbs(int(Fraction(val) * 10 ** 9))        # exact floor(value * 10^9)
            except Hang:
                e["res"] = "hang"
                HANGS[0] += 1
            except Exception as ex:
                e["res"] = "raise"
                e["exc"] = type(ex).__name__
            e.setdefault("exc", "")
            events.append(e)
    return dict(chains=sc["chains"], events=events)


# ---------------------------------------------------------------------------------------------
# scenarios
# ---------------------------------------------------------------------------------------------
def histories(max_len):
    """Every history of saves and read-backs of length <= max_len in which a file is read only after it was written."""
    ops = ["save:%s" % f for f in FMTS] + ["load:%s" % f for f in FMTS]
    out = []
    for n in range(1, max_len + 1):
        for h in itertools.product(ops, repeat=n):
            saved = set()
            ok = True
            for op in h:
                act, fmt = op.split(":")
                if act == "save":
                    saved.add(fmt)
                elif fmt not in saved:
                    ok = False
                    break
            if ok:
                out.append(list(h))
    return out


def col_ids(k, ranks):
    """ids of the column of output k: block k of the table, ranks (with ties, unsorted) inside it"""
    return [64 * k + r for r in ranks]


def sample_spec(names, okeys, ranks_by_key, ws):
    return dict(names=list(names), okeys=list(okeys), ovals=[col_ids(k, ranks_by_key[k]) for k in range(len(okeys))],
                hasw=ws is not None, ws=list(ws) if ws is not None else [])


def bolfi_chains(C, n, P):
    return [[[(c * 8 + t) * 4 + p for p in range(P)] for t in range(n)] for c in range(C)]


FULL_HISTORY = ["save:csv", "load:csv", "save:pkl", "load:pkl", "save:json", "load:json", "load:pkl"]


def ro_scenarios(ctx, rnd):
    out = []
    # (1) every save / read-back history over four fixed objects
    hs = histories(3 if ctx.quick else 4)
    s1 = sample_spec(["t2", "t1"], ["d", "t1", "S", "t2"], [[1, 0, 2], [5, 5, 1], [0, 0, 0], [9, 3, 7]], None)
    s2 = sample_spec(["t2", "t1"], ["t1", "d", "t2"], [[3, 1, 1, 4], [0, 1, 2, 3], [2, 7, 2, 0]], [1, 2, 1, 4])
    p1 = sample_spec(["b", "a"], ["a", "b", "d"], [[1, 2, 3], [6, 5, 4], [0, 1, 2]], [2, 1, 1])
    p2 = sample_spec(["b", "a"], ["a", "b", "d"], [[4, 5, 3], [9, 8, 8], [0, 0, 1]], [1, 1, 2])
    bases = [
        dict(kind="sample", tab=dict(kind="id"), wsh=0, **s1),
        dict(kind="sample", tab=dict(kind="dyadic", sh=1), wsh=3, **s2),
        dict(kind="smc", tab=dict(kind="id"), wsh=2, pops=[p1, p2], **p2),
        dict(kind="bolfi", tab=dict(kind="id"), names=["y", "x"], okeys=[], ovals=[], hasw=False, ws=[],
             chains=bolfi_chains(2, 3, 2), warmup=1),
    ]
    for b in bases:
        for h in hs:
            out.append(dict(b, type="ro", tsize=512, history=h, fam="histories"))
    # pinned reproductions of finding F30 (also contained in the family above): intervals of the live object after a
    # JSON save, and of an object unpickled from a pickle written after a JSON save
    out.append(dict(bases[0], type="ro", tsize=512, history=["save:json"], fam="pinned-F30"))
    out.append(dict(bases[1], type="ro", tsize=512, history=["save:json", "save:pkl", "load:pkl"], fam="pinned-F30"))
    # (2) every order of 1..3 parameter names against the outputs' insertion order, 0..4 rows
    pool = ["pc", "pa", "pb"]
    for p in (1, 2, 3):
        for names in itertools.permutations(sorted(pool[:p])):
            for n in range(0, 5):
                okeys = list(sorted(pool[:p])) + ["d", "S1"]
                rnd.shuffle(okeys)
                ranks = [[rnd.randint(0, 6) for _ in range(n)] for _k in okeys]
                ws = None
                if n > 0 and rnd.random() < 0.5:
                    ws = dyadic_weights(rnd, n)
                out.append(dict(kind="sample", type="ro", tab=dict(kind="id"), wsh=rnd.randint(0, 4), tsize=512,
                                history=FULL_HISTORY, fam="orders", **sample_spec(names, okeys, ranks, ws)))
    # (3) every BOLFI shape and warm-up length (warm-up = chain length: everything dropped)
    maxc, maxn, maxp = (3, 4, 3) if ctx.quick else (4, 6, 3)
    for C in range(1, maxc + 1):
        for n in range(1, maxn + 1):
            for P in range(1, maxp + 1):
                for w in range(0, n + 1):
                    names = ["z", "y", "x"][:P] if (C + n + w) % 2 else ["x", "z", "y"][:P]
                    out.append(dict(kind="bolfi", type="ro", tab=dict(kind="id"), tsize=512, names=names, okeys=[], ovals=[],
                                    hasw=False, ws=[], chains=bolfi_chains(C, n, P), warmup=w,
                                    history=["save:csv", "load:csv", "save:pkl", "load:pkl", "save:json", "load:json"], fam="bolfi"))
    # (4) seeded random objects and histories
    for _ in range(150 if ctx.quick else 1500):
        out.append(random_ro(rnd))
    for k, sc in enumerate(out):
        sc["_k"] = k
        sc["latew"] = bool(sc.get("hasw")) and k % 3 == 1
    return out


def dyadic_weights(rnd, n):
    """Small integer weights; in most cases their total is a power of two (exact normalisation)."""
    r = rnd.random()
    if r < 0.6:
        total = rnd.choice([2, 4, 8, 16, 32, 64])
        cuts = sorted(rnd.randint(0, total) for _ in range(n - 1))
        ws = [b - a for a, b in zip([0] + cuts, cuts + [total])]
    elif r < 0.8:
        ws = [rnd.randint(0, 5) for _ in range(n)]
    else:
        ws = [rnd.choice([1, 39, 40, 2, 3]) for _ in range(n)]       # totals that put 1/40, 39/40 on boundaries
    if sum(ws) == 0:
        ws[rnd.randrange(n)] = 1
    while sum(ws) > 120:
        ws[ws.index(max(ws))] //= 2
    return ws


def random_ro(rnd):
    r = rnd.random()
    tabk = rnd.choice(["id", "dyadic", "opaque", "opaque"])
    tab = dict(kind=tabk)
    if tabk == "dyadic":
        tab["sh"] = rnd.randint(1, 3)
    if tabk == "opaque":
        tab["seed"] = rnd.randint(0, 10 ** 6)
    ops = ["save:%s" % f for f in FMTS] + ["load:%s" % f for f in FMTS] + ["attrs"]
    h, saved = [], set()
    for _ in range(rnd.randint(1, 6)):
        op = rnd.choice(ops)
        if op.startswith("load:") and op.split(":")[1] not in saved:
            op = "save:" + op.split(":")[1]
        if op.startswith("save:"):
            saved.add(op.split(":")[1])
        h.append(op)
    if r < 0.3:
        C, n, P = rnd.randint(1, 4), rnd.randint(1, 7), rnd.randint(1, 3)
        names = rnd.sample(["k", "a", "m", "b"], P)
        return dict(kind="bolfi", type="ro", tab=tab, tsize=512, names=names, okeys=[], ovals=[], hasw=False, ws=[],
                    chains=bolfi_chains(C, n, P), warmup=rnd.randint(0, n), history=h, fam="random")
    p = rnd.randint(1, 3)
    n = rnd.randint(1, 8)
    names = rnd.sample(["th", "a", "mu", "b2", "Z"], p)
    okeys = names + rnd.sample(["d", "S1", "S2"], rnd.randint(0, 3))
    rnd.shuffle(okeys)

    def ranks():
        return [[rnd.randint(0, rnd.choice([2, 8, 63])) for _ in range(n)] for _k in okeys]
    smc = r > 0.75
    ws = dyadic_weights(rnd, n) if (smc or rnd.random() < 0.6) else None
    sc = dict(kind="smc" if smc else "sample", type="ro", tab=tab, wsh=rnd.randint(0, 4), tsize=512, history=h, fam="random",
              dtype="int" if tabk == "id" and rnd.random() < 0.3 else "float", **sample_spec(names, okeys, ranks(), ws))
    if smc:
        sc["pops"] = [sample_spec(names, okeys, ranks(), dyadic_weights(rnd, n)) for _ in range(rnd.randint(1, 3))]
    return sc


def cd_fits(chains):
    """Generation filter mirroring the magnitudes ChainDiagOps keeps below 2^31."""
    M, N = len(chains), len(chains[0])
    lo = min(min(c) for c in chains)
    hi = max(max(c) for c in chains)
    return 1 <= M <= 4 and 1 <= N <= 16 and hi - lo <= 16 and max(abs(lo), abs(hi)) <= 16


def random_tfs(rnd, M, count):
    out = []
    for _ in range(count):
        perm = list(range(M))
        r = rnd.random()
        tf = dict(perm=perm, sgn=1, k=0, c=0)
        if r < 0.25 and M > 1:
            while perm == list(range(M)):
                rnd.shuffle(perm)
        elif r < 0.5:
            tf["k"] = rnd.choice([-3, -2, -1, 1, 2, 3, 10, -10, -20, -30, -40, 20, 40])      # exact in floats: powers of two
            tf["sgn"] = rnd.choice([1, -1])
        elif r < 0.75:
            tf["c"] = rnd.choice([-16, -7, -1, 1, 3, 8, 16, 1024])
        else:
            if M > 1:
                rnd.shuffle(perm)
            tf["k"] = rnd.randint(-3, 3)
            tf["sgn"] = rnd.choice([1, -1])
            tf["c"] = rnd.randint(-16, 16)
        if tf == dict(perm=list(range(M)), sgn=1, k=0, c=0):
            tf["sgn"] = -1
        out.append(tf)
    return out


def cd_scenarios(ctx, rnd):
    out = []
    fixed = lambda M: [dict(perm=list(range(M)), sgn=-1, k=0, c=0), dict(perm=list(range(M)), sgn=1, k=2, c=0),
                       dict(perm=list(range(M)), sgn=1, k=0, c=5), dict(perm=list(reversed(range(M))), sgn=1, k=-1, c=-3),
                       dict(perm=list(range(M)), sgn=1, k=-30, c=0), dict(perm=list(range(M)), sgn=1, k=30, c=0)]
    # every small chain
    shapes = [(1, 4, 3), (2, 4, 2)] if ctx.quick else [(1, 4, 3), (1, 5, 3), (1, 6, 3), (2, 4, 2), (2, 5, 2), (3, 4, 2), (1, 8, 2)]
    for (M, N, V) in shapes:
        for flat in itertools.product(range(V), repeat=M * N):
            out.append(dict(type="cd", chains=[list(flat[j * N:(j + 1) * N]) for j in range(M)], tfs=fixed(M), fam="small"))
    # seeded random chains: iid, trending, sticky, with ties
    for _ in range(250 if ctx.quick else 3000):
        M, N = rnd.randint(1, 4), rnd.randint(4, 16)
        style = rnd.choice(["iid", "walk", "trend", "few"])
        chains = []
        for j in range(M):
            if style == "iid":
                c = [rnd.randint(-8, 8) for _ in range(N)]
            elif style == "few":
                c = [rnd.randint(0, 2) for _ in range(N)]
            elif style == "trend":
                off = rnd.randint(-4, 4)
                c = [max(-8, min(8, off + (i * rnd.choice([0, 1])) // 2 + rnd.randint(-1, 1))) for i in range(N)]
            else:
                x, c = rnd.randint(-3, 3), []
                for _i in range(N):
                    x = max(-8, min(8, x + rnd.randint(-2, 2)))
                    c.append(x)
            chains.append(c)
        if cd_fits(chains):
            out.append(dict(type="cd", chains=chains, tfs=random_tfs(rnd, M, 4), fam="random"))
    return out


# ---------------------------------------------------------------------------------------------
# classification of the known finding (matches exactly its failing input class)
# ---------------------------------------------------------------------------------------------
def is_f30(sc, tr, v):
    """F30: the interval read raises TypeError on an object whose `samples` were turned into lists by an earlier
    Sample.save('*.json') - the live object after the save, or an object unpickled from a pickle written after it."""
    if v["verdict"] != "P:ci":
        return False
    i = v["l"] - 2          # l is the position after the failing event (1-based)
    if not (0 <= i < len(tr["events"])):
        return False
    e = tr["events"][i]
    if not (e["qres"] == "raise" and e["qexc"] == "TypeError" and e["rep"] == "list"):
        return False
    json_saved = False
    pkl_tainted = False
    for p in tr["events"][:i]:
        if p["ev"] == "save" and p["fmt"] == "json":
            json_saved = True
        if p["ev"] == "save" and p["fmt"] == "pkl":
            pkl_tainted = json_saved
    if e["ev"] == "attrs":
        return json_saved
    if e["ev"] == "load" and e["fmt"] == "pkl":
        return pkl_tainted
    return False


# ---------------------------------------------------------------------------------------------
def check_scenarios(ctx, scs):
    ro = [sc for sc in scs if sc["type"] == "ro"]
    cd = [sc for sc in scs if sc["type"] == "cd"]
    ro_tr = [record_ro(sc, ctx.outdir) for sc in ro] if HANGS[0] < 3 else []
    cd_tr = [record_cd(sc) for sc in cd]
    ro_v = ctx.validate("ResultObjects_Trace", ro_tr, chunk=max(100, (len(ro_tr) + 5) // 6), name="ro")
    cd_v = ctx.validate("ChainDiag_Trace", cd_tr, chunk=max(100, (len(cd_tr) + 5) // 6), name="cd")
    for sc, tr, v in zip(ro, ro_tr, ro_v):
        h = sc["history"]
        nontrivial = any(x.startswith("load") for x in h) or (sc["kind"] == "bolfi" and sc["warmup"] > 0) or len(sc["names"]) > 1
        ctx.case(("ro", sc["kind"], tuple(sc["names"]), tuple(sc["okeys"]), json.dumps(sc["ovals"]), tuple(sc["ws"]),
                  json.dumps(sc.get("chains", [])), sc.get("warmup", 0), tuple(h), json.dumps(sc["tab"], sort_keys=True)),
                 nontrivial=nontrivial)
        ctx.trace_events += len(tr["events"])
        if v["verdict"] != "ok":
            i = v["l"] - 2
            ctx.fail(v["verdict"], {k: w for k, w in sc.items() if k != "_k"},
                     detail=dict(at_event=i, event=tr["events"][i] if 0 <= i < len(tr["events"]) else None),
                     finding=F30 if is_f30(sc, tr, v) else None)
        elif v["drift"]:
            ctx.drifted(v["drift"], {k: w for k, w in sc.items() if k != "_k"})
    for sc, tr, v in zip(cd, cd_tr, cd_v):
        ctx.case(("cd", json.dumps(sc["chains"]), json.dumps(sc["tfs"])), nontrivial=len(sc["tfs"]) > 0)
        ctx.trace_events += len(tr["events"])
        if v["verdict"] != "ok":
            i = v["l"] - 2
            ctx.fail(v["verdict"], sc, detail=dict(at_event=i, event=tr["events"][i] if 0 <= i < len(tr["events"]) else None))
        elif v["drift"]:
            ctx.drifted(v["drift"], sc)
    return ro_tr, cd_tr


# ---------------------------------------------------------------------------------------------
# O1 configurations
# ---------------------------------------------------------------------------------------------
RO_ALL = ["ColumnOrder", "HoldsSample", "MeansDef", "IntervalsDef", "RoundTrip", "BolfiIsConcat"]


def ro_cfg(family, steps, inplace=False, sorted_ctor=False, fortran=False, woff=False, invs=RO_ALL):
    b = lambda x: "TRUE" if x else "FALSE"
    return ("SPECIFICATION Spec\nCONSTANTS\n  Ctors <- MCCtors\n  Family = \"%s\"\n  MaxSteps = %d\n  JsonInPlace = %s\n"
            "  SortedCtor = %s\n  Fortran = %s\n  WarmupOff = %s\nINVARIANTS %s\nCHECK_DEADLOCK FALSE\n"
            % (family, steps, b(inplace), b(sorted_ctor), b(fortran), b(woff), " ".join(invs)))


CD_ALL = ["RhatIsTextbook", "RhatClearedIsTextbook", "RhatInvariant", "EssClearedIsCode", "EssInvariant", "EssAtMostDraws"]


def cd_cfg(shapes, scales, variant="code", invs=CD_ALL):
    return ("SPECIFICATION Spec\nCONSTANTS\n  Shapes <- %s\n  Shifts <- MCShifts\n  Scales <- %s\n  Variant = \"%s\"\n"
            "INVARIANTS %s\nCHECK_DEADLOCK FALSE\n" % (shapes, scales, variant, " ".join(invs)))


def design_runs(ctx):
    q = ctx.quick
    ro_acts = ["Save", "Load"]
    cd_acts = ["Extend", "ShiftBy", "ScaleBy", "Reorder"]
    # -coverage slows these operator-heavy modules down 5-10x: the full runs go without it and a tiny run of
    # the same module (family "cov" / ShapesCov) demonstrates that every action is taken
    jobs = [
        # the code as it is: every clause except "intervals stay available after a JSON save"
        dict(module="MC_ResultObjects", cfg="MC_ResultObjects_ascoded", cfg_text=ro_cfg("quick" if q else "thorough", 3 if q else 4, inplace=True),
             coverage=False, workers=3 if q else 6, timeout=1500),
        dict(module="MC_ChainDiag", cfg="MC_ChainDiag_main", cfg_text=cd_cfg("ShapesQuick", "MCScalesQuick"),
             coverage=False, workers=3 if q else 2, timeout=1500),
        # the repaired design (the JSON save converts a copy): everything, incl. IntervalsAvailable
        dict(module="MC_ResultObjects", cfg="MC_ResultObjects_repaired", cfg_text=ro_cfg("neg" if q else "mid", 3, invs=RO_ALL + ["IntervalsAvailable"]),
             coverage=False, workers=2, timeout=1500),
        # negative controls
        dict(module="MC_ResultObjects", cfg="MC_ResultObjects_neg_F30_json_in_place", cfg_text=ro_cfg("neg", 3, inplace=True, invs=["IntervalsAvailable"]),
             expect_ok=False, workers=2, timeout=600),
        dict(module="MC_ResultObjects", cfg="MC_ResultObjects_neg_sorted_ctor", cfg_text=ro_cfg("neg", 1, sorted_ctor=True, invs=["ColumnOrder"]),
             expect_ok=False, workers=2, timeout=600),
        dict(module="MC_ResultObjects", cfg="MC_ResultObjects_neg_fortran", cfg_text=ro_cfg("neg", 1, fortran=True, invs=["BolfiIsConcat"]),
             expect_ok=False, workers=2, timeout=600),
        dict(module="MC_ResultObjects", cfg="MC_ResultObjects_neg_warmup_off", cfg_text=ro_cfg("neg", 1, woff=True, invs=["HoldsSample"]),
             expect_ok=False, workers=2, timeout=600),
        dict(module="MC_ChainDiag", cfg="MC_ChainDiag_neg_ddof0", cfg_text=cd_cfg("ShapesNeg", "MCScalesQuick", "ddof0", ["RhatIsTextbook"]),
             expect_ok=False, workers=2, timeout=600),
        dict(module="MC_ChainDiag", cfg="MC_ChainDiag_neg_uncentered", cfg_text=cd_cfg("ShapesNeg", "MCScalesQuick", "uncentered", ["EssInvariant"]),
             expect_ok=False, workers=2, timeout=600),
        dict(module="MC_ChainDiag", cfg="MC_ChainDiag_actions", cfg_text=cd_cfg("ShapesCov", "MCScalesQuick", invs=["RhatInvariant"]),
             expect_actions=cd_acts, workers=1, timeout=600),
        dict(module="MC_ResultObjects", cfg="MC_ResultObjects_actions", cfg_text=ro_cfg("cov", 2, inplace=True),
             expect_actions=ro_acts, workers=1, timeout=600),
    ]
    if not q:
        jobs += [
            dict(module="MC_ChainDiag", cfg="MC_ChainDiag_mid", cfg_text=cd_cfg("ShapesMid", "MCScales"),
                 coverage=False, workers=6, timeout=3000),
            dict(module="MC_ChainDiag", cfg="MC_ChainDiag_neg_nosplit", cfg_text=cd_cfg("ShapesNeg", "MCScalesQuick", "nosplit", ["RhatIsTextbook"]),
                 expect_ok=False, workers=2, timeout=600),
            dict(module="MC_ChainDiag", cfg="MC_ChainDiag_neg_firstchain", cfg_text=cd_cfg("ShapesNeg", "MCScalesQuick", "firstchain", ["EssInvariant"]),
                 expect_ok=False, workers=2, timeout=600),
        ]
    # at most 8 TLC workers at any time: the first jobs are the big ones
    def one(j):
        j = dict(j)
        return ctx.tlc(j.pop("module"), j.pop("cfg"), **j)
    for j in jobs:
        if j.get("expect_ok") is False:
            j["coverage"] = False
    if q:
        groups = [jobs[0:3], jobs[3:7], jobs[7:11]]
    else:
        groups = [[jobs[0], jobs[1]], [jobs[11], jobs[2]], jobs[3:7], jobs[7:11], jobs[12:14]]
    for g in groups:
        with concurrent.futures.ThreadPoolExecutor(max_workers=len(g)) as ex:
            for r in ex.map(one, g):
                pass
    # the accumulators of ctx are not thread safe: recompute them from the per-run records
    ctx.states = sum(r.get("distinct", 0) for r in ctx.tlc_runs)
    ctx.transitions = sum(r.get("generated", 0) for r in ctx.tlc_runs)


def run(ctx):
    ctx.rule = ("result objects: every save/read-back history (csv, json, pkl) of length <= 3 (thorough 4) over a Sample, a weighted Sample, "
                "an SmcSample and a BolfiSample; every order of 1-3 parameter names against shuffled outputs with 0-4 rows; every BOLFI shape "
                "(chains <= 3/4, length <= 4/6, parameters <= 3) x every warm-up 0..length; seeded random objects (id / dyadic / arbitrary-double "
                "value tables, int dtype, dyadic and boundary weights) with random histories.  chain diagnostics: every chain of shapes "
                "1x4 over {0,1,2}, 2x4 over {0,1} (thorough: up to 1x8, 3x4) and seeded random integer chains (<= 4 x 16, values -8..8; iid, random "
                "walk, trend, few values), each also under negation, powers of two, integer shifts and chain permutations.  Non-trivial = a "
                "read-back / several parameters / positive warm-up; at least one transformed call.")
    ctx.clauses_decided = ["a: parameter columns in parameter-name order (samples dict, samples_array; live and unpickled objects)",
                           "b: means = weighted averages (arithmetic tables, 1e-6), interval ends = weighted 2.5% / 97.5% quantiles (definition, ids)",
                           "c: BOLFI sample = each chain minus exactly the warm-up prefix, chain by chain",
                           "d: pickle / JSON / CSV round trip yields the same samples (ids by exact table lookup; arbitrary finite doubles)",
                           "e: split R-hat = BDA3 11.4 on integer chains (5e-8); R-hat and ESS invariant under exact affine maps and chain reordering"]
    ctx.clauses_not_decided = ["e: ESS 'equals its textbook formula' is an M: clause (DESIGN 5/C16 scope decision: several textbook estimators); "
                               "affine maps that are not exact in floating point; ESS on chains where a truncation test is exactly 0",
                               "b: means on arbitrary doubles (only on id * 2^-sh tables); multivariate (2-D) parameter columns are outside the domain"]
    ctx.assumptions.append("reading back = csv.reader / json.load / pickle.load (elfi has no loader of its own for these files)")
    ctx.trusted_base.append("python csv / json / pickle parsers; Fraction for the exact floor of a float")
    design_runs(ctx)
    rnd = random.Random(ctx.seed)
    scs = ro_scenarios(ctx, rnd) + cd_scenarios(ctx, rnd)
    ro_tr, cd_tr = check_scenarios(ctx, scs)
    ctx.states = sum(r.get("distinct", 0) for r in ctx.tlc_runs)
    ctx.transitions = sum(r.get("generated", 0) for r in ctx.tlc_runs)
    ctx.exhaustive = True
    fam = {}
    for sc in scs:
        fam[sc["fam"]] = fam.get(sc["fam"], 0) + 1
    ctx.notes.append("scenario families: " + ", ".join("%s=%d" % kv for kv in sorted(fam.items())))
    ctx.notes.append("F30: Sample.save('x.json') turns the live object's samples into lists (numpy_to_python_type converts the object's own "
                     "dict in place); sample_means_and_95CIs / sample_quantiles then raise TypeError.  Proposed repair: proposed_fixes/F30.diff")
    if ro_tr:
        k = next((i for i, t in enumerate(ro_tr) if t["kind"] == "bolfi"), 0)
        for i in (0, k):
            t = ro_tr[i]
            ctx.sample(dict(kind=t["kind"], names=t["names"], okeys=t["okeys"], ovals=t["ovals"], ws=t["ws"], chains=t["chains"],
                            warmup=t["warmup"], events=[{f: e[f] for f in ("ev", "fmt", "res", "skeys", "svals", "arr", "means", "lo", "hi", "qres", "fkeys", "fvals") if e[f] not in ([], "")}
                                                        for e in t["events"]]))
    if cd_tr:
        ctx.sample(cd_tr[len(cd_tr) - 1])


def replay(ctx, scenario):
    check_scenarios(ctx, [scenario])

"""EXTENSION (no listed property): the BOLFI / BayesianOptimization PUBLIC CALL PIPELINE as a state machine
(elfi/methods/inference/bolfi.py on top of ParameterInference.infer / iterate): several public calls on ONE object.

O1: BolfiPipeline.tla - one pure operator per stage of a public call (set_objective, iterate, extract_result, extract_posterior,
    the embedded fit / algorithm check / start-point scan / chains of sample), sequenced as __init__ / set_objective / iterate /
    infer / fit / extract_posterior / extract_result / sample run them.  The user-level invariants (evidence bookkeeping, evidence
    append-only, every acquisition saw all earlier evidence, the evidence is a function of the seed and the number of batches
    whatever was called in between, an extracted posterior is a snapshot, is_sampling only inside sample, acquisitions on an
    optimised GP, a call returns or is refused, a refused call changes nothing, fit reaches the requested evidence, the sample has
    n_chains * (n_samples - warmup) rows, warmup respected, n_samples includes warmup, n_sim reported = simulations run) are
    checked exhaustively on the REPAIRED machine (nine repairs), and TLC refutes one of them when any one repair is left out (nine
    negative controls = nine findings about the real pipeline).  For the code as transcribed (no repair) TLC checks what does hold.
O3: pinned and seeded-random histories of public calls on real BOLFI objects (recording subclass: the overrides of the public
    methods only note that they were entered; logging wrappers around acquire / optimize / mcmc.nuts / mcmc.metropolis), several
    objects per history (same seed twins, other seeds in between).  BolfiPipeline_Trace.tla replays every history with the
    design's Run and compares counters, queue, objective, flags, which acquisition produced which batch and what the GP was then,
    what the call returned, which GP every posterior handed out sees, and the outcome after every call; it evaluates the user-level
    invariants on the observed states.
All failures are E: clauses, reported as drift (extension beyond the listed properties).
"""
import contextlib
import copy
import io
import logging
import math
import os
import random
import threading
import warnings

import numpy as np

from harness import tlc
from harness.util import Hang, time_limit

ALL_FIXES = ["posterior_snapshot", "sampling_flag_reset", "arguments_checked_first", "init_scan_checked", "empty_result_refused", "warmup_zero",
             "metropolis_total", "sample_reports_n_sim", "optimise_at_initial"]
CALL_LIMIT_S = 90
BOUNDS = (-1.0, 2.0)
SIMROWS = {}          # object key -> rows the simulator received (the operations' own record)


# ------------------------------------------------------------------------------ tiny models
class Sim:
    """(t - 0.5)^2 [+ (t2 + 0.2)^2] + small noise; logs the parameter rows it receives under its key"""

    def __init__(self, key, dim):
        self.key = key
        self.dim = dim
        self.__name__ = "sim"

    def __call__(self, *params, batch_size=1, random_state=None):
        cols = [np.asarray(p, dtype=float).reshape(-1) for p in params]
        y = (cols[0] - 0.5) ** 2 + 0.05 * random_state.normal(size=batch_size)
        if self.dim == 2:
            y = y + (cols[1] + 0.2) ** 2
        for r in range(batch_size):
            SIMROWS.setdefault(self.key, []).append([float(c[r]) for c in cols])
        return y


def names_of(dim):
    return ["t"] if dim == 1 else ["t1", "t2"]


def build_model(key, dim):
    import elfi
    m = elfi.ElfiModel(name="xbolfi")
    for n in names_of(dim):
        elfi.Prior("uniform", BOUNDS[0], BOUNDS[1] - BOUNDS[0], model=m, name=n)
    elfi.Simulator(Sim(key, dim), *[m[n] for n in names_of(dim)], model=m, name="y", observed=np.array([0.0]))
    elfi.Distance("euclidean", m["y"], model=m, name="d")
    return m


Rec = None


def rec_class():
    """recording subclass of BOLFI: the overrides only note that the public method was entered / which batch was prepared"""
    global Rec
    if Rec is not None:
        return Rec
    from elfi.methods.inference.bolfi import BOLFI

    class _Rec(BOLFI):
        x_stages = None
        x_bats = None

        def _note(self, name):
            if self.x_stages is not None:
                self.x_stages.append(name)

        def set_objective(self, *a, **k):
            self._note("set_objective")
            return super().set_objective(*a, **k)

        def iterate(self, *a, **k):
            self._note("iterate")
            return super().iterate(*a, **k)

        def infer(self, *a, **k):
            self._note("infer")
            return super().infer(*a, **k)

        def fit(self, *a, **k):
            self._note("fit")
            return super().fit(*a, **k)

        def extract_posterior(self, *a, **k):
            self._note("extract_posterior")
            return super().extract_posterior(*a, **k)

        def extract_result(self, *a, **k):
            self._note("extract_result")
            return super().extract_result(*a, **k)

        def sample(self, *a, **k):
            self._note("sample")
            return super().sample(*a, **k)

        def prepare_new_batch(self, batch_index):
            if self.x_bats is not None:
                self.x_bats.append(dict(i=int(batch_index), t=int(self._get_acquisition_index(batch_index))))
            return super().prepare_new_batch(batch_index)

    _Rec.__name__ = _Rec.__qualname__ = "Rec"
    Rec = _Rec
    return Rec


def precomputed(oc, dim):
    rs = np.random.RandomState(1000 + oc["seed"])
    n = oc["ie"][1]
    pre = {nm: rs.uniform(BOUNDS[0] + 0.2, BOUNDS[1] - 0.2, size=n) for nm in names_of(dim)}
    d = (pre[names_of(dim)[0]] - 0.5) ** 2
    if dim == 2:
        d = d + (pre["t2"] + 0.2) ** 2
    pre["d"] = d + 0.01
    return pre


def construct(oc, key, dim):
    """BOLFI(...) exactly as a user would build it (cheap=True: explicit target_model / acquisition_method with small optimiser budgets)"""
    rec_class()
    m = build_model(key, dim)
    bounds = {n: BOUNDS for n in names_of(dim)}
    kind, n = oc["ie"]
    ie = None if kind == "none" else (int(n) if kind == "int" else precomputed(oc, dim))
    kw = {}
    if oc.get("cheap", True):
        from elfi.methods.bo.acquisition import LCBSC
        from elfi.methods.bo.gpy_regression import GPyRegression
        from elfi.model.extensions import ModelPrior
        tm = GPyRegression(names_of(dim), bounds=bounds, max_opt_iters=3)
        kw = dict(target_model=tm, acquisition_method=LCBSC(tm, prior=ModelPrior(m), noise_var=0, exploration_rate=10, seed=oc["seed"], n_inits=2,
                                                            max_opt_iters=30))
    b = Rec(m["d"], bounds=bounds, initial_evidence=ie, update_interval=oc["upd"], batch_size=oc["bs"], batches_per_acquisition=oc["bpa"],
            max_parallel_batches=1, seed=oc["seed"], **kw)
    b.x_nopt = 0
    b.x_acqs = []
    orig_acq = b.acquisition_method.acquire
    orig_opt = b.target_model.optimize

    def acquire(n, t=None):
        b.x_acqs.append(dict(i=int(b.batches.next_index), t=int(t) if t is not None else -1, n=int(n), seen=int(b.target_model.n_evidence),
                             opt=int(b.x_nopt), smp=bool(b.target_model.is_sampling)))
        return orig_acq(n, t=t)

    def optimize():
        b.x_nopt += 1
        return orig_opt()

    b.acquisition_method.acquire = acquire
    b.target_model.optimize = optimize
    return b


# ------------------------------------------------------------------------------ recording
@contextlib.contextmanager
def quiet():
    lg = logging.getLogger("elfi")
    old = lg.level
    lg.setLevel(logging.CRITICAL)
    try:
        with contextlib.redirect_stdout(io.StringIO()), warnings.catch_warnings(), np.errstate(all="ignore"):
            warnings.simplefilter("ignore")
            yield
    finally:
        lg.setLevel(old)


CHAINS = []


@contextlib.contextmanager
def logged_samplers():
    """mcmc.nuts / mcmc.metropolis wrapped: what they were asked for, how many iterations they ran, how many rows came back"""
    import elfi.methods.mcmc as mcmc
    on, om = mcmc.nuts, mcmc.metropolis

    def nuts(n_iter, params0, target, grad_target, *a, **k):
        r = on(n_iter, params0, target, grad_target, *a, **k)
        CHAINS.append(dict(alg="nuts", asked=int(n_iter), iters=int(len(r)), rows=int(len(r)), seed=k.get("seed")))
        return r

    def metropolis(n_samples, params0, target, *a, **k):
        cnt = [0]

        def tgt(x):
            cnt[0] += 1
            return target(x)
        r = om(n_samples, params0, tgt, *a, **k)
        CHAINS.append(dict(alg="metropolis", asked=int(n_samples), iters=int(cnt[0] - 1), rows=int(len(r)), seed=k.get("seed")))
        return r
    mcmc.nuts, mcmc.metropolis = nuts, metropolis
    try:
        yield
    finally:
        mcmc.nuts, mcmc.metropolis = on, om


def fx6(x):
    try:
        x = float(np.ravel(x)[0]) if np.size(x) == 1 else float(x)
    except Exception:
        return 2000000000
    if not math.isfinite(x):
        return 2000000000 if not x < 0 else -2000000000
    return int(max(-2000000000, min(2000000000, round(x * 1e6))))


def close(a, b, rel=1e-9):
    a, b = float(np.ravel(a)[0]), float(np.ravel(b)[0])
    if not (math.isfinite(a) and math.isfinite(b)):
        return a == b or (math.isnan(a) and math.isnan(b))
    return abs(a - b) <= rel * (1.0 + abs(a))


def probe(dim):
    return np.array([0.3] if dim == 1 else [0.3, 0.6])


def gp_view(model, dim):
    """what a posterior's surrogate predicts (mean and variance) on five points across the bounds"""
    pts = np.linspace(BOUNDS[0] + 0.1, BOUNDS[1] - 0.1, 5)[:, None] * np.ones((1, dim))
    out = []
    for x in pts:          # one point at a time (with is_sampling set, predict returns a full covariance matrix for several points)
        mu, var = model.predict(x[None, :])
        out += [float(np.ravel(mu)[0]), float(np.ravel(var)[0])]
    return np.array(out)


def close_all(a, b):
    # (1e-6: the surrogate predicts through another code path while is_sampling is set; a new evidence point moves these by far more)
    return bool(len(a) == len(b) and all(close(x, y, 1e-6) for x, y in zip(a, b)))


def gp_minima(b, dim):
    """ORACLE: minimum of the GP mean on a fine grid over the bounds, and over the evidence points"""
    tm = b.target_model
    if tm.n_evidence == 0:
        return 0, 0
    X = np.asarray(tm.X, dtype=float)
    if dim == 1:
        grid = np.linspace(BOUNDS[0], BOUNDS[1], 2001)[:, None]
    else:
        g = np.linspace(BOUNDS[0], BOUNDS[1], 61)
        grid = np.array([[u, v] for u in g for v in g])
    pts = np.vstack([grid, X])
    vals = np.ravel(tm.predict_mean(pts))
    gm = float(np.min(vals))
    if dim == 2:          # second level: a fine grid around the best coarse point
        c = pts[int(np.argmin(vals))]
        h = (BOUNDS[1] - BOUNDS[0]) / 60
        u = np.clip(np.linspace(c[0] - h, c[0] + h, 41), BOUNDS[0], BOUNDS[1])
        v = np.clip(np.linspace(c[1] - h, c[1] + h, 41), BOUNDS[0], BOUNDS[1])
        gm = min(gm, float(np.min(tm.predict_mean(np.array([[a, b] for a in u for b in v])))))
    em = float(np.min(tm.predict_mean(X)))
    return fx6(gm), fx6(em)


def fresh_posterior(b, threshold):
    from elfi.methods.posteriors import BolfiPosterior
    from elfi.model.extensions import ModelPrior
    return BolfiPosterior(b.target_model, threshold=threshold, prior=ModelPrior(b.model, parameter_names=b.target_model.parameter_names))


def start_points_finite(b, thr):
    """ORACLE for the start-point scan of sample(): which evidence points, best first, have a finite log posterior"""
    tm = b.target_model
    if tm.n_evidence == 0:
        return []
    post = fresh_posterior(b, thr)
    inds = np.argsort(tm.Y[:, 0])
    return [bool(not np.isinf(np.ravel(post.logpdf(np.asarray(tm.X[i])))[0])) for i in inds]


DEF_OUT = dict(kind="none", rows=0, warm=0, nch=0, iters=[], nsim=0, nbat=0, shape=[0, 0, 0], othr=0, gmin=0, emin=0, xmin_ok=True, seeds_ok=True)


def observe(b, key, dim):
    tm = b.target_model
    X = np.asarray(tm.X, dtype=float).reshape(-1, dim) if tm.n_evidence else np.zeros((0, dim))
    return dict(nb=int(b.state["n_batches"]), nsim=int(b.state["n_sim"]), nev=int(b.state["n_evidence"]), gp=int(tm.n_evidence),
                last=int(b.state["last_GP_update"]), q=int(len(b.state["acquisition"])), objset="n_evidence" in b.objective,
                on=int(b.objective.get("n_evidence", 0)), osim=int(b.objective.get("n_sim", 0)), nx=int(b.batches.next_index),
                smp=bool(tm.is_sampling), nopt=int(b.x_nopt), ninit=int(b.n_initial_evidence), npre=int(b.n_precomputed_evidence),
                xs=[[fx6(v) for v in row] for row in X], sims=len(SIMROWS.get(key, [])),
                simx=[[fx6(v) for v in row] for row in SIMROWS.get(key, [])])


def blank_event(o, grp, m):
    return dict(o=o, grp=grp, m=m, n=-1, thr="none", thrv=0, ns=0, warm=-1, nch=0, alg="nuts", ini="none", iek="int", ien=0, bs=1, upd=1, bpa=1,
                dim=1, fin=[], raised="", msg="", stages=[], nb=0, nsim=0, nev=0, gp=0, last=0, q=0, objset=False, on=0, osim=0, nx=0, smp=False,
                nopt=0, ninit=0, npre=0, acqs=[], bats=[], xs=[], sims=0, simx=[], out=dict(DEF_OUT), posts=[])


def user_initials(b, kind, nch, dim):
    tm = b.target_model
    if kind == "shape":
        return np.zeros((nch + 1, dim))
    X = np.asarray(tm.X, dtype=float).reshape(-1, dim)
    rows = [X[i % len(X)] for i in range(nch)]
    if kind == "bad":
        rows[0] = np.full(dim, BOUNDS[1] + 3.0)          # outside the prior's support: log posterior -inf
    return np.array(rows)


def record(sc):
    import elfi.client
    import elfi.clients.native as native
    old_client = elfi.client._client
    elfi.client.set_client(native.Client())
    dim = sc["dim"]
    events = []
    objs = {}
    held = {}
    tag = "%x" % random.Random(str(sc)).getrandbits(48)
    try:
        for ci, c in enumerate(sc["calls"]):
            o = c["o"]
            oc = sc["objs"][o - 1]
            key = "%s/%d" % (tag, o)
            e = blank_event(o, oc["grp"], c["m"])
            e.update(iek=oc["ie"][0], ien=int(oc["ie"][1]), bs=oc["bs"], upd=oc["upd"], bpa=oc["bpa"], dim=dim)
            if c["m"] == "init":
                SIMROWS[key] = []
                try:
                    with quiet(), time_limit(CALL_LIMIT_S):
                        objs[o] = construct(oc, key, dim)
                        held[o] = []
                except Hang:
                    e["raised"] = "Hang"
                except Exception as ex:
                    e["raised"] = type(ex).__name__
                    e["msg"] = str(ex)[:23]
                if o in objs:
                    e.update(observe(objs[o], key, dim))
                events.append(e)
                continue
            b = objs[o]
            m = c["m"]
            n = c.get("n")
            thr = c.get("thr")
            e.update(n=-1 if n is None else int(n), thr="none" if thr is None else "given", thrv=0 if thr is None else fx6(thr),
                     ns=int(c.get("ns", 0)), warm=-1 if c.get("warm") is None else int(c["warm"]), nch=int(c.get("nch", 0)),
                     alg=c.get("alg", "nuts"), ini=c.get("ini", "none"))
            b.x_stages = e["stages"]
            b.x_bats = e["bats"]
            b.x_acqs = e["acqs"]
            del CHAINS[:]
            ret = None
            np.random.seed(77 + ci)          # the pipeline must not depend on the global generator
            try:
                with quiet(), time_limit(CALL_LIMIT_S), logged_samplers():
                    if m == "set_objective":
                        ret = b.set_objective(n) if n is not None else b.set_objective()
                    elif m == "iterate":
                        ret = b.iterate()
                    elif m == "infer":
                        ret = b.infer(n, bar=False) if n is not None else b.infer(bar=False)
                    elif m == "fit":
                        ret = b.fit(n, threshold=thr, bar=False)
                    elif m == "extract_posterior":
                        ret = b.extract_posterior(thr) if thr is not None else b.extract_posterior()
                    elif m == "extract_result":
                        ret = b.extract_result()
                    elif m == "sample":
                        kw = dict(n_chains=e["nch"], threshold=thr, algorithm=e["alg"], n_evidence=n)
                        if c.get("warm") is not None:
                            kw["warmup"] = c["warm"]
                        if e["ini"] != "none":
                            if b.state["n_batches"] == 0 and n is not None:
                                raise RuntimeError("scenario: user initials need a fitted object")
                            kw["initials"] = user_initials(b, e["ini"], e["nch"], dim)
                        ret = b.sample(e["ns"], **kw)
                    else:
                        raise RuntimeError("unknown method in scenario: %r" % m)
            except Hang:
                e["raised"] = "Hang"
            except Exception as ex:
                e["raised"] = type(ex).__name__
                e["msg"] = str(ex)[:23]
            b.x_stages = b.x_bats = None
            b.x_acqs = []
            with quiet():
                e.update(observe(b, key, dim))
                out = dict(DEF_OUT)
                cls = type(ret).__name__
                if cls == "BolfiPosterior":
                    gm, em = gp_minima(b, dim) if thr is None else (0, 0)
                    out.update(kind="posterior", othr=fx6(ret.threshold), gmin=gm, emin=em)
                    held[o].append(dict(P=ret, at=int(b.target_model.n_evidence), thr0=fx6(ret.threshold), view0=gp_view(ret.model, dim)))
                elif cls == "OptimizationResult":
                    xm = np.array([float(np.ravel(ret.x_min[nm])[0]) for nm in b.target_model.parameter_names])
                    gm, em = gp_minima(b, dim)
                    inside = bool(np.all(xm >= BOUNDS[0] - 1e-9) and np.all(xm <= BOUNDS[1] + 1e-9))
                    at_min = float(np.ravel(b.target_model.predict_mean(xm[None, :]))[0])
                    out.update(kind="optres", rows=int(len(ret.outputs[b.target_model.parameter_names[0]])), nsim=int(ret.meta["n_sim"]),
                               nbat=int(ret.meta["n_batches"]), xmin_ok=bool(inside and fx6(at_min) <= em + 100),
                               gmin=gm, emin=em)
                    if len(ret.outputs["d"]) != out["rows"]:
                        out["rows"] = -1
                elif cls == "BolfiSample":
                    from elfi.loader import get_sub_seed
                    gm, em = gp_minima(b, dim) if thr is None else (0, 0)
                    out.update(kind="sample", rows=int(ret.n_samples), warm=int(ret.warmup), nch=int(ret.n_chains), iters=[int(ch["iters"]) for ch in CHAINS],
                               nsim=int(ret.n_sim), shape=[int(v) for v in np.shape(ret.chains)], othr=fx6(ret.threshold), gmin=gm, emin=em,
                               seeds_ok=bool(len(CHAINS) == ret.n_chains and all(ch["seed"] == get_sub_seed(b.seed, i) for i, ch in enumerate(CHAINS))
                                             and all(ch["rows"] == e["ns"] and ch["alg"] == e["alg"] for ch in CHAINS)))
                e["out"] = out
                if m == "sample":
                    try:
                        e["fin"] = start_points_finite(b, thr)
                    except Exception:
                        e["fin"] = []
                for h in held[o][-2:]:
                    P = h["P"]
                    view = gp_view(P.model, dim)
                    e["posts"].append(dict(at=h["at"], sees=int(P.model.n_evidence), thr0=h["thr0"], thr=fx6(P.threshold), same=close_all(view, h["view0"]),
                                           live=bool(close_all(view, gp_view(b.target_model, dim)) and
                                                     close(P.logpdf(probe(dim)), fresh_posterior(b, P.threshold).logpdf(probe(dim)), 1e-6))))
            events.append(e)
    finally:
        elfi.client.set_client(old_client)
        for k in [k for k in SIMROWS if k.startswith(tag + "/")]:
            SIMROWS.pop(k, None)
    return dict(nobj=len(sc["objs"]), dim=dim, events=events)


# ------------------------------------------------------------------------------ scenarios
def O(ie=("int", 4), bs=1, upd=100, bpa=1, seed=3, cheap=True, grp=None):
    return dict(ie=list(ie), bs=bs, upd=upd, bpa=bpa, seed=seed, cheap=cheap, grp=grp)


def S(objs, calls, dim=1, pin=None):
    objs = [dict(oc) for oc in objs]
    for k, oc in enumerate(objs):
        if oc["grp"] is None:
            oc["grp"] = 100 + k
    return dict(objs=objs, calls=calls, dim=dim, pin=pin)


def init(o=1):
    return dict(o=o, m="init")


def fit(n, thr=None, o=1):
    return dict(o=o, m="fit", n=n, thr=thr)


def infer(n=None, o=1):
    return dict(o=o, m="infer", n=n)


def setobj(n=None, o=1):
    return dict(o=o, m="set_objective", n=n)


def it(o=1):
    return dict(o=o, m="iterate")


def xpost(thr=None, o=1):
    return dict(o=o, m="extract_posterior", thr=thr)


def xres(o=1):
    return dict(o=o, m="extract_result")


def smp(ns=6, nch=2, alg="metropolis", warm=None, thr=None, n=None, ini="none", o=1):
    return dict(o=o, m="sample", ns=ns, nch=nch, alg=alg, warm=warm, thr=thr, n=n, ini=ini)


def pinned(quick=True):
    """one deterministic history per behaviour / finding (reproduced on every run, whatever the seed)"""
    A = O(ie=("int", 3), seed=3, grp=1)
    out = [
        S([O()], [init(), fit(6), xpost(0.25), xres(), smp(6, 2, "metropolis"), smp(6, 2, "nuts"), fit(8), smp(6, 2, "metropolis", thr=0.25), smp(6, 2, "metropolis", thr=0.25)],
          pin="straight path: fit, extract, sample twice, further fit, sample again; metropolis runs n_samples + warmup iterations"),
        S([O()], [init(), fit(5), fit(7), fit(5), infer(7), infer(), setobj(8), it(), it(), setobj(), infer(3)],
          pin="continued fit adds exactly the missing evidence; a smaller n_evidence does nothing; iterate past the objective is refused"),
        S([O(ie=("int", 3), bs=2, bpa=2)], [init(), fit(5), fit(6), fit(7), xres()],
          pin="batch_size 2: initial evidence 3 is rounded up to 4, fit(5) collects 6, fit(6) nothing, fit(7) collects 8"),
        S([O(ie=("dict", 3))], [init(), xpost(), smp(6, 2), fit(2), fit(5), smp(6, 2), xres()],
          pin="precomputed evidence: a posterior before any fit, sample() still asks for n_evidence, n_evidence below the precomputed "
              "count does nothing, BolfiSample.n_sim counts the precomputed evidence"),
        S([O()], [init(), xpost(), xres(), smp(6, 2), it(), infer(0), fit(None), infer(), smp(6, 2, alg="bogus", n=4), smp(6, 2, alg="bogus")],
          pin="fresh object: extract_posterior / sample / iterate / fit(None) refused; extract_result and infer(0) AttributeError; an unknown "
              "algorithm is rejected only after the fit that sample(n_evidence=...) embeds"),
        S([O(ie=("int", 3))], [init(), fit(3, 0.25), fit(5, 0.25), xpost(), fit(6)],
          pin="aliasing: a later fit changes the posteriors already handed out (they hold the live target_model; threshold frozen)"),
        S([A, A], [init(1), init(2), fit(3, o=1), fit(3, o=2), smp(6, 4, o=1), fit(6, o=1), fit(6, o=2)],
          pin="sample() with more chains than evidence: IndexError, target_model.is_sampling stays True, the next fit acquires other points "
              "than the same-seed twin that did not call sample()"),
        S([O()], [init(), fit(5, 0.25), smp(6, 2, warm=0, thr=0.25), smp(6, 2, warm=6, thr=0.25), smp(7, 1, warm=2, alg="nuts", thr=0.25), smp(1, 2, thr=0.25),
                  smp(6, 2, ini="ok", thr=0.25), smp(6, 2, ini="shape", thr=0.25), smp(6, 1, ini="bad", thr=0.25), fit(6, 0.25)],
          pin="warmup=0 is replaced by n_samples // 2; warmup = n_samples gives an empty sample; user initials: accepted / wrong shape refused / "
              "a rejected start point raises UnboundLocalError (inds) and leaves is_sampling True"),
        S([O(ie=("int", 2), upd=2, bpa=2)], [init(), fit(3), fit(6), fit(8), xres()],
          pin="update_interval 2: first optimisation at 4 rows (not at 2); batches_per_acquisition 2: the queue keeps a point between calls"),
        S([O(ie=("none", 0)), O(ie=("int", 0), upd=1), O(ie=("int", -1))], [init(1), fit(3, o=1), fit(5, o=1), init(2), fit(3, o=2), init(3)],
          pin="initial_evidence None = 10: n_evidence below it draws everything from the prior; 0: acquisition on an empty GP; negative refused"),
        S([A, O(ie=("int", 3), seed=8), A, A], [init(1), init(2), fit(3, o=1), fit(4, o=2), init(3), smp(6, 2, o=2), fit(3, o=3), fit(6, 0.25, o=1), init(4), xpost(0.25, o=3),
                                               fit(6, 0.25, o=3), fit(6, 0.25, o=4)],
          pin="same seed, same calls, other objects in between: same evidence; fit(3); fit(6) collects the evidence of fit(6)"),
    ]
    if not quick:
        out += [
            S([O(cheap=False, ie=("int", 3))], [init(), fit(4), smp(6, 2), xres()], pin="default target_model and acquisition_method"),
            S([O(ie=("int", 3))], [init(), fit(4), smp(6, 2, ini="ok"), xres(), fit(5, 0.25)], dim=2, pin="two parameters"),
        ]
    return out


def random_scenario(rnd, i):
    dim = 2 if i % 9 == 7 else 1
    kind = rnd.choice(["int", "int", "int", "dict", "none"])
    bs = rnd.choice([1, 1, 2, 3])
    ien = 0 if kind == "none" else (rnd.randint(1, 4) if kind == "dict" else rnd.randint(0, 5))
    oc = O(ie=(kind, ien), bs=bs, upd=rnd.choice([1, 2, 3, 100]), bpa=rnd.choice([1, 1, 2]), seed=rnd.randint(0, 10 ** 6), grp=1)
    twin = rnd.random() < 0.35
    objs = [oc, dict(oc)] if twin else [oc]
    calls = [init(1)]
    top = 6 if dim == 2 else 9
    seq = []
    fitted = kind == "dict"
    ran = False
    for _j in range(rnd.randint(3, 6)):
        ws = [("fit", 3.5 if not ran else 2), ("infer", 1), ("set_objective", 0.5), ("iterate", 0.7), ("extract_posterior", 1), ("extract_result", 0.8),
              ("sample", 0.6 if not ran else 2.5)]
        m = rnd.choices([w[0] for w in ws], [w[1] for w in ws])[0]
        n = rnd.choice([None, rnd.randint(0, top), rnd.randint(2, top)]) if m != "fit" else rnd.choice([rnd.randint(0, top), rnd.randint(2, top)])
        thr = rnd.choice([None, 0.25, 0.5])
        if m == "fit":
            seq.append(fit(n, thr))
            ran = ran or (n is not None and n > (ien if kind == "dict" else 0))
            fitted = fitted or ran
        elif m == "infer":
            seq.append(infer(n))
            ran = ran or (n is not None and n > (ien if kind == "dict" else 0))
            fitted = fitted or ran
        elif m == "set_objective":
            seq.append(setobj(n))
        elif m == "iterate":
            seq.append(it())
        elif m == "extract_posterior":
            seq.append(xpost(thr))
        elif m == "extract_result":
            seq.append(xres())
        else:
            alg = rnd.choices(["metropolis", "nuts", "bogus"], [6, 1.5, 0.7])[0]
            ns = rnd.randint(2, 8)
            warm = rnd.choice([None, None, 0, 1, ns // 2])
            if alg == "nuts":
                ns, warm = max(ns, 4), rnd.choice([None, 2])
            ini = "none" if not ran else rnd.choices(["none", "ok", "bad", "shape"], [6, 1, 0.7, 0.7])[0]
            seq.append(smp(ns, rnd.choice([1, 2, 2, 3, 4]), alg, warm, thr, None if ran else rnd.choice([None, rnd.randint(1, top)]), ini))
            if not ran and seq[-1]["n"] is not None:
                ran = fitted = True
    if twin:
        calls.append(init(2))
        a = [dict(c, o=1) for c in seq]
        b2 = [dict(c, o=2) for c in seq]
        while a or b2:          # a random interleaving of the two identical call sequences
            src = a if (a and (not b2 or rnd.random() < 0.5)) else b2
            calls.append(src.pop(0))
    else:
        calls += seq
    return S(objs, calls, dim=dim)


def scenarios(ctx):
    rnd = random.Random(ctx.seed * 6151 + 977)
    n_random = 3 if ctx.quick else 45
    return pinned(ctx.quick) + [random_scenario(rnd, i) for i in range(n_random)]


# ------------------------------------------------------------------------------ design check
INV_USER = ["Counts", "AcqSeesAll", "SplitIndependent", "PosteriorSnapshot", "NotSamplingOutside", "AcqOnOptimisedGP", "OnlyRefusals", "SampleRows",
            "WarmupRespected", "NSamplesIncludesWarmup", "ReportedNSim", "RefusedChangesNothing", "FitReaches"]
INV_MACHINE = ["StagewiseEqualsComposed", "ReadOnlyChangesNothing"]
INV_CODE = ["Counts", "AcqSeesAll", "SampleRows", "FitReaches", "LastSane"]
ACTIONS = ["CallSetObjective", "CallIterate", "CallInfer", "CallFit", "CallExtractPosterior", "CallExtractResult", "CallSample", "IterateStage",
           "SetObjectiveStage", "ExtractResultStage", "ExtractPosteriorStage", "EmbeddedFitStage", "SampleStage", "EntryStage", "Return"]
PROFILES_Q = ["plain", "warmup0", "metropolis", "bogus", "chains3", "initials_bad", "last_is_bad"]
PROFILES_T = PROFILES_Q + ["warmup1", "warmup_all", "initials_ok", "initials_shape", "best_is_bad"]
# which invariant TLC refutes first when the repair is left out
CONTROL_OF = dict(posterior_snapshot="PosteriorSnapshot", sampling_flag_reset="RefusedChangesNothing", arguments_checked_first="RefusedChangesNothing",
                  init_scan_checked="OnlyRefusals", empty_result_refused="OnlyRefusals", warmup_zero="WarmupRespected",
                  metropolis_total="NSamplesIncludesWarmup", sample_reports_n_sim="ReportedNSim", optimise_at_initial="AcqOnOptimisedGP")


def tset(vals):
    def one(v):
        if isinstance(v, bool):
            return "TRUE" if v else "FALSE"
        if isinstance(v, str):
            return '"%s"' % v
        return str(v)
    return "{" + ", ".join(one(v) for v in vals) + "}"


def mc_cfg(fix, invs, kinds=("int", "dict"), iens=(3,), reqmin=10, bss=(1, 2), upds=(2,), bpas=(2,), ns=(2, 5), none_too=True, maxev=6,
           profiles=PROFILES_Q, maxposts=1, maxcalls=0, props=()):
    return """SPECIFICATION Spec
CONSTANTS
  IEKinds = %s
  IENs = %s
  ReqMin = %d
  BSs = %s
  Upds = %s
  BPAs = %s
  Ns = %s
  NoneToo = %s
  MaxEv = %d
  Profiles = %s
  MaxPosts = %d
  MaxCalls = %d
  Fix = %s
%s
%s
CHECK_DEADLOCK FALSE
""" % (tset(kinds), tset(iens), reqmin, tset(bss), tset(upds), tset(bpas), tset(ns), "TRUE" if none_too else "FALSE", maxev, tset(profiles), maxposts,
       maxcalls, tset(fix), "\n".join("INVARIANT " + i for i in invs), "\n".join("PROPERTY " + p for p in props))


class _Lane:
    """what ctx.tlc accumulates, per thread (merged by Design.join)"""

    def __init__(self, ctx):
        self.ctx = ctx
        self.states = 0
        self.transitions = 0
        self.tlc_runs = []
        self.negative_controls = []

    def tlc(self, module, cfg, expect_actions=None, expect_ok=True, expect_violated=None, label=None, **kw):
        kw.setdefault("metadir", os.path.join(self.ctx.outdir, "meta_%s" % cfg))
        r = tlc.run(module, cfg, **kw)
        self.states += r.distinct
        self.transitions += r.generated
        summ = r.as_dict()
        summ["label"] = label or cfg
        summ["expect_ok"] = expect_ok
        self.tlc_runs.append(summ)
        for a in (expect_actions or []):
            if r.coverage.get(a, [0, 0])[1] == 0:
                raise tlc.MachineryFailure("action %s of %s never taken (vacuous run)\n%s" % (a, module, r.out[-1500:]))
        if expect_ok and not r.ok:
            raise tlc.MachineryFailure("design module %s/%s violates %s\n%s" % (module, cfg, r.violated, r.trace_text[:3000]))
        if not expect_ok:
            if r.ok:
                raise tlc.MachineryFailure("negative control %s/%s found no violation" % (module, cfg))
            if expect_violated and r.violated not in expect_violated:
                raise tlc.MachineryFailure("negative control %s/%s refuted %s, expected %s" % (module, cfg, r.violated, expect_violated))
            self.negative_controls.append(dict(run=summ["label"], refuted=r.violated))
        return r


def design_jobs(ctx):
    """four lanes of jobs; TLC workers per lane 2 + 2 + 1 + 1 = 6"""
    q = ctx.quick
    lanes = [[], [], [], []]

    def add(lane, name, cfg_text, workers, **kw):
        lanes[lane].append(lambda acc: acc.tlc("BolfiPipeline", "MC_BolfiPipeline_" + name, cfg_text=cfg_text, workers=workers, timeout=1800, **kw))

    # the repaired machine keeps every user-level invariant, for call sequences of any length
    if q:
        rep = mc_cfg(ALL_FIXES, INV_MACHINE + INV_USER, kinds=("none", "int"), iens=(3,), reqmin=4, props=["EvidenceAppendOnly"])
        code = mc_cfg([], INV_MACHINE + INV_CODE, kinds=("int", "dict"), bss=(2,), props=["EvidenceAppendOnly"])
    else:
        big = dict(kinds=("none", "int", "dict"), iens=(0, 3), reqmin=4, bpas=(1, 2), ns=(0, 3, 6), profiles=PROFILES_T)
        rep = mc_cfg(ALL_FIXES, INV_MACHINE + INV_USER, props=["EvidenceAppendOnly"], upds=(1, 3), maxposts=2, **big)
        code = mc_cfg([], INV_MACHINE + INV_CODE, props=["EvidenceAppendOnly"], upds=(2,), maxposts=1, **big)
    add(0, "repaired", rep, 2 if q else 3, expect_actions=ACTIONS, label="BolfiPipeline repaired (all nine repairs): every user-level invariant")
    add(1, "code", code, 2 if q else 3, expect_actions=ACTIONS,
        label="BolfiPipeline as the code is: stagewise = composed, bookkeeping, acquisitions saw all evidence, sample rows, fit reaches, append-only")
    # negative controls: leave one repair out and a user-level invariant breaks; the code machine breaks split independence; batches overshoot
    ctl = []
    for f in (["posterior_snapshot", "sampling_flag_reset"] if q else ALL_FIXES):
        ctl.append(("without_" + f, mc_cfg([x for x in ALL_FIXES if x != f], INV_USER, kinds=("int", "dict") if f != "empty_result_refused" else ("int",)),
                    [CONTROL_OF[f]] + (["NotSamplingOutside", "SplitIndependent"] if f == "sampling_flag_reset" else []), "BolfiPipeline control: the real pipeline without the repair '%s'" % f))
    ctl.append(("code_split", mc_cfg([], ["SplitIndependent"], kinds=("int",), bss=(1,)), ["SplitIndependent"],
                "BolfiPipeline control: as the code is, the evidence depends on a failed sample() in between (is_sampling left True)"))
    ctl.append(("exactly_requested", mc_cfg(ALL_FIXES, ["ExactlyRequested"], kinds=("int",), bss=(2,)), ["ExactlyRequested"],
                "BolfiPipeline control: 'exactly n_evidence' is refuted when batch_size does not divide the request"))
    for k, (name, text, want, label) in enumerate(ctl):
        add(2 + k % 2, name, text, 1, expect_ok=False, expect_violated=want, label=label)
    if not q:
        add(2, "exactly_requested_bs1", mc_cfg(ALL_FIXES, ["ExactlyRequested"], kinds=("int", "dict"), bss=(1,)), 1,
            label="BolfiPipeline: with batch_size 1 a continued fit collects exactly the requested evidence")
    return lanes


class Design:
    """runs the design jobs on four threads (TLC is a subprocess; at most 6 TLC workers at a time)"""

    def __init__(self, ctx):
        self.ctx = ctx
        jobs = design_jobs(ctx)
        self.lanes = [_Lane(ctx) for _ in jobs]
        self.errors = []
        self.threads = [threading.Thread(target=self._run, args=(self.lanes[k], jobs[k]), daemon=True) for k in range(len(jobs))]
        for th in self.threads:
            th.start()

    def _run(self, lane, jobs):
        try:
            for job in jobs:
                job(lane)
        except BaseException as ex:      # re-raised in the main thread by join()
            self.errors.append(ex)

    def join(self):
        for th in self.threads:
            th.join()
        for lane in self.lanes:
            self.ctx.states += lane.states
            self.ctx.transitions += lane.transitions
            self.ctx.tlc_runs += lane.tlc_runs
            self.ctx.negative_controls += lane.negative_controls
        if self.errors:
            raise self.errors[0]


# ------------------------------------------------------------------------------ corrupted copies (binding demonstration)
def corruptions(scs, traces):
    """(what, expected clause, trace, index of the source trace): one observed field of a real trace is changed; TLC must reject
    the copy with the clause.  Python only picks WHERE to corrupt."""
    out = []

    def cut(tr, j):
        t = copy.deepcopy(tr)
        t["events"] = t["events"][:j + 1]
        return t

    def first(pred):
        for k, tr in enumerate(traces):
            for j, e in enumerate(tr["events"]):
                if pred(tr, j, e):
                    return k, j
        return None

    hit = first(lambda tr, j, e: e["m"] == "fit" and e["raised"] == "" and e["bats"])
    if hit:
        k, j = hit
        t = cut(traces[k], j)
        t["events"][j]["nb"] += 1
        out.append(("one more consumed batch than the fit ran", "E:fit-state-n_batches", t, k))
        t = cut(traces[k], j)
        t["events"][j]["stages"] = [s for s in t["events"][j]["stages"] if s != "extract_result"]
        out.append(("fit without extract_result", "E:fit-public-methods-entered-in-order", t, k))
        t = cut(traces[k], j)
        t["events"][j]["nsim"] += 1
        t["events"][j]["sims"] += 0
        out.append(("n_sim one more than batch_size * batches", "E:fit-state-n_sim", t, k))
    hit = first(lambda tr, j, e: e["m"] == "fit" and e["raised"] == "" and any(a["seen"] > 0 for a in e["acqs"]))
    if hit:
        k, j = hit
        t = cut(traces[k], j)
        a = next(a for a in t["events"][j]["acqs"] if a["seen"] > 0)
        a["seen"] -= 1
        out.append(("an acquisition made before the previous batch was in the GP", "E:fit-acquisitions", t, k))
    hit = first(lambda tr, j, e: e["m"] == "extract_posterior" and e["raised"] == "ValueError" and e["nev"] == 0)
    if hit:
        k, j = hit
        t = cut(traces[k], j)
        t["events"][j].update(raised="", msg="")
        t["events"][j]["out"] = dict(t["events"][j]["out"], kind="posterior")
        out.append(("extract_posterior before any evidence reported as returning", "E:extract_posterior-refused-exactly-when-the-design-refuses", t, k))
    hit = first(lambda tr, j, e: j > 0 and e["m"] != "init" and len(e["xs"]) >= 2 and
                any(p["o"] == e["o"] and len(p["xs"]) >= 1 for p in tr["events"][:j]))
    if hit:
        k, j = hit
        t = cut(traces[k], j)
        ev = t["events"][j]
        ev["xs"][0] = [v + 7 for v in ev["xs"][0]]
        if ev["npre"] == 0 and ev["simx"]:
            ev["simx"][0] = list(ev["xs"][0])
        out.append(("the first evidence row changed between two calls", "E:evidence-append-only", t, k))
    hit = first(lambda tr, j, e: any(p["sees"] != p["at"] for p in e["posts"]))
    if hit:
        k, j = hit
        t = cut(traces[k], j)
        for p in t["events"][j]["posts"]:
            p["sees"] = p["at"]
        out.append(("a posterior handed out reported as still seeing the old GP", "E:%s-posteriors-held" % traces[k]["events"][j]["m"], t, k))
    hit = first(lambda tr, j, e: e["out"]["kind"] == "sample" and e["out"]["rows"] > 0)
    if hit:
        k, j = hit
        t = cut(traces[k], j)
        t["events"][j]["out"] = dict(t["events"][j]["out"], rows=t["events"][j]["out"]["rows"] + 1)
        out.append(("one more sample row than n_chains * (n_samples - warmup)", "E:sample-returned-rows", t, k))
    hit = first(lambda tr, j, e: e["m"] == "fit" and e["raised"] == "" and e["nb"] > 0 and not e["smp"] and
                any(p["grp"] == e["grp"] and p["o"] != e["o"] and p["nb"] == e["nb"] and p["xs"] == e["xs"] for p in tr["events"][:j]))
    if hit:
        k, j = hit
        t = cut(traces[k], j)
        ev = t["events"][j]
        ev["xs"][-1] = [v + 5 for v in ev["xs"][-1]]
        ev["simx"][-1] = list(ev["xs"][-1])
        out.append(("the same-seed twin collected another last point", "E:same-seed-same-batches-same-evidence", t, k))
    return out


# ------------------------------------------------------------------------------ check
CLAUSES_DESIGN = [
    "repaired machine (nine repairs), any number of calls, GP rows <= 6: n_sim = batch_size * batches, n_evidence = precomputed + n_sim = GP rows; "
    "every acquisition saw all earlier evidence; the evidence is a function of configuration and number of batches whatever was called in between; "
    "a posterior handed out keeps the GP it was extracted from; is_sampling only inside sample(); acquisitions on a non-empty GP use optimised "
    "hyperparameters; a call returns or is refused; a refused call changes nothing (but an embedded fit it was asked for); infer / fit reach the "
    "requested evidence rounded up to whole batches and never go back; the sample has n_chains * (n_samples - warmup) rows, warmup as given, "
    "n_samples iterations per chain, n_sim = simulations run",
    "each repair is necessary (nine controls); the code machine refutes 'evidence independent of calls in between'; 'exactly n_evidence' is refuted "
    "for batch_size 2 and holds for batch_size 1",
    "the code as transcribed: bookkeeping, acquisitions saw all evidence, sample rows, fit reaches the request, last_GP_update is n_initial_evidence "
    "or a row count at which the GP was optimised, evidence append-only (action property)",
    "stage by stage execution = composed Run operator; extract_posterior / extract_result change nothing"]
CLAUSES_TRACE = [
    "after every public call on a real BOLFI object: public methods entered = the design's, in order; refused (ValueError with the design's "
    "message) exactly when the design refuses, other exceptions exactly where a stage of the design raises; n_batches, n_sim, n_evidence, GP rows, "
    "last_GP_update, acquisition queue, objective, next batch index, is_sampling, number of GP optimisations, which acquire() call produced which "
    "batch and the GP rows / optimisations / is_sampling at that moment, what was returned (kind, rows, warmup, chains, iterations per chain, "
    "n_sim, n_batches, chains shape), which GP every posterior handed out evaluates = what the design's stages give",
    "evidence rows append-only between calls; GP rows = precomputed rows then the rows the simulator itself logged, in order; n_sim = simulator "
    "rows; given threshold used / default threshold = minimum of the GP mean (grid oracle, 1e-4); x_min inside the bounds with GP mean <= the "
    "mean at every evidence point; chain seeds = get_sub_seed(seed, chain); threshold of a posterior handed out never changes, its logpdf is that "
    "of the live GP; objects with the same seed at the same number of batches hold the same evidence whenever the design's evidence records agree",
    "the thirteen user-level invariants evaluated on every observed state (violations = findings, collected per history)"]


def check_bolfi_pipeline(ctx, design=True):
    import time
    t0 = time.time()
    scs = scenarios(ctx)
    bg = Design(ctx) if design else None
    traces = [record(sc) for sc in scs]
    t1 = time.time()
    if bg is not None:
        bg.join()
    t2 = time.time()
    corr = corruptions(scs, traces)
    allv = ctx.validate("BolfiPipeline_Trace", traces + [c[2] for c in corr], chunk=max(8, -(-(len(traces) + len(corr)) // (3 if ctx.quick else 6))), name="bolfip")
    verdicts = allv[:len(traces)]
    timing = "recording %.1fs, design check finished %.1fs later, trace validation %.1fs" % (t1 - t0, t2 - t1, time.time() - t2)
    ctx.traces_validated -= len(corr)                # corrupted copies are not executions of the real code
    for (what, want, _t, k), v in zip(corr, allv[len(traces):]):
        if verdicts[k]["verdict"] != "ok":
            continue          # the source trace itself fails (changed tree): its copy may fail earlier for that reason
        if v["verdict"] != want:
            raise tlc.MachineryFailure("BolfiPipeline_Trace did not reject a corrupted trace (%s): expected %s, got %r" % (what, want, v))
        ctx.negative_controls.append(dict(run="corrupted trace / BolfiPipeline_Trace: " + what, refuted=want))
    if len(corr) < 6 and all(v["verdict"] == "ok" for v in verdicts):
        raise tlc.MachineryFailure("only %d corrupted-trace controls could be built from the recorded histories" % len(corr))
    ncalls = nrefused = nraised = 0
    inv_count = {}
    for sc, tr, v in zip(scs, traces, verdicts):
        evs = tr["events"]
        ncalls += len(evs)
        nrefused += sum(1 for e in evs if e["raised"] == "ValueError")
        nraised += sum(1 for e in evs if e["raised"] not in ("", "ValueError"))
        progressed = sum(1 for e in evs if e["bats"])
        ctx.case("bolfi-pipeline:" + str(sc), nontrivial=progressed >= 1)
        ctx.trace_events += len(evs)
        if v["verdict"] != "ok":
            k = min(max(v["l"] - 2, 0), len(evs) - 1)
            e = evs[k]
            ctx.drifted(v["verdict"], sc, detail=dict(call_index=k, call=sc["calls"][k], observed={f: e[f] for f in e if f not in ("xs", "simx")}))
        for name in [x for x in v["drift"].split("|") if x]:
            inv_count[name] = inv_count.get(name, 0) + 1
            ctx.drifted("E:" + name, sc, detail=dict(pinned=sc.get("pin"), calls=[(c["o"], c["m"]) for c in sc["calls"]],
                                                     outcomes=[e["raised"] for e in evs]))
    ctx.trusted_base += ["harness hooks: subclass overrides of the public BOLFI methods and of prepare_new_batch that only record that they were "
                         "entered; logging wrappers around acquisition_method.acquire, target_model.optimize, mcmc.nuts, mcmc.metropolis",
                         "harness oracles: GP mean minimum on a grid, finiteness of the log posterior at the evidence points, logpdf of a posterior "
                         "built by the harness on the live GP (BolfiPosterior itself is checked by C10)"]
    ctx.assumptions += ["max_parallel_batches = 1, native client (schedules are C11 / C04); synchronous acquisition",
                        "bounds inside the prior's support, acq_noise_var = 0"]
    ctx.clauses_decided = list(getattr(ctx, "clauses_decided", [])) + CLAUSES_DESIGN + CLAUSES_TRACE
    ctx.clauses_not_decided = list(getattr(ctx, "clauses_not_decided", [])) + [
        "BOLFI pipeline: update() / prepare_new_batch() called directly by the user; async_acq; plotting; pools",
        "BOLFI pipeline: the values of the chains (C08 / C09) and of the posterior (C10)"]
    ctx.notes.append("BOLFI pipeline extension: %d histories (%d pinned), %d calls, %d refused (ValueError), %d raised otherwise; user-level invariants "
                     "violated on observed states (histories): %s; %s" % (len(scs), len(pinned(ctx.quick)), ncalls, nrefused, nraised,
                                                                        ", ".join("%s=%d" % kv for kv in sorted(inv_count.items())) or "none", timing))
    if traces:
        ctx.sample(dict(scenario=dict(scs[0], calls=scs[0]["calls"][:4]),
                        events=[{k: e[k] for k in ("o", "m", "n", "raised", "stages", "nb", "nsim", "nev", "gp", "last", "q", "smp", "nopt", "acqs", "out", "posts")}
                                for e in traces[0]["events"]][:4]))
    return dict(histories=len(scs), calls=ncalls, refused=nrefused, raised=nraised, invariants_violated=inv_count, verdicts=verdicts)

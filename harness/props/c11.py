"""C11 - Bayesian optimisation simulates only inside bounds and trains on what it ran.

O1: BoLoop.tla: the BO loop (acquisition queue, refined _allow_submit, evidence bookkeeping) over every
    client schedule; EvidenceIsConsumedSequence, QueueExact, AcquisitionSeesAllEarlierEvidence =>
    ScheduleIndependentEvidence for synchronous acquisition, refuted for async_acq (negative control).
O3: real BayesianOptimization fits through the scheduled client (LCBSC with scalar / per-parameter / zero noise,
    UniformAcquisition; all initial-evidence forms; batch sizes, batches_per_acquisition, update intervals;
    priors wider and narrower than the bounds), operations logging the parameters they receive; direct
    acquire(n, t) calls and gradient checks of the acquisition classes on fitted surrogates.
    Validated by BoLoop_Trace.tla.
"""
import hashlib
import random

import numpy as np

from harness import tlc
from harness.util import Hang, time_limit


def fx6(v):
    v = float(v)
    if not np.isfinite(v):
        return 2000000000 if v > 0 else -2000000000
    return int(round(max(-2000.0, min(2000.0, v)) * 1e6))


SIMLOG = []


class Sim:
    def __init__(self):
        self.__name__ = "sim"

    def __call__(self, *params, batch_size=1, random_state=None, meta=None):
        cols = [np.asarray(p, dtype=float).reshape(-1) for p in params]
        y = sum((c - 0.3 * (k + 1)) ** 2 for k, c in enumerate(cols)) + 0.05 * random_state.normal(size=batch_size)
        for r in range(batch_size):
            SIMLOG.append([int(meta["batch_index"]), [float(c[r]) for c in cols], float(y[r])])
        return y


def ident(y):
    return np.asarray(y, dtype=float)


def disc(s, observed=None):
    return np.asarray(s, dtype=float)          # the target is the simulator output itself (logged there)


def build(sc):
    import elfi
    m = elfi.ElfiModel(name="c11")
    names = []
    for k in range(sc["dim"]):
        lo, hi = sc["prior"][k]
        elfi.Prior("uniform", lo, hi - lo, model=m, name="p%d" % (k + 1))
        names.append("p%d" % (k + 1))
    s = elfi.Simulator(Sim(), *[m[n] for n in names], model=m, name="sim", observed=np.array([0.0]))
    s.uses_meta = True
    elfi.Summary(ident, m["sim"], model=m, name="S")
    elfi.Discrepancy(disc, m["S"], model=m, name="d")
    return m, names


def xy_digest(X, Y):
    h = hashlib.sha256()
    h.update(np.ascontiguousarray(np.asarray(X, dtype=float)).tobytes())
    h.update(np.ascontiguousarray(np.asarray(Y, dtype=float)).tobytes())
    return h.hexdigest()[:16]


def make_bo(sc, m, names, client_events=None):
    import elfi
    from elfi.methods.bo.acquisition import LCBSC, UniformAcquisition  # noqa: F401
    bounds = {n: tuple(sc["bounds"][k]) for k, n in enumerate(names)}
    if sc.get("rev_bounds"):          # the user's dict lists the parameters in another order than the model's
        bounds = dict(reversed(list(bounds.items())))
    ie = sc["init"]
    if isinstance(ie, dict):
        rs = np.random.RandomState(sc["seed"] + 1)
        n = ie["pre"]
        pre = {nm: rs.uniform(bounds[nm][0], bounds[nm][1], size=n) for nm in names}
        pre["d"] = sum((pre[nm] - 0.3 * (k + 1)) ** 2 for k, nm in enumerate(names))
        ie = pre
    noise = sc["noise"]
    if isinstance(noise, list):
        noise = {nm: noise[k] for k, nm in enumerate(names)}
    kw = {}
    if sc.get("tm_rev"):
        # the user supplies the surrogate, with its parameters in another order than the model's (alphabetical) one
        from elfi.methods.bo.gpy_regression import GPyRegression
        kw["target_model"] = GPyRegression(list(reversed(names)), bounds=bounds)
    bo = elfi.BayesianOptimization(m["d"], bounds=bounds, initial_evidence=ie, update_interval=sc["upd"], acq_noise_var=noise,
                                   batch_size=sc["bs"], batches_per_acquisition=sc["bpa"], async_acq=sc.get("async", False),
                                   max_parallel_batches=sc["maxpar"], seed=sc["seed"], **kw)
    if sc.get("acq") == "uniform":
        bo.acquisition_method = UniformAcquisition(bo.target_model, seed=sc["seed"])
    return bo


_RUNS = [0]


def run_bo(sc, client, log_acq=None):
    import elfi.client
    old = elfi.client._client
    elfi.client.set_client(client)
    del SIMLOG[:]
    _RUNS[0] += 1
    np.random.seed(1000 + _RUNS[0])          # the fit must not depend on the global generator: another state before every run
    try:
        m, names = build(sc)
        bo = make_bo(sc, m, names)
        if hasattr(client, "probe"):
            client.probe = lambda: dict(nb=int(bo.state["n_batches"]), np=int(bo.batches.num_pending), nx=int(bo.batches.next_index))
        orig = bo.acquisition_method.acquire

        def acquire(n, t=None):
            ev = dict(ev="acq", id=-1, n=int(n), t=int(t) if t is not None else -1, pend=int(bo.batches.num_pending), raised="", pts=[])
            try:
                pts = orig(n, t=t)
                perm = [list(bo.target_model.parameter_names).index(nm) for nm in names]      # logged in the MODEL's order
                ev["pts"] = [[fx6(v) for v in np.atleast_1d(row)[perm]] for row in np.atleast_2d(pts)]
                return pts
            except Exception as ex:
                ev["raised"] = type(ex).__name__
                raise
            finally:
                if log_acq is not None:
                    log_acq(ev)
        bo.acquisition_method.acquire = acquire
        bo.infer(n_evidence=sc["n_evidence"], bar=False)
        return bo, list(SIMLOG)
    finally:
        if hasattr(client, "probe"):
            client.probe = None
        elfi.client.set_client(old)


_SEQ = {}


def seq_digest(sc):
    key = str({k: sc[k] for k in sc if k not in ("maxpar", "sched_seed", "p_ready", "p_run", "script")})
    if key not in _SEQ:
        import elfi.clients.native as native
        bo, _ = run_bo(dict(sc, maxpar=1), native.Client())
        _SEQ[key] = xy_digest(bo.target_model.X, bo.target_model.Y)
    return _SEQ[key]


DEFAULTS = dict(unservable=False, bi=-1, ans=False, left=0, digest="", raised="", n=0, t=0, pend=0, pts=[], sims=[], xrows=[], yrows=[], pre=0,
                n_evidence=0, g=[], fd=[], tol=0)


def finish_events(events):
    for e in events:
        for k, v in DEFAULTS.items():
            e.setdefault(k, v)
    return events


def record_bo(sc):
    from harness.sched_client import ScheduledClient
    cl = ScheduledClient(script=sc.get("script"), seed=sc.get("sched_seed", 0), p_ready=sc.get("p_ready", 0.5), p_run=sc.get("p_run", 0.5))
    n_pre = sc["init"]["pre"] if isinstance(sc["init"], dict) else 0
    n_init = sc["init"]["pre"] if isinstance(sc["init"], dict) else -(-sc["init"] // sc["bs"]) * sc["bs"]
    tr = dict(kind="bo", maxpar=sc["maxpar"], bs=sc["bs"], bpa=sc["bpa"], sync=not sc.get("async", False),
              offb=(n_init - n_pre) // sc["bs"], bounds=[[fx6(a), fx6(b)] for a, b in sc["bounds"]], seq="")
    try:
        with time_limit(900):
            tr["seq"] = seq_digest(sc) if tr["sync"] else ""
            bo, simlog = run_bo(sc, cl, log_acq=lambda ev: cl.events.append(ev))
        # consumed rows only (cancelled speculative batches were simulated too): the first n_consumed batches
        n_cons = int(bo.state["n_batches"])
        rows = [r for r in simlog if r[0] < n_cons]
        seen, sims = set(), []
        for r in rows:          # a cancelled + resubmitted index is simulated twice with the same content: keep the first bs rows per batch
            cnt = sum(1 for s in sims if s[0] == r[0])
            if cnt < sc["bs"]:
                sims.append([r[0], [fx6(v) for v in r[1]], fx6(r[2])])
        sims.sort(key=lambda s: s[0])
        X, Y = np.atleast_2d(bo.target_model.X), np.asarray(bo.target_model.Y).reshape(-1)
        perm = [list(bo.target_model.parameter_names).index("p%d" % (k + 1)) for k in range(sc["dim"])]
        dg = xy_digest(X, Y)    # (digest of the surrogate's own arrays, as in seq_digest)
        X = X[:, perm]          # evidence columns in the MODEL's parameter order (the order of `sims` and `bounds`)
        cl.events.append(dict(ev="end", id=-1, left=len(cl.tasks), raised="", sims=sims, xrows=[[fx6(v) for v in row] for row in X],
                              yrows=[fx6(v) for v in Y], pre=n_pre, n_evidence=int(bo.n_evidence), digest=dg))
    except Hang:
        cl.events.append(dict(ev="end", id=-1, raised="Hang"))
    except Exception as ex:
        cl.events.append(dict(ev="end", id=-1, raised="%s: %s" % (type(ex).__name__, str(ex)[:100])))
    tr["events"] = finish_events(cl.events)
    return tr


def fitted_gp(sc):
    from elfi.methods.bo.gpy_regression import GPyRegression
    rs = np.random.RandomState(sc["seed"])
    names = ["p%d" % (k + 1) for k in range(sc["dim"])]
    bounds = {n: tuple(sc["bounds"][k]) for k, n in enumerate(names)}
    gp = GPyRegression(names, bounds=bounds)
    X = np.column_stack([rs.uniform(b[0], b[1], size=12) for b in sc["bounds"]])
    Y = np.sum((X - 0.3) ** 2, axis=1) + 0.05 * rs.normal(size=12)
    gp.update(X, Y, optimize=True)
    return gp, names


def record_acq(sc):
    """direct acquire(n, t) calls and gradient checks on a fitted surrogate"""
    import elfi
    from elfi.methods.bo import acquisition as A
    from elfi.model.extensions import ModelPrior
    tr = dict(kind="acq", maxpar=1, bs=1, bpa=1, sync=True, offb=0, bounds=[[fx6(a), fx6(b)] for a, b in sc["bounds"]], seq="")
    events = []
    try:
        with time_limit(900):
            gp, names = fitted_gp(sc)
            m = elfi.ElfiModel(name="c11a")
            for k, n in enumerate(names):
                lo, hi = sc["prior"][k]
                if sc.get("prior_kind") == "norm":      # a non-flat prior: its gradient enters the acquisition gradients
                    elfi.Prior("norm", 0.5 * (lo + hi) + 0.3, 0.5 * (hi - lo), model=m, name=n)
                else:
                    elfi.Prior("uniform", lo, hi - lo, model=m, name=n)
            prior = ModelPrior(m)
            noise = sc["noise"]
            cls = sc["cls"]
            if cls == "LCBSC":
                acq = A.LCBSC(gp, prior=prior, noise_var=noise, exploration_rate=10, seed=sc["seed"])
            elif cls == "MaxVar":
                acq = A.MaxVar(model=gp, prior=prior, quantile_eps=0.05, noise_var=noise, seed=sc["seed"])
            elif cls == "RandMaxVar":
                acq = A.RandMaxVar(model=gp, prior=prior, quantile_eps=0.05, noise_var=noise, seed=sc["seed"], sampler=sc.get("sampler", "metropolis"),
                                   n_samples=sc.get("n_samples", 20), warmup=sc.get("warmup", 5))
            elif cls == "ExpIntVar":
                acq = A.ExpIntVar(model=gp, prior=prior, quantile_eps=0.05, noise_var=noise, seed=sc["seed"], integration="grid", d_grid=0.5)
            else:
                acq = A.UniformAcquisition(gp, seed=sc["seed"])
            for (n, t) in sc["calls"]:
                ev = dict(ev="acq", id=-1, n=n, t=t, pend=0, raised="", pts=[],
                          unservable=bool(cls == "RandMaxVar" and n > sc.get("n_samples", 20) - sc.get("warmup", 5)))
                try:
                    pts = acq.acquire(n, t=t)
                    ev["pts"] = [[fx6(v) for v in np.atleast_1d(row)] for row in np.atleast_2d(pts)]
                except Exception as ex:
                    ev["raised"] = type(ex).__name__
                    ev["exc"] = str(ex)[:80]
                events.append(ev)
            if cls in ("LCBSC", "MaxVar", "RandMaxVar") and sc.get("grad"):
                rs = np.random.RandomState(sc["seed"] + 3)
                for it in range(8):
                    x = np.array([rs.uniform(b[0] + 0.1 * (b[1] - b[0]), b[1] - 0.1 * (b[1] - b[0])) for b in sc["bounds"]])
                    t = 2
                    if it % 2:
                        # history on one acquisition object: the value at x, then the surrogate learns (three new evidence points
                        # of the same response surface; hyperparameters kept: a re-optimisation on an outlier can collapse the
                        # length-scale and GPy's kernel gradients then overflow - a degenerate surrogate, not what is judged),
                        # then the gradient at the SAME x - it is the derivative of the acquisition function of the surrogate as it is now
                        acq.evaluate(x, t)
                        xn = np.array([[rs.uniform(b[0], b[1]) for b in sc["bounds"]] for _k in range(3)])
                        gp.update(xn, np.sum((xn - 0.3) ** 2, axis=1) + 0.05 * rs.normal(size=3), optimize=False)
                    g = np.asarray(acq.evaluate_gradient(x, t), dtype=float).reshape(-1)
                    h = 1e-5
                    fd = []
                    for j in range(len(x)):
                        e = np.zeros(len(x))
                        e[j] = h
                        fd.append((float(np.ravel(acq.evaluate(x + e, t))[0]) - float(np.ravel(acq.evaluate(x - e, t))[0])) / (2 * h))
                    # relative comparison: both sides in units of the largest finite-difference component (the acquisition
                    # values of MaxVar are of order prior^2 * variance, far below 1); numerically flat points are skipped
                    scale = float(np.max(np.abs(fd)))
                    if not np.isfinite(scale) or scale < 1e-9:
                        continue
                    events.append(dict(ev="grad", id=-1, g=[fx6(v / scale) for v in g], fd=[fx6(v / scale) for v in fd], tol=2000))
    except Hang:
        events.append(dict(ev="acq", id=-1, n=1, t=0, pend=0, raised="Hang", pts=[]))
    except Exception as ex:
        events.append(dict(ev="acq", id=-1, n=1, t=0, pend=0, raised="setup %s: %s" % (type(ex).__name__, str(ex)[:80]), pts=[]))
    tr["events"] = finish_events(events)
    return tr


def record(sc):
    return record_bo(sc) if sc["kind"] == "bo" else record_acq(sc)


def scenarios(ctx):
    rnd = random.Random(ctx.seed)
    out = []
    n_bo = 14 if ctx.quick else 120
    for i in range(n_bo):
        dim = rnd.choice([1, 1, 2]) if i % 3 else 2
        bounds = [[rnd.choice([-1.0, 0.0]), rnd.choice([1.0, 2.0])] for _ in range(dim)]
        wide = rnd.random() < 0.5
        prior = [[b[0] - 1.0, b[1] + 1.0] if wide else [b[0] + 0.25, b[1] - 0.25] for b in bounds]
        bs = rnd.choice([1, 2])
        init = rnd.choice([4, 3, 0, dict(pre=3), dict(pre=5)])
        n_ev = (init["pre"] if isinstance(init, dict) else -(-init // bs) * bs) + bs * rnd.randint(2, 4)
        noise = rnd.choice([0, 0.1, 0.5, [0.1] * dim if dim == 1 else [0.05, 0.3]])
        if dim == 2 and i % 3 == 0:
            # per-parameter noise with a ZERO variance before / after a non-zero one, on clearly different bounds per dimension
            noise = [[0, 0.5], [0.5, 0]][(i // 3) % 2]
            bounds = [[-3.0, 3.0], [0.0, 1.0]] if (i // 6) % 2 == 0 else [[0.0, 1.0], [-3.0, 3.0]]
            prior = [[b[0] - 1.0, b[1] + 1.0] if wide else [b[0] + 0.25, b[1] - 0.25] for b in bounds]
        base = dict(kind="bo", dim=dim, bounds=bounds, prior=prior, bs=bs, bpa=rnd.choice([1, 2]), init=init, n_evidence=n_ev,
                    upd=rnd.choice([1, 2, 10]), noise=noise, seed=rnd.randint(0, 10 ** 6), acq=rnd.choice(["lcbsc", "lcbsc", "uniform"]))
        if i % 5 == 1:
            base["seed"] = 0                   # the valid seed 0
        if dim == 2 and i % 4 in (1, 2):
            base["tm_rev"] = True
        if dim == 2 and i % 2 == 0:
            base["rev_bounds"] = True
            if base["bounds"][0] == base["bounds"][1]:
                base["bounds"] = [[-3.0, 3.0], [0.0, 1.0]]
                base["prior"] = [[b[0] - 1.0, b[1] + 1.0] if wide else [b[0] + 0.25, b[1] - 0.25] for b in base["bounds"]]
        for mp in ([1, 3] if ctx.quick else [1, 2, 3]):
            out.append(dict(base, maxpar=mp, sched_seed=rnd.randint(0, 10 ** 6), p_ready=rnd.choice([0.0, 0.5, 1.0]), p_run=rnd.choice([0.0, 0.5, 1.0])))
    # precomputed initial evidence + parallel, unready schedules: the acquisition gate must count only SUBMITTED initial evidence
    for k in range(4 if ctx.quick else 16):
        bs = [1, 2][k % 2]
        base = dict(kind="bo", dim=1, bounds=[[-1.0, 2.0]], prior=[[-0.75, 1.75]], bs=bs, bpa=[1, 2][(k // 2) % 2], init=dict(pre=[4, 6][k % 2]),
                    n_evidence=[4, 6][k % 2] + bs * 4, upd=[1, 10][k % 2], noise=0.1, seed=rnd.randint(0, 10 ** 6), acq="lcbsc")
        out.append(dict(base, maxpar=3, sched_seed=rnd.randint(0, 10 ** 6), p_ready=[0.0, 0.3][k % 2], p_run=[0.0, 0.5][(k // 2) % 2]))
    # direct acquisition calls
    classes = ["LCBSC", "MaxVar", "RandMaxVar", "ExpIntVar", "Uniform"]
    n_acq = 2 if ctx.quick else 10
    for cls in classes:
        for k in range(n_acq):
            dim = 1 if cls in ("ExpIntVar",) or k % 2 == 0 else 2
            bounds = [[-1.0, 1.0]] * dim if k % 2 == 0 else [[0.5, 1.5]] * dim
            wide = k % 2 == 1
            prior = [[b[0] - 2.0, b[1] + 2.0] for b in bounds] if wide else [[b[0] + 0.25, b[1] - 0.25] for b in bounds]
            out.append(dict(kind="acq", cls=cls, dim=dim, bounds=bounds, prior=prior, noise=rnd.choice([0, 0.2]), seed=rnd.randint(0, 10 ** 6),
                            calls=[[1, 0], [3, 1]] if cls != "RandMaxVar" else [[2, 0]], grad=(k == 0)))
    # gradients under a non-flat (normal) prior: the prior's own gradient is part of the acquisition gradient
    for cls in ("LCBSC", "MaxVar", "RandMaxVar"):
        for dim in ((1, 2) if ctx.quick else (1, 2, 2, 3)):
            bounds = [[-1.0, 1.0]] * dim
            out.append(dict(kind="acq", cls=cls, dim=dim, bounds=bounds, prior=[[-1.5, 1.5]] * dim, prior_kind="norm", noise=0, seed=rnd.randint(0, 10 ** 6),
                            calls=[], grad=True))
    # pinned scenarios of the known findings
    out.append(dict(kind="acq", cls="RandMaxVar", dim=1, bounds=[[-1.0, 1.0]], prior=[[-3.0, 3.0]], noise=0, seed=9, calls=[[5, 0]],
                    n_samples=100, warmup=20, pinned="F11 history (fixed)"))
    out.append(dict(kind="acq", cls="RandMaxVar", dim=1, bounds=[[-1.0, 1.0]], prior=[[-0.5, 0.5]], noise=0, seed=4, calls=[[18, 0], [15, 0]],
                    n_samples=20, warmup=5, pinned="F23 history (fixed)"))
    out.append(dict(kind="acq", cls="RandMaxVar", dim=1, bounds=[[-1.0, 1.0]], prior=[[-0.5, 0.5]], noise=0, seed=5, calls=[[2, 0]],
                    sampler="nuts", pinned="F12"))
    return out


def classify(sc, tr, v):
    if sc["kind"] != "acq" or sc.get("cls") != "RandMaxVar":
        return None
    e = tr["events"][min(v["l"] - 2, len(tr["events"]) - 1)]
    if v["verdict"] == "P:acquire-returns" and sc.get("sampler", "metropolis") == "nuts" and e.get("raised", "") == "TypeError":
        return "F12"
    return None


def mc_cfg(mp, bpa, off, total, asy, invs, live=True):
    return """SPECIFICATION Spec
CONSTANTS
  MaxPar = %d
  BPA = %d
  OffB = %d
  Total = %d
  Async = %s
%s
%s
CHECK_DEADLOCK FALSE
""" % (mp, bpa, off, total, "TRUE" if asy else "FALSE", "\n".join("INVARIANT " + i for i in invs), "PROPERTY Terminates" if live else "")


INV = ["EvidenceIsConsumedSequence", "QueueExact", "AcquisitionSeesAllEarlierEvidence", "ScheduleIndependentEvidence", "Bounded", "NoLeak"]


def check_scenarios(ctx, scs):
    traces = [record(sc) for sc in scs]
    verdicts = ctx.validate("BoLoop_Trace", traces, chunk=20)
    for sc, tr, v in zip(scs, traces, verdicts):
        n_false = sum(1 for e in tr["events"] if e["ev"] == "ready" and not e["ans"])
        ctx.case(str(sc), nontrivial=(sc["kind"] == "acq" or n_false > 0 or sc["maxpar"] > 1))
        ctx.trace_events += len(tr["events"])
        if v["verdict"] != "ok":
            e = tr["events"][min(v["l"] - 2, len(tr["events"]) - 1)]
            ctx.fail(v["verdict"], sc, detail=dict(event={k: e[k] for k in ("ev", "n", "t", "raised", "pts", "g", "fd") if k in e}),
                     finding=classify(sc, tr, v))
        elif v["drift"]:
            ctx.drifted(v["drift"], sc)
    return traces


def run(ctx):
    ctx.rule = ("seeded BayesianOptimization fits on 1-2 parameter models (priors wider / narrower than the bounds) over batch sizes {1,2}, "
                "batches_per_acquisition {1,2}, initial evidence {count, precomputed dict, zero, not divisible by batch_size}, update intervals "
                "{1,2,10}, acquisition noise {0, scalar, per-parameter}, LCBSC and UniformAcquisition, each under max_parallel_batches {1,2,3} with "
                "seeded random client schedules; plus direct acquire(n, t) calls of LCBSC / MaxVar / RandMaxVar / ExpIntVar / Uniform on fitted "
                "surrogates and gradient-vs-central-difference checks for LCBSC and MaxVar.  Non-trivial = parallel / unready schedule, or a direct call.")
    ctx.clauses_decided = ["a: acquired and simulated points inside the bounds", "b: acquire(n, t) returns n points",
                           "c: surrogate evidence = precomputed + consumed (parameter, target) pairs in order; n_evidence", "d: synchronous fit independent of the schedule",
                           "e: LCBSC / MaxVar gradient = derivative of its own acquisition function (central difference, relative 2e-3)"]
    ctx.clauses_not_decided = ["e for RandMaxVar / ExpIntVar (no analytic/finite-difference pair exposed with a stable scale)", "optimality of the acquired point (not claimed)"]
    ctx.trusted_base.append("GPy / scipy.optimize as black boxes that return some point")
    runs = [(2, 2, 2, 6, False, INV, True), (3, 2, 1, 6, False, INV, True), (3, 1, 0, 5, False, INV, True), (2, 2, 2, 6, True, ["ScheduleIndependentEvidence"], False)]
    if not ctx.quick:
        runs += [(mp, bpa, off, 8, False, INV, True) for mp in (1, 2, 3, 4) for bpa in (1, 2, 3) for off in (0, 1, 3)]
    for i, (mp, bpa, off, total, asy, invs, ok) in enumerate(runs):
        ctx.tlc("BoLoop", "MC_BoLoop_%d" % i, cfg_text=mc_cfg(mp, bpa, off, total, asy, invs, live=ok),
                expect_actions=["Submit", "GoWait", "WaitNext", "Finish"] if ok else None, expect_ok=ok, timeout=600, workers=4)
    scs = scenarios(ctx)
    traces = check_scenarios(ctx, scs)
    for i in (0, len(scs) - 4):
        ctx.sample(dict(scenario=scs[i], events=[{k: e[k] for k in ("ev", "id", "n", "t", "pend") if k in e} for e in traces[i]["events"][:10]]))
    from harness.props import x_bolfi_pipeline
    x_bolfi_pipeline.check_bolfi_pipeline(ctx)      # extension: the BOLFI public call pipeline as a state machine (E: clauses, drift only)


def replay(ctx, scenario):
    check_scenarios(ctx, [scenario])

"""C12 - distance nodes compute the stated metric; adaptive scales ignore batching.

O1: Distance.tla exhaustively (ndarray-grain transcription of distance_as_discrepancy against the
    statement-level definition: all batch sizes x numbers / widths of summaries x metrics with and
    without keyword arguments); Welford.tla exhaustively (every small integer data set with EVERY
    ordered partition into add_data calls; several update rounds); negative controls.
O3: real elfi.Distance / elfi.AdaptiveDistance nodes on integer data - node.generate(with_values=..),
    model.generate, Rejection.sample - recorded and validated by TLC against Distance_Trace.tla /
    Welford_Trace.tla, which recompute every expected value from the logged inputs in exact
    integer / rational arithmetic.
"""
import itertools
import math
import random

import numpy as np

from harness import tlc
from harness.util import Hang, time_limit

WORKERS = 8
SENT = 2000000000          # non-finite / out-of-range marker (the trace specs treat |x| >= 10^9 as not a number)
UD = 1000                  # fixed-point unit of Distance traces


# ------------------------------------------------------------------------------ encoding helpers
def enc(x, unit):
    """float -> fixed-point integer; non-finite or too large -> marker (never a float, never >= 2^31)."""
    try:
        x = float(x)
    except (TypeError, ValueError):
        return SENT + 3
    if math.isnan(x):
        return SENT
    if math.isinf(x):
        return SENT + 1 if x > 0 else -(SENT + 1)
    v = x * unit
    if abs(v) >= 10 ** 9:
        return SENT + 2
    return int(round(v))


def ival(x):
    x = float(x)
    r = int(round(x))
    if r != x or abs(r) > 10 ** 6:
        raise tlc.MachineryFailure("harness fed / read a non-integer summary value %r" % x)
    return r


NOT_INT = 999999           # a value read back from elfi that is not an integer of the input domain (e.g. filler memory)


def ival_read(x):
    x = float(x)
    if not math.isfinite(x) or x != round(x) or abs(x) >= 100000:
        return NOT_INT
    return int(round(x))


def to_rows(a, read=False):
    """summary output (n,) or (n, w) -> list of rows of ints.  read=True: the array comes out of elfi (a sampler's
    result); anything that is not a small integer is logged as NOT_INT and judged by the trace spec."""
    a = np.asarray(a)
    f = ival_read if read else ival
    if a.ndim == 1:
        return [[f(x)] for x in a]
    if a.ndim == 2:
        return [[f(x) for x in r] for r in a]
    raise tlc.MachineryFailure("summary output of ndim %d" % a.ndim)


def to_array(rows, w):
    """list of rows of ints -> summary output: scalar summary (w == 0) -> (n,), vector -> (n, w)."""
    if w == 0:
        return np.array([float(r[0]) for r in rows], dtype=float)
    return np.array(rows, dtype=float).reshape(len(rows), w)


def cols(w):
    return 1 if w == 0 else w


def split_row(row, widths):
    out, a = [], 0
    for w in widths:
        out.append(list(row[a:a + cols(w)]))
        a += cols(w)
    return out


def sums_of_stacked(rows, widths):
    """stacked rows -> per-summary rows."""
    return [[split_row(r, widths)[k] for r in rows] for k in range(len(widths))]


def matrix(out, unit):
    """node output -> (shape, rows x columns of round(d*unit), of round(d*d*unit))."""
    a = np.asarray(out, dtype=float)
    shape = [int(s) for s in a.shape]
    if a.ndim == 1:
        a2 = a.reshape(-1, 1)
    elif a.ndim == 2:
        a2 = a
    else:
        return shape, [], []
    return shape, [[enc(x, unit) for x in r] for r in a2], [[enc(x * x, unit) for x in r] for r in a2]


# ------------------------------------------------------------------------------ the elfi model
class Sim:
    """Simulator whose rows are table rows addressed by id = batch_index * batch_size + row."""

    def __init__(self, tot):
        self.tot = tot
        self.table = None
        self.ids = []

    def __call__(self, t, batch_size=1, random_state=None, meta=None):
        if self.table is None:
            return np.zeros((batch_size, self.tot))
        bi = int(meta["batch_index"])
        ids = [bi * batch_size + r for r in range(batch_size)]
        self.ids.extend(ids)
        return np.array([self.table[i % len(self.table)] for i in ids], dtype=float).reshape(batch_size, self.tot)


def make_summary(a, w):
    if w == 0:
        return lambda y: y[:, a]
    return lambda y: y[:, a:a + w]


class CallLog:
    def __init__(self, column):
        self.column = column
        self.calls = []

    def __call__(self, X, Y):
        X = np.asarray(X)
        Y = np.asarray(Y)
        self.calls.append((X.copy(), Y.copy()))
        d = np.abs(X - Y).sum(axis=1)
        return d.reshape(-1, 1) if self.column else d


def build(widths, obs, node, md=None):
    """prior -> simulator Y (batch x all columns) -> Summary k (its columns; scalar or (batch, w)) -> d."""
    import elfi
    m = elfi.ElfiModel(name="c12")
    tot = sum(cols(w) for w in widths)
    flat = [float(x) for o in obs for x in o]
    elfi.Prior("uniform", 0, 1, model=m, name="t")
    sim = Sim(tot)
    y = elfi.Simulator(sim, m["t"], observed=np.array([flat], dtype=float), model=m, name="Y")
    y.uses_meta = True
    a = 0
    ss = []
    for k, w in enumerate(widths):
        ss.append(elfi.Summary(make_summary(a, w), y, model=m, name="s%d" % (k + 1)))
        a += cols(w)
    log = None
    if node == "adaptive":
        d = elfi.AdaptiveDistance(*ss, model=m, name="d")
    else:
        kw = {}
        for key in md["kw"]:
            kw[key] = md[key] if key == "p" else np.array(md[key], dtype=float)
        if md["callable"]:
            log = CallLog(md["callable"] == "column")
            d = elfi.Distance(log, *ss, model=m, name="d", **kw)
        else:
            d = elfi.Distance(md["name"], *ss, model=m, name="d", **kw)
    return m, d, sim, log


def names(widths):
    return ["s%d" % (k + 1) for k in range(len(widths))]


def with_values(widths, sums):
    return {n: to_array(sums[k], widths[k]) for k, n in enumerate(names(widths))}


# ------------------------------------------------------------------------------ Distance: record
def dist_event(**kw):
    e = dict(mode="", sums=[], res="val", exc="", shape=[], v=[], sq=[], xsh=[], ysh=[], x=[], y=[])
    e.update(kw)
    return e


def record_dist(sc):
    widths, obs, md = sc["widths"], sc["obs"], sc["metric"]
    events = []
    try:
        with time_limit(20):
            model, d, sim, log = build(widths, obs, "dist", md)
        built = None
    except Exception as ex:      # the node refused a configuration the property covers
        built = "%s: %s" % (type(ex).__name__, str(ex)[:200])
    for ev in sc["evals"]:
        e = dist_event(mode=ev["mode"], sums=ev.get("sums", []))
        events.append(e)
        if built is not None:
            e["res"], e["exc"] = "raise", built
            continue
        try:
            with time_limit(60):
                if log is not None:
                    del log.calls[:]
                if ev["mode"] in ("with_values", "default_bs"):
                    n = len(ev["sums"][0])
                    wv = with_values(widths, ev["sums"])
                    out = d.generate(n, with_values=wv) if ev["mode"] == "with_values" else d.generate(with_values=wv)
                elif ev["mode"] == "model":
                    sim.table, sim.ids = ev["table"], []
                    res = model.generate(ev["bs"], outputs=names(widths) + ["d"], seed=ev["seed"])
                    e["sums"] = [to_rows(res[n], read=True) for n in names(widths)]
                    out = res["d"]
                elif ev["mode"] == "sampler":
                    import elfi
                    sim.table, sim.ids = ev["table"], []
                    rej = elfi.Rejection(d, batch_size=ev["bs"], seed=ev["seed"], output_names=names(widths),
                                         max_parallel_batches=1)
                    res = rej.sample(ev["n"], n_sim=ev["n_sim"], bar=False)
                    e["sums"] = [to_rows(res.outputs[n], read=True) for n in names(widths)]
                    out = res.outputs["d"]
                else:
                    raise tlc.MachineryFailure("unknown mode %r" % ev["mode"])
            out = np.asarray(out, dtype=float)
            e["shape"] = [int(s) for s in out.shape]
            flat = out.reshape(-1)
            e["v"] = [enc(x, UD) for x in flat]
            e["sq"] = [enc(x * x, UD) for x in flat]
            if log is not None and log.calls and ev["mode"] in ("with_values", "default_bs"):
                X, Y = log.calls[-1]
                e["xsh"], e["ysh"] = [int(s) for s in X.shape], [int(s) for s in Y.shape]
                if X.ndim == 2 and Y.ndim == 2:
                    e["x"], e["y"] = to_rows(X, read=True), to_rows(Y, read=True)
        except Hang:
            e["res"] = "hang"
        except tlc.MachineryFailure:
            raise
        except Exception as ex:      # raised by elfi / scipy on an input the property covers: an event
            e["res"], e["exc"] = "raise", "%s: %s" % (type(ex).__name__, str(ex)[:200])
    metric = dict(name=md["name"], p=md.get("p", 2), w=md.get("w", []) if "w" in md["kw"] else [],
                  V=md.get("V", []) if "V" in md["kw"] else [], VI=md.get("VI", []) if "VI" in md["kw"] else [],
                  callable=bool(md["callable"]))
    return dict(widths=widths, obs=obs, metric=metric, unit=UD, events=events)


# ------------------------------------------------------------------------------ Adaptive: record
def ad_event(**kw):
    e = dict(ev="", sums=[], rsums=[], qid=-1, res="val", exc="", n=-1, mean=[], m2=[], sc2=[], w2=[], nw=-1, ndf=-1,
             shape=[], v=[], sq=[], nsim=-1, bs=-1)
    e.update(kw)
    return e


def record_adapt(sc):
    widths, obs, U, UW = sc["widths"], sc["obs"], sc["unit"], sc["unitw"]
    C = sum(cols(w) for w in widths)
    # pow2 = k: the whole scenario is played on data multiplied by S = 2^-k (exact in floats) and every logged quantity is
    # brought back to the unscaled units (scale / S, weight * S, plain distance / S; the scaled distances are invariant):
    # the trace is the one of the unscaled scenario whatever the magnitude of the summaries
    S = 2.0 ** -sc.get("pow2", 0)
    with time_limit(20):
        model, d, sim, _ = build(widths, [[x * S for x in o] for o in obs] if S != 1.0 else obs, "adaptive")
    if sc.get("episode_before"):
        # the node has been through an earlier adaptation episode (other data, as many updates as the script will make) and was
        # re-initialised with the public init_state(): nothing of that episode may show in what follows
        try:
            with time_limit(20), np.errstate(all="ignore"):
                first = [st for st in sc["script"] if st["op"] == "add"]
                ops_ = [st["op"] for st in sc["script"]]
                nu = sum(1 for o in ops_[:ops_.index("gen")] if o == "update")      # as many updates as precede the first evaluation
                if first and nu:
                    for i in range(nu):
                        arrs = []
                        for k in range(len(widths)):
                            a = np.asarray(to_array(first[0]["sums"][k], widths[k]), dtype=float) * S
                            ramp = np.arange(a.shape[0], dtype=float).reshape((-1,) + (1,) * (a.ndim - 1)) * S * (k + 1.0)
                            arrs.append(a * (3.0 + 2 * k + i) + ramp)
                        d.add_data(*arrs)
                        d.update_distance()
                        g0 = [st for st in sc["script"] if st["op"] == "gen"][0]       # ... and its distances were looked at
                        wv0 = with_values(widths, g0["sums"])
                        d.generate(len(g0["sums"][0]), with_values={k_: v_ * S for k_, v_ in wv0.items()})
                    d.init_state()
        except Exception:
            d.init_state()
    events = []
    for st in sc["script"]:
        op = st["op"]
        e = ad_event(ev=op, sums=st.get("sums", []), qid=st.get("qid", -1))
        events.append(e)
        try:
            with time_limit(60):
                if op == "add":
                    d.add_data(*[to_array(st["sums"][k], widths[k]) * S for k in range(len(widths))])
                    store = d.state["store"]
                    e["n"] = int(store[0])
                    e["mean"] = [enc(x / S, U) for x in np.broadcast_to(np.asarray(store[1], dtype=float), (C,))]
                    e["m2"] = [enc(x / S / S, U) for x in np.broadcast_to(np.asarray(store[2], dtype=float), (C,))]
                    e["sc2"] = [enc((x / S) * (x / S), U) for x in np.asarray(d.state["scale"], dtype=float).reshape(-1)]
                elif op == "update":
                    with np.errstate(all="ignore"):
                        d.update_distance()
                    w = np.asarray(d.state["w"][-1], dtype=float).reshape(-1) * S
                    e["w2"] = [enc(x * x, UW) for x in w]
                    e["nw"], e["ndf"] = len(d.state["w"]), len(d.state["distance_functions"])
                    e["n"] = int(d.state["store"][0])
                elif op == "gen":
                    wv = with_values(widths, st["sums"])
                    if S != 1.0:
                        wv = {k: v * S for k, v in wv.items()}
                    n = len(st["sums"][0])
                    out = d.generate(n, with_values=wv) if st.get("bs_given", True) else d.generate(with_values=wv)
                    if S != 1.0:
                        out = np.array(out, dtype=float)
                        if out.ndim == 1:
                            out = out / S
                        else:
                            out[:, 0] = out[:, 0] / S
                    e["shape"], e["v"], e["sq"] = matrix(out, U)
                elif op == "run":
                    import elfi
                    sim.table, sim.ids = st["table"], []
                    # (the user may list the summaries among the outputs in any order: the distance's own parent order decides
                    #  which column is which)
                    onames = list(reversed(names(widths))) if st.get("rev_out") else names(widths)
                    rej = elfi.Rejection(d, batch_size=st["bs"], seed=st["seed"], output_names=onames,
                                         max_parallel_batches=1)
                    if st.get("thr") is not None:
                        # a threshold objective (on the plain Euclidean distance of the fresh node): batches WITHOUT any accepted
                        # row are adaptation data like all others
                        res = rej.sample(st["n"], threshold=float(st["thr"]), bar=False)
                    else:
                        res = rej.sample(st["n"], n_sim=st["n_sim"], bar=False)
                    data = [st["table"][i % len(st["table"])] for i in sim.ids]      # the simulator's own log
                    e["sums"] = sums_of_stacked(data, widths)
                    e["rsums"] = [to_rows(res.outputs[n], read=True) for n in names(widths)]
                    e["shape"], e["v"], e["sq"] = matrix(res.outputs["d"], U)
                    # the sampler works on its own copy of the model; the copy's node holds state['scale']
                    dn = rej.model["d"]
                    e["sc2"] = [enc(x * x, U) for x in np.asarray(dn.state["scale"], dtype=float).reshape(-1)]
                    e["nw"], e["nsim"], e["bs"] = len(dn.state["w"]), int(res.n_sim), st["bs"]
                else:
                    raise tlc.MachineryFailure("unknown op %r" % op)
        except Hang:
            e["res"] = "hang"
        except tlc.MachineryFailure:
            raise
        except Exception as ex:
            e["res"], e["exc"] = "raise", "%s: %s" % (type(ex).__name__, str(ex)[:200])
            if op == "run":
                data = [st["table"][i % len(st["table"])] for i in sim.ids] or st["table"]
                e["sums"] = sums_of_stacked(data, widths)
    return dict(widths=widths, obs=obs, unit=U, unitw=UW, events=events)


def record(sc):
    return record_dist(sc) if sc["kind"] == "dist" else record_adapt(sc)


# ------------------------------------------------------------------------------ scenario generation
def all_widths(max_sums=3, max_w=3):
    out = []
    for n in range(1, max_sums + 1):
        out.extend(list(ws) for ws in itertools.product(range(max_w + 1), repeat=n))
    return out


def metric_descriptors(mm, rnd):
    """Every metric of the integer sub-domain for total width mm, with and without keyword arguments."""
    w = [rnd.randint(1, 3) for _ in range(mm)]
    V = [rnd.choice([1, 4, 4, 2]) for _ in range(mm)]
    VI = [[0] * mm for _ in range(mm)]
    for a in range(mm):
        VI[a][a] = rnd.randint(2, 3)          # diagonally dominant: positive semi-definite, so the metric is real
        if a + 1 < mm:
            VI[a][a + 1] = VI[a + 1][a] = rnd.choice([0, 1, -1])
    out = []
    for name in ("cityblock", "chebyshev", "sqeuclidean", "euclidean"):
        out.append(dict(name=name, kw=[], callable=""))
        out.append(dict(name=name, kw=["w"], w=w, callable=""))
    out.append(dict(name="minkowski", kw=[], p=2, callable=""))                      # default p
    out.append(dict(name="minkowski", kw=["p"], p=1, callable=""))
    out.append(dict(name="minkowski", kw=["p"], p=2, callable=""))
    out.append(dict(name="minkowski", kw=["p", "w"], p=1, w=w, callable=""))
    out.append(dict(name="minkowski", kw=["p", "w"], p=2, w=w, callable=""))
    out.append(dict(name="seuclidean", kw=["V"], V=V, callable=""))
    out.append(dict(name="mahalanobis", kw=["VI"], VI=VI, callable=""))
    out.append(dict(name="cityblock", kw=[], callable="vector"))      # harness-supplied callable returning (n,)
    out.append(dict(name="cityblock", kw=[], callable="column"))      # ... returning (n, 1) like cdist
    return out


def rand_rows(rnd, n, C, lo=0, hi=9):
    return [[rnd.randint(lo, hi) for _ in range(C)] for _ in range(n)]


def dist_scenarios(ctx):
    rnd = random.Random(ctx.seed * 7919 + 12)
    out = []
    bss = [1, 2, 3] if ctx.quick else [1, 2, 3, 5]
    per_shape = 4 if ctx.quick else 17
    rot = ctx.seed
    for bs in bss:
        for widths in all_widths():
            C = sum(cols(w) for w in widths)
            mds = metric_descriptors(C, rnd)
            for _ in range(min(per_shape, len(mds))):
                md = mds[rot % len(mds)]
                rot += 1
                obs = split_row(rand_rows(rnd, 1, C)[0], widths)
                evals = [dict(mode="with_values", sums=sums_of_stacked(rand_rows(rnd, bs, C), widths)),
                         dict(mode="default_bs", sums=sums_of_stacked(rand_rows(rnd, bs, C), widths))]
                r = rnd.random()
                if r < 0.25:
                    evals.append(dict(mode="model", bs=bs, table=rand_rows(rnd, bs, C), seed=(0 if rnd.random() < 0.1 else rnd.randint(0, 10 ** 6))))
                elif r < 0.35:
                    n_sim = bs * rnd.randint(1, 3)
                    evals.append(dict(mode="sampler", bs=bs, n=rnd.randint(1, n_sim), n_sim=n_sim,
                                      table=rand_rows(rnd, n_sim, C), seed=rnd.randint(0, 10 ** 6)))
                out.append(dict(kind="dist", widths=widths, obs=obs, metric=md, evals=evals))
    return out


def compositions(n):
    """all ordered partitions of n into positive parts."""
    if n == 0:
        yield []
        return
    for first in range(1, n + 1):
        for rest in compositions(n - first):
            yield [first] + rest


def pick_unit(maxdelta, nmax, vrange, vmax, C):
    """largest power of ten (<= 10^6) keeping every product of the trace spec (and every logged value) below 10^9:
    C * delta^2 * n^2 * U (squared scaled distance, Q >= 1), (range^2 / 4) * n^2 * U (scale^2 * n^2, Q * U),
    vmax * n * U (mean * denominator)."""
    worst = max(C * maxdelta * maxdelta, vrange * vrange // 4 + 1, vmax // max(nmax, 1) + 1, 1) * nmax * nmax
    u = 10 ** 6
    while u > 1 and worst * u >= 10 ** 9:
        u //= 10
    if u < 100:
        raise tlc.MachineryFailure("adaptive scenario too large for 32-bit fixed point")
    return u


def units_for(obs, rows_lists, queries):
    flat_obs = [x for o in obs for x in o]
    vals = [x for rows in rows_lists for r in rows for x in r]
    nmax = max(len(rows) for rows in rows_lists)
    qv = [x for q in queries for r in q for x in r] + vals
    maxdelta = max(abs(x - o) for x in qv for o in flat_obs)
    return (pick_unit(maxdelta, nmax, max(vals) - min(vals), max(abs(v) for v in vals), len(flat_obs)),
            10 ** 4 if nmax <= 100 else 100)


def nondegenerate(rows):
    return len(rows) >= 2 and all(len(set(r[j] for r in rows)) > 1 for j in range(len(rows[0])))


def parts_script(rows, comp, widths):
    script, a = [], 0
    for k in comp:
        script.append(dict(op="add", sums=sums_of_stacked(rows[a:a + k], widths)))
        a += k
    return script


def adapt_scenarios(ctx):
    out = _adapt_scenarios(ctx)
    for i, sc in enumerate(out):
        ops = [st["op"] for st in sc.get("script", [])]
        if i % 3 == 0 and "run" not in ops and "update" in ops and "gen" in ops[ops.index("update"):]:
            # variant: the distances are first looked at AFTER the first update (the evaluations before it are dropped), on a node that
            # went through an earlier episode
            fu = ops.index("update")
            sc["script"] = [st for j, st in enumerate(sc["script"]) if not (st["op"] == "gen" and j < fu)]
            sc["tag"] = sc.get("tag", "") + "-second-episode"
            sc["episode_before"] = True
    return out


def _adapt_scenarios(ctx):
    rnd = random.Random(ctx.seed * 104729 + 12)
    out = []
    # (1) exhaustive tiny domain: one scalar summary, every data set over 0..V of <= N rows, EVERY ordered partition
    V, N = (2, 4) if ctx.quick else (3, 5)
    for n in range(1, N + 1):
        for data in itertools.product(range(V + 1), repeat=n):
            rows = [[x] for x in data]
            for comp in compositions(n):
                out.append(dict(kind="adapt", tag="tiny", widths=[0], obs=[[1]], unit=10 ** 6, unitw=10 ** 4,
                                script=parts_script(rows, comp, [0])))
    # (2) every ordered partition of seeded data sets for several summary layouts, then update and evaluate
    layouts = [[0], [1], [2], [0, 0], [0, 2], [3], [1, 0, 2], [0, 0, 0]] if ctx.quick else \
              [[0], [1], [2], [3], [0, 0], [0, 1], [0, 2], [2, 1], [3, 0], [1, 0, 2], [0, 0, 0], [3, 3, 3]]
    nrows = [2, 3, 4, 5] if ctx.quick else [2, 3, 4, 5, 6, 7]
    for widths in layouts:
        C = sum(cols(w) for w in widths)
        for n in nrows:
            for rep in range(1 if ctx.quick else 2):
                while True:
                    rows = rand_rows(rnd, n, C, 0, rnd.choice([3, 9]))
                    if nondegenerate(rows):
                        break
                obs = split_row(rand_rows(rnd, 1, C, 0, 9)[0], widths)
                queries = [rand_rows(rnd, rnd.choice([1, 2, 3]), C, 0, 9)]
                U, UW = units_for(obs, [rows], queries)
                for comp in compositions(n):
                    script = parts_script(rows, comp, widths)
                    script.append(dict(op="gen", qid=0, sums=sums_of_stacked(queries[0], widths)))
                    script.append(dict(op="update"))
                    script.append(dict(op="gen", qid=0, sums=sums_of_stacked(queries[0], widths)))
                    out.append(dict(kind="adapt", tag="partitions", widths=widths, obs=obs, unit=U, unitw=UW, script=script))
    # (3) degenerate columns (constant data -> scale 0): the scale clause only, no update
    for widths, rows in (([0], [[2], [2], [2]]), ([0, 0], [[1, 5], [3, 5], [2, 5]]), ([2], [[4, 4]])):
        for comp in compositions(len(rows)):
            out.append(dict(kind="adapt", tag="constant", widths=widths, obs=split_row([1] * len(rows[0]), widths),
                            unit=10 ** 5, unitw=10 ** 4, script=parts_script(rows, comp, widths)))
    # (4) several update rounds, random partitions, pinned queries re-evaluated after every update
    n_multi = 60 if ctx.quick else 600
    for _ in range(n_multi):
        widths = rnd.choice(all_widths())
        C = sum(cols(w) for w in widths)
        R = rnd.randint(2, 4) if ctx.quick else rnd.randint(2, 6)
        hi = rnd.choice([3, 9, 20])
        obs = split_row(rand_rows(rnd, 1, C, 0, hi)[0], widths)
        pinned = [rand_rows(rnd, rnd.choice([1, 1, 2, 3]), C, 0, hi) for _q in range(2)]
        datas, fresh = [], []
        for r in range(R):
            while True:
                rows = rand_rows(rnd, rnd.randint(2, 12 if hi <= 9 else 8), C, 0, hi)
                if nondegenerate(rows):
                    break
            datas.append(rows)
            fresh.append(rand_rows(rnd, rnd.choice([1, 2]), C, 0, hi))
        U, UW = units_for(obs, datas, pinned + fresh)
        script = [dict(op="gen", qid=q, sums=sums_of_stacked(pinned[q], widths), bs_given=bool(q)) for q in range(2)]
        for r in range(R):
            comp = rnd.choice(list(compositions(min(len(datas[r]), 6))))
            if len(datas[r]) > 6:
                comp = comp + [len(datas[r]) - 6]
                rnd.shuffle(comp)
            script += parts_script(datas[r], comp, widths)
            script.append(dict(op="update"))
            script += [dict(op="gen", qid=q, sums=sums_of_stacked(pinned[q], widths), bs_given=bool(q)) for q in range(2)]
            script.append(dict(op="gen", qid=10 + r, sums=sums_of_stacked(fresh[r], widths)))
        out.append(dict(kind="adapt", tag="rounds", widths=widths, obs=obs, unit=U, unitw=UW, script=script))
    # (4b) the same on summaries of very small / large magnitude (exact power-of-two rescaling of data and observations)
    scaled = []
    for sc in out:
        if sc.get("tag") in ("rounds", "partitions") and not any(st["op"] == "run" for st in sc["script"]) and rnd.random() < 0.25:
            scaled.append(dict(sc, tag=sc["tag"] + "-pow2", pow2=rnd.choice([45, 60, 70, -30])))
    out.extend(scaled)
    # (5) inside a model run: Rejection over the adaptive node, the same table split by different batch sizes
    out.extend(run_scenarios(ctx, rnd))
    return out


PINNED_TABLE = [[3, 9], [2, 16], [3, 20], [5, 12], [6, 19], [1, 3], [7, 25], [0, 8], [4, 30], [2, 2], [5, 17], [6, 11]]


def run_scenarios(ctx, rnd):
    out = []
    # pinned: summaries of different spread, so that re-sorting by the newest distance permutes the sample
    # (the input class of F24: Rejection._update_distances left the discrepancy column unsorted)
    for bs in (1, 2, 3, 4, 6, 12):
        out.append(run_scenario([0, 0], [[3], [15]], PINNED_TABLE, bs, 5, 12, 1000 + bs, runs=1))
    out.append(run_scenario([2], [[3, 15]], PINNED_TABLE, 4, 5, 12, 7, runs=2))
    # threshold objective: half of the table's rows lie within 5.5 of the observed (3, 15); small batches have no acceptance
    for bs in (1, 2, 3, 12):
        out.append(run_scenario([0, 0], [[3], [15]], PINNED_TABLE, bs, 5, 12, 2000 + bs, runs=1, thr=5.5))
    for _ in range(6 if ctx.quick else 60):
        widths = rnd.choice([[0, 0], [2], [1, 0]])
        while True:
            table = [[rnd.randint(0, 9), rnd.randint(0, 20)] for _r in range(rnd.randint(6, 12))]
            # (at least two rows are consumed; any two leading rows differ in every column: no degenerate adaptation round)
            if nondegenerate(table) and table[0][0] != table[1][0] and table[0][1] != table[1][1]:
                break
        ob = [rnd.randint(2, 7), rnd.randint(5, 15)]
        d2 = sorted((r[0] - ob[0]) ** 2 + (r[1] - ob[1]) ** 2 for r in table)
        thr = (d2[len(d2) // 2] + 0.25) ** 0.5            # about half of the rows acceptable, no row exactly on the threshold
        n_ok = sum(1 for v in d2 if v <= thr * thr)
        out.append(run_scenario(widths, split_row(ob, widths), table, rnd.choice([1, 2, 3]), rnd.randint(2, max(2, n_ok)), len(table),
                                rnd.randint(0, 10 ** 6), runs=1, thr=thr))
    n_rand = 25 if ctx.quick else 250
    for _ in range(n_rand):
        widths = rnd.choice([[0], [0, 0], [2], [1, 0], [0, 2], [3], [0, 0, 0]])
        C = sum(cols(w) for w in widths)
        n_sim = rnd.randint(3, 14)
        his = [rnd.choice([3, 9, 20]) for _c in range(C)]
        while True:
            table = [[rnd.randint(0, his[j]) for j in range(C)] for _r in range(n_sim)]
            if nondegenerate(table):
                break
        obs = split_row([rnd.randint(0, his[j]) for j in range(C)], widths)
        bs = rnd.choice([b for b in range(1, n_sim + 1) if n_sim % b == 0])
        out.append(run_scenario(widths, obs, table, bs, rnd.randint(1, n_sim), n_sim, rnd.randint(0, 10 ** 6),
                                runs=rnd.choice([1, 1, 2, 3])))
    return out


def run_scenario(widths, obs, table, bs, n, n_sim, seed, runs=1, thr=None):
    C = len(table[0])
    U, UW = units_for(obs, [table * (1 if thr is None else 4)], [table])
    script = []
    for r in range(runs):
        # later runs see the table rotated, so every adaptation round has its own data order
        tab = table[r:] + table[:r]
        script.append(dict(op="run", table=tab, bs=bs, n=n, n_sim=n_sim, seed=seed + r, thr=thr, rev_out=(len(widths) > 1 and (seed + r) % 2 == 0)))
        script.append(dict(op="gen", qid=0, sums=sums_of_stacked(table[:2], widths)))
    return dict(kind="adapt", tag="run", widths=widths, obs=obs, unit=U, unitw=UW, script=script)


# ------------------------------------------------------------------------------ checking
def key_of(sc):
    if sc["kind"] == "dist":
        md = sc["metric"]
        return ("dist", tuple(sc["widths"]), md["name"], tuple(md["kw"]), md["callable"], md.get("p", 2),
                tuple(len(e.get("sums", [[]])[0]) if "sums" in e else e["bs"] for e in sc["evals"]),
                tuple(e["mode"] for e in sc["evals"]))
    return ("adapt", sc["tag"], tuple(sc["widths"]), tlc_digest(sc["script"]))


def tlc_digest(obj):
    import hashlib
    import json
    return hashlib.sha256(json.dumps(obj, sort_keys=True).encode()).hexdigest()[:16]


def nontrivial(sc):
    if sc["kind"] == "dist":
        return True
    ops = [s["op"] for s in sc["script"]]
    return ops.count("add") >= 2 or "run" in ops or "update" in ops


def check_scenarios(ctx, scs):
    traces = [record(sc) for sc in scs]
    for module, kind in (("Distance_Trace", "dist"), ("Welford_Trace", "adapt")):
        idx = [i for i, sc in enumerate(scs) if sc["kind"] == kind]
        if not idx:
            continue
        trs = [traces[i] for i in idx]
        chunk = max(300, -(-len(trs) // WORKERS))
        verdicts = ctx.validate(module, trs, chunk=chunk, name=kind)
        for i, v in zip(idx, verdicts):
            sc, tr = scs[i], traces[i]
            ctx.case(key_of(sc), nontrivial=nontrivial(sc))
            ctx.trace_events += len(tr["events"])
            if v["verdict"] != "ok":
                at = min(max(v["l"] - 2, 0), len(tr["events"]) - 1)
                ctx.fail(v["verdict"], sc, detail=dict(at_event=at, event=tr["events"][at]))
            elif v["drift"]:
                ctx.drifted(v["drift"], sc)
    return traces


def corruption_controls(ctx, scs, traces):
    """Negative controls of the trace specs (binding demonstration, T5 i): one recorded OUTPUT field of a passing
    trace is corrupted by a few fixed-point units; TLC must reject the trace with the expected clause."""
    import copy

    def first(pred):
        for sc, tr in zip(scs, traces):
            if pred(sc, tr):
                return copy.deepcopy(tr)
        raise tlc.MachineryFailure("no trace to corrupt")

    dist, adapt = [], []
    t = first(lambda sc, tr: sc["kind"] == "dist" and sc["metric"]["name"] == "cityblock" and not sc["metric"]["callable"])
    t["events"][0]["v"][0] += 1
    dist.append(("cityblock value off by 0.001", "P:metric", t))
    t = first(lambda sc, tr: sc["kind"] == "dist" and sc["metric"]["name"] == "euclidean")
    t["events"][0]["sq"][0] += 1
    dist.append(("euclidean square off by 0.001", "P:metric", t))
    t = first(lambda sc, tr: sc["kind"] == "dist")
    t["events"][1]["shape"] = t["events"][1]["shape"] + [1]
    dist.append(("output shape (n, 1)", "P:one-per-row", t))
    t = first(lambda sc, tr: sc["kind"] == "dist" and len(sc["widths"]) >= 2 and sc["metric"]["callable"])
    t["events"][0]["xsh"] = [t["events"][0]["xsh"][0] * t["events"][0]["xsh"][1]]
    dist.append(("callable received a 1-d XA", "M:XA-shape", t))

    t = first(lambda sc, tr: sc["kind"] == "adapt" and sc["tag"] == "partitions" and len(tr["events"]) >= 5)
    k = max(i for i, e in enumerate(t["events"]) if e["ev"] == "add")
    t["events"][k]["sc2"][0] += 3
    adapt.append(("scale^2 off by 3 units after the last add_data", "P:scale", t))
    t = first(lambda sc, tr: sc["kind"] == "adapt" and sc["tag"] == "partitions")
    t["events"][-1]["sq"][0][-1] += len(t["events"][-1]["sq"][0]) + 20
    adapt.append(("newest squared distance off", "P:newest", t))
    t = first(lambda sc, tr: sc["kind"] == "adapt" and sc["tag"] == "rounds")
    k = [i for i, e in enumerate(t["events"]) if e["ev"] == "gen" and e["qid"] == 0][-1]
    t["events"][k]["v"][0][0] += 1
    adapt.append(("an earlier column changed on re-evaluation", "P:earlier-unchanged", t))
    t = first(lambda sc, tr: sc["kind"] == "adapt" and sc["tag"] == "run")
    e = t["events"][0]
    if len(e["v"]) >= 2:
        e["v"][0], e["v"][1], e["sq"][0], e["sq"][1] = e["v"][1], e["v"][0], e["sq"][1], e["sq"][0]
    else:
        e["sq"][0][0] += 50
    adapt.append(("discrepancies of two result rows swapped", "P:newest", t))
    t = first(lambda sc, tr: sc["kind"] == "adapt" and sc["tag"] == "partitions")
    k = max(i for i, e in enumerate(t["events"]) if e["ev"] == "add")
    t["events"][k]["m2"][0] += 5
    adapt.append(("store[2] off by 5 units", "M:store-m2", t))

    for module, items in (("Distance_Trace", dist), ("Welford_Trace", adapt)):
        vs = ctx.validate(module, [it[2] for it in items], name="corrupt")
        for (what, want, _t), v in zip(items, vs):
            got = v["verdict"] if v["verdict"] != "ok" else v["drift"]
            if got != want:
                raise tlc.MachineryFailure("trace spec %s did not reject a corrupted trace (%s): expected %s, got %r"
                                           % (module, what, want, got))
            ctx.negative_controls.append(dict(run="corrupted trace / %s: %s" % (module, what), refuted=want))
    ctx.traces_validated -= len(dist) + len(adapt)       # not executions of the real code


def dist_cfg(maxbs, maxsums, maxw, seeds, tiny, variant):
    return """SPECIFICATION Spec
CONSTANTS
  MaxBS = %d
  MaxSums = %d
  MaxW = %d
  Seeds = {%s}
  TinyVals = {%s}
  Variant = "%s"
INVARIANT OnePerRow
INVARIANT Conforms
INVARIANT Covered
CHECK_DEADLOCK FALSE
""" % (maxbs, maxsums, maxw, ", ".join(map(str, seeds)), ", ".join(map(str, tiny)), variant)


def welford_cfg(C, vals, maxrows, maxrounds, variant):
    return """SPECIFICATION Spec
CONSTANTS
  C = %d
  Vals = {%s}
  MaxRows = %d
  MaxRounds = %d
  QVals = {0, 3}
  Variant = "%s"
INVARIANT BatchInvariant
INVARIANT NewestIsRoundScale
INVARIANT NestedIsScaledEuclid
PROPERTY NestedKeepsEarlier
PROPERTY AddKeepsDistance
CHECK_DEADLOCK FALSE
""" % (C, ", ".join(map(str, vals)), maxrows, maxrounds, variant)


def design(ctx):
    """O1.  The small configurations run with TLC's coverage statistics (every declared action must be taken);
    the large ones of the thorough tier run without them (coverage costs a factor 3-7 here) - same modules, same
    invariants, larger constants."""
    # Distance.tla: all shapes x metrics x data patterns, exhaustive data on the smallest shapes
    ctx.tlc("Distance", "MC_Distance_code", cfg_text=dist_cfg(3, 3, 3, [0, 1], [0, 1], "code"),
            expect_actions=["Eval"], workers=WORKERS, timeout=900)
    for variant in ("hstack", "noreshape"):
        ctx.tlc("Distance", "MC_Distance_%s" % variant, cfg_text=dist_cfg(2, 2, 2, [0], [], variant),
                expect_ok=False, workers=WORKERS, timeout=300)
    # Welford.tla: every data set x every ordered partition (single round), then several rounds
    for (C, vals, rows) in [(1, range(4), 6), (2, range(3), 3)]:
        ctx.tlc("Welford", "MC_Welford_c%d_v%d_n%d" % (C, len(vals), rows), cfg_text=welford_cfg(C, vals, rows, 0, "code"),
                expect_actions=["AddDataAct"], workers=WORKERS, timeout=1200)
    for (C, vals, rows, rounds) in [(1, range(2), 3, 2)]:
        ctx.tlc("Welford", "MC_Welford_c%d_v%d_n%d_r%d" % (C, len(vals), rows, rounds),
                cfg_text=welford_cfg(C, vals, rows, rounds, "code"), expect_actions=["AddDataAct", "Update"],
                workers=WORKERS, timeout=1800)
    for variant in ("perbatch", "delta1sq", "sample"):
        ctx.tlc("Welford", "MC_Welford_%s" % variant, cfg_text=welford_cfg(1, range(3), 4, 0, variant),
                expect_ok=False, workers=WORKERS, timeout=300)
    if ctx.quick:
        return
    ctx.tlc("Distance", "MC_Distance_code_large", cfg_text=dist_cfg(4, 3, 3, [0, 1, 2, 3], [0, 1, 2], "code"),
            workers=WORKERS, timeout=1800, coverage=False)
    for (C, vals, rows, rounds) in [(1, range(4), 7, 0), (2, range(4), 4, 0), (2, range(3), 5, 0), (3, range(2), 4, 0),
                                    (1, range(3), 3, 2), (1, range(2), 3, 4), (2, range(2), 3, 2)]:
        ctx.tlc("Welford", "MC_Welford_c%d_v%d_n%d_r%d" % (C, len(vals), rows, rounds),
                cfg_text=welford_cfg(C, vals, rows, rounds, "code"), workers=WORKERS, timeout=2400, coverage=False)


def run(ctx):
    ctx.rule = ("real elfi.Distance nodes for every batch size in {1,2,3(,5)} x every layout of 1-3 summaries of widths "
                "scalar..3 (84 layouts) x metrics {cityblock, chebyshev, sqeuclidean, euclidean, minkowski p=1/2/default, "
                "seuclidean V, mahalanobis VI, callable} with and without w / p, on seeded integer data, evaluated by "
                "node.generate(with_values) with and without batch_size, model.generate and Rejection.sample; real "
                "elfi.AdaptiveDistance nodes: every data set over 0..V of <= N rows with EVERY ordered partition into add_data "
                "calls (one scalar summary), every ordered partition of seeded data sets for 8-12 summary layouts followed by "
                "update and evaluation, several update rounds with pinned queries, and Rejection runs over the node for every "
                "batch size dividing n_sim.  distinct = distinct (layout, metric, kwargs, modes) resp. distinct call script; "
                "non-trivial = a Distance evaluation, or an adaptive script with >= 2 add_data calls, an update or a run.")
    ctx.clauses_decided = [
        "a: output = scipy metric between each row of column-stacked summaries and stacked observed, one value per row, "
        "scalar and vector summaries, kwargs p / w / V / VI honoured (integer sub-domain; Euclidean forms through the square)",
        "b: scale = population standard deviation of all rows of the adaptation round, for every ordered partition "
        "(scale^2 to 1e-6 resp. 1e-4 absolute)",
        "c: newest distance = Euclidean distance / scale (squared, to ~(C+1) fixed-point units); earlier columns bit-identical "
        "on re-evaluation; first column the plain Euclidean distance; result rows of a Rejection run carry the newest distance "
        "of their own summaries"]
    ctx.clauses_not_decided = [
        "metrics outside the integer sub-domain (minkowski p not in {1,2}, canberra, correlation, ... ) and non-integer data",
        "adaptation rounds with a constant column (scale 0: the statement divides by it) - only the scale clause is checked there",
        "AdaptiveDistanceSMC's use of the node (covered only through Rejection, which it delegates to)"]
    ctx.trusted_base.append("harness projection: d -> round(d*U), round(d*d*U) (squares taken in double precision)")
    ctx.assumptions.append("scipy.spatial.distance metric definitions are transcribed in DistanceOps.tla (integer form); "
                           "IEEE doubles are exact on the small-integer sub-domain used")
    design(ctx)
    scs = dist_scenarios(ctx) + adapt_scenarios(ctx)
    traces = check_scenarios(ctx, scs)
    if not ctx.violations:
        corruption_controls(ctx, scs, traces)
    ctx.exhaustive = True
    by = {}
    for sc in scs:
        t = sc["kind"] if sc["kind"] == "dist" else "adapt/" + sc["tag"]
        by[t] = by.get(t, 0) + 1
    ctx.notes.append("scenarios: " + ", ".join("%s=%d" % kv for kv in sorted(by.items())))
    shown = set()
    for sc, tr in zip(scs, traces):
        t = sc["kind"] if sc["kind"] == "dist" else "adapt/" + sc["tag"]
        if t in shown or (t == "dist" and len(sc["evals"]) < 3):
            continue
        shown.add(t)
        ctx.sample(dict(kind=t, widths=tr["widths"], obs=tr["obs"], metric=tr.get("metric"), events=tr["events"][:6]), limit=8)


def replay(ctx, scenario):
    check_scenarios(ctx, [scenario])

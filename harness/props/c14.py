"""C14 - editing, copying and saving a model preserves its structure and meaning.

O1: ElfiGraph.tla: every edit history (add / become / remove / parameter flags / observed data / copy /
    save+load) of bounded length over a store with explicit addresses (so that aliasing between a model
    and its copy is representable); Consistent, CopyIndependent, CopySame, BecomeContract, RemoveContract.
    Negative controls: copy() sharing state dicts (F13, repaired), become() with a non-fresh replacement (F14).
O2/O3: seeded random edit histories are replayed on real ElfiModels (symbolic operations); after every
    action every live model is projected through the public API and the trace is validated by
    ElfiGraph_Trace.tla.
"""
import hashlib
import json
import os
import random

from harness import tlc
from harness.symgraph import Recorder, Sym, term
from harness.util import Hang, time_limit

NAMES = ["a", "b", "c", "d", "e", "f"]
KIND_OF_CLASS = dict(Operation="op", Prior="prior", Simulator="sim", Summary="sum", Constant="const", Discrepancy="disc")


def mc_cfg(names, privs, hs, maxe, shares, fresh, invs):
    def b(x):
        return "TRUE" if x else "FALSE"

    def q(S):
        return "{" + ",".join('"%s"' % x for x in S) + "}"
    return """SPECIFICATION Spec
CONSTANTS
  Names = %s
  Privs = %s
  Handles <- %s
  MaxEdits = %d
  CopyShares = %s
  FreshOnly = %s
%s
CHECK_DEADLOCK FALSE
""" % (q(names), q(privs), hs, maxe, b(shares), b(fresh), "\n".join("INVARIANT " + i for i in invs))


INV = ["AllConsistent", "CopyIndependent", "CopySame", "BecomeContract", "RemoveContract"]


# ------------------------------------------------------------------ projection of a real model
def project(m, workdir=None):
    def rename(n):
        if not m.has_node(n):
            return n            # e.g. observed data left behind for a node that no longer exists
        st = m.get_state(n).get("attr_dict") or {}
        if n.startswith("_") and "_output" in st and isinstance(st["_output"], Sym):
            return st["_output"].t[1]
        return n
    nodes, priv, params = [], [], []
    for n in m.nodes:
        st = m.get_state(n).get("attr_dict")
        if not st or "_class" not in st:
            continue        # a graph node without a node state is no node of the model: its edges then dangle (inconsistent graph)
        kind = KIND_OF_CLASS.get(st["_class"].__name__, "?")
        if kind == "const":
            op = 0
        elif kind == "prior":
            op = getattr(st.get("distribution"), "opid", -1)
        else:
            op = getattr(st.get("_operation"), "opid", -1)
        nodes.append([rename(n), kind, op])
        if n.startswith("_"):
            priv.append(rename(n))
        if "_parameter" in st:
            params.append(rename(n))
    kw = {"ka": -1, "kb": -2}
    edges = [[rename(p), rename(c), (d["param"] + 1) if isinstance(d["param"], int) else kw.get(d["param"], -9)]
             for p, c, d in m.source_net.edges(data=True)]
    observed = [[rename(k), v if isinstance(v, int) else -1] for k, v in m.observed.items()]
    try:
        pnames = [rename(n) for n in m.parameter_names]
    except Exception:
        pnames = ["?"]
    try:
        with time_limit(60):
            res = m.generate(2, seed=11)
        dg = hashlib.sha256(json.dumps({rename(k): term(v) if isinstance(v, (Sym, tuple)) else repr(v) for k, v in sorted(res.items())},
                                       sort_keys=True).encode()).hexdigest()[:16]
    except Exception as ex:
        dg = "no-output:" + type(ex).__name__
    # the public view of the positional parents: get_parents(x) lists them in position order
    gp = []
    for n in m.nodes:
        try:
            gp.append([rename(n), [rename(p) for p in m.get_parents(n)]])
        except Exception:
            gp.append([rename(n), ["?"]])
    return dict(nodes=nodes, edges=edges, observed=observed, params=params, priv=priv, pnames=pnames, dg=dg, gp=gp)


def record(sc):
    import elfi
    rec = Recorder(2)
    models = {"m": elfi.ElfiModel(name="c14m")}
    acts = []
    workdir = sc.get("workdir")
    for e in sc["acts"]:
        e = dict(e)
        e.setdefault("h2", e["h"])
        for k, d in (("x", ""), ("y", ""), ("kind", ""), ("op", 0), ("parents", []), ("privs", []), ("P", []), ("v", 0)):
            e.setdefault(k, d)
        e["raised"] = ""
        try:
            with time_limit(120):
                m = models[e["h"]]
                if e["a"] == "add":
                    def real(p):
                        # an existing private constant is referred to by its logical name (its real name is auto-generated)
                        if m.has_node(p):
                            return p
                        for n in m.nodes:
                            st_ = m.get_state(n).get("attr_dict") or {}
                            if n.startswith("_") and isinstance(st_.get("_output"), Sym) and st_["_output"].t[1] == p:
                                return n
                        return p
                    parents = [Sym(["c", p]) if p in e["privs"] else m[real(p)] for p in e["parents"]]
                    if e["kind"] == "prior":
                        d = rec.make_dist(e["x"])
                        d.opid = e["op"]
                        elfi.Prior(d, *parents, model=m, name=e["x"])
                    else:
                        f = rec.make_op(e["x"])
                        f.opid = e["op"]
                        cls = dict(op=elfi.Operation, sim=elfi.Simulator, sum=elfi.Summary)[e["kind"]]
                        cls(f, *parents, model=m, name=e["x"])
                elif e["a"] == "addedge":
                    m.add_edge(e["y"], e["x"], param_name={-1: "ka", -2: "kb"}.get(e["v"], e["v"] - 1))      # v >= 1: explicit position v - 1
                elif e["a"] == "become":
                    m[e["x"]].become(m[e["y"]])
                elif e["a"] == "remove":
                    m.remove_node(e["x"])
                elif e["a"] == "setparams":
                    m.parameter_names = list(e["P"])
                elif e["a"] == "setobs":
                    m.observed[e["x"]] = e["v"]
                elif e["a"] == "copy":
                    models[e["h2"]] = m.copy()
                elif e["a"] == "saveload":
                    m.save(prefix=workdir)
                    models[e["h2"]] = elfi.ElfiModel.load(m.name, prefix=workdir)
                    os.remove(os.path.join(workdir, m.name + ".pkl"))
        except Hang:
            e["raised"] = "Hang"
        except Exception as ex:
            e["raised"] = type(ex).__name__ + ": " + str(ex)[:80]
        e["obs"] = {h: project(mm) for h, mm in models.items()}
        acts.append(e)
        if e["raised"]:
            break
    return dict(acts=acts)


# ------------------------------------------------------------------ histories
def random_history(rnd, n_acts, fresh_only=True):
    """A valid edit history; mirrors ElfiGraph!Next.  Keeps its own list model of the graphs."""
    g = {"m": dict(nodes={}, edges=set(), priv=set())}      # nodes: name -> kind
    acts = []
    opid = 0
    vid = 100
    privn = 0
    handles = ["m", "k", "j"]

    def children(h, x):
        return {c for (p, c) in g[h]["edges"] if p == x}

    def desc(h, x):
        out, front = set(), {x}
        while front:
            new = set()
            for y in front:
                new |= children(h, y)
            new -= out
            out |= new
            front = new
        return out
    for _ in range(n_acts):
        h = rnd.choice(list(g))
        G = g[h]
        user = [x for x in G["nodes"] if x not in G["priv"]]
        choices = ["add", "add", "add"]
        if len(user) >= 2:
            choices += ["become", "become", "addedge"]
        if user:
            choices += ["remove", "setparams", "setparams"]
        if any(G["nodes"][x] in ("sim", "sum") for x in user):
            choices += ["setobs", "setobs"]
        if len(g) < len(handles):
            choices += ["copy", "saveload"]
        a = rnd.choice(choices)
        if a == "add":
            free = [x for x in NAMES if x not in G["nodes"]]
            if not free:
                continue
            x = rnd.choice(free)
            kind = rnd.choice(["op", "prior", "sim", "sum"])
            npar = rnd.randint(1 if kind == "sum" else 0, 2)
            parents, privs = [], []
            for _k in range(npar):
                if user and rnd.random() < 0.7:
                    cand = [u for u in user if u not in parents]
                    if cand:
                        parents.append(rnd.choice(cand))
                        continue
                privn += 1
                p = "_L%d" % privn
                parents.append(p)
                privs.append(p)
            if kind == "sum" and not parents:
                continue
            opid += 1
            acts.append(dict(a="add", h=h, x=x, kind=kind, op=opid, parents=parents, privs=privs))
            G["nodes"][x] = kind
            G.setdefault("plist", {})[x] = list(parents)
            for p in privs:
                G["nodes"][p] = "const"
                G["priv"].add(p)
            for p in parents:
                G["edges"].add((p, x))
        elif a == "addedge":
            x, p = rnd.sample(user, 2)
            named_of = G.setdefault("named", {})
            if G["nodes"][x] == "prior" or (p, x) in G["edges"] or p in desc(h, x) or x in named_of:
                continue
            named_of[x] = p
            G["edges"].add((p, x))
            acts.append(dict(a="addedge", h=h, x=x, y=p, v=-1))
        elif a == "become":
            x, y = rnd.sample(user, 2)
            pl = G.setdefault("plist", {})
            reuse = False
            if fresh_only and rnd.random() < 0.3:
                # the replacement is built on the replaced node's OWN parents, hidden constants included
                # (`t.become(elfi.Prior('norm', *t.parents))`: another operation over the same arguments)
                cands = [u for u in user if pl.get(u) and any(q in G["priv"] for q in pl[u]) and u not in G.get("named", {})
                         and all(q in G["nodes"] and (q, u) in G["edges"] for q in pl[u])
                         and len(pl[u]) == sum(1 for (q, c) in G["edges"] if c == u)]
                free = [n for n in NAMES if n not in G["nodes"]]
                if cands and free:
                    x, y = rnd.choice(cands), rnd.choice(free)
                    opid += 1
                    acts.append(dict(a="add", h=h, x=y, kind=G["nodes"][x], op=opid, parents=list(pl[x]), privs=[]))
                    G["nodes"][y] = G["nodes"][x]
                    pl[y] = list(pl[x])
                    for q in pl[x]:
                        G["edges"].add((q, y))
                    reuse = True
            if fresh_only and not reuse and rnd.random() < 0.5:
                # prefer the documented use: replace a node that has children by a childless, unrelated one
                ys = [u for u in user if not children(h, u)]
                xs = sorted(user, key=lambda u: -len(children(h, u)))
                for x in xs[:2]:
                    cand = [u for u in ys if u != x and u not in desc(h, x)]
                    if cand:
                        y = rnd.choice(cand)
                        break
            if fresh_only and (x == y or children(h, y) or y in desc(h, x)):
                continue
            if fresh_only and not reuse and rnd.random() < 0.4 and G["nodes"][y] != "prior" and y not in G.setdefault("named", {}):
                # the replacement gets a keyword parent first (model.add_edge), then replaces x
                cand = [p for p in user if p not in (x, y) and (p, y) not in G["edges"] and p not in desc(h, y) and p not in desc(h, x)]
                if cand:
                    p = rnd.choice(cand)
                    G["named"][y] = p
                    G["edges"].add((p, y))
                    acts.append(dict(a="addedge", h=h, x=y, y=p, v=-1))
            acts.append(dict(a="become", h=h, x=x, y=y))
            if not fresh_only:
                return acts          # after a non-fresh become the python-side list model is not maintained
            # list model: x takes y's kind and parents; x's old sole private parents disappear
            oldp = {p for (p, c) in G["edges"] if c == x}
            G["edges"] = {(p, c) for (p, c) in G["edges"] if c != x}
            for p in oldp:
                if p in G["priv"] and not any(p in e for e in G["edges"]):
                    G["priv"].discard(p)
                    G["nodes"].pop(p)
            G["edges"] = {((p, x) if c == y else (p, c)) for (p, c) in G["edges"]}
            G["nodes"][x] = G["nodes"].pop(y)
            if y in pl:
                pl[x] = pl.pop(y)
            else:
                pl.pop(x, None)
            nm = G.setdefault("named", {})
            nm.pop(x, None)
            if y in nm:
                nm[x] = nm.pop(y)
        elif a == "remove":
            x = rnd.choice(user)
            acts.append(dict(a="remove", h=h, x=x))
            oldp = {p for (p, c) in G["edges"] if c == x}
            G["edges"] = {(p, c) for (p, c) in G["edges"] if c != x and p != x}
            G["nodes"].pop(x)
            G.setdefault("named", {}).pop(x, None)
            G["named"] = {c: p for c, p in G["named"].items() if p != x}
            for p in oldp:
                if p in G["priv"] and not any(p in e for e in G["edges"]):
                    G["priv"].discard(p)
                    G["nodes"].pop(p)
        elif a == "setparams":
            P = [x for x in user if rnd.random() < 0.5]
            acts.append(dict(a="setparams", h=h, P=P))
        elif a == "setobs":
            x = rnd.choice([u for u in user if G["nodes"][u] in ("sim", "sum")])
            vid += 1
            acts.append(dict(a="setobs", h=h, x=x, v=vid))
        else:
            h2 = [k for k in handles if k not in g][0]
            acts.append(dict(a=a, h=h, h2=h2))
            g[h2] = dict(nodes=dict(G["nodes"]), edges=set(G["edges"]), priv=set(G["priv"]), named=dict(G.get("named", {})))
    return acts


PINNED_F14 = dict(acts=[dict(a="add", h="m", x="a", kind="op", op=1, parents=[], privs=[]),
                        dict(a="add", h="m", x="b", kind="op", op=2, parents=["a"], privs=[]),
                        dict(a="become", h="m", x="a", y="b")], fresh=False, pinned="F14")


def positional_histories(rnd, n):
    """model.add_edge with an EXPLICIT position: repairing a child after its parent was removed, and wiring the positional
    parents of a node one by one in any order; followed by copy / save+load"""
    out = []
    for i in range(n):
        names = rnd.sample(NAMES, 4)
        a, b, c, d = names
        kinds = [rnd.choice(["op", "prior", "sim"]) for _ in range(4)]
        acts = [dict(a="add", h="m", x=a, kind=kinds[0], op=1, parents=[], privs=[]),
                dict(a="add", h="m", x=b, kind=kinds[1], op=2, parents=[], privs=[])]
        ck = rnd.choice(["op", "sim"])
        if i % 2 == 0:      # child with parents (a, b) [and sometimes a third]; a parent is removed and replaced in place
            third = rnd.random() < 0.4
            acts.append(dict(a="add", h="m", x=d, kind=kinds[3], op=4, parents=[], privs=[]))
            pars = [a, b] + ([d] if third else [])
            rnd.shuffle(pars)
            acts.append(dict(a="add", h="m", x=c, kind=ck, op=3, parents=list(pars), privs=[]))
            k = rnd.randrange(len(pars))
            gone = pars[k]
            acts.append(dict(a="remove", h="m", x=gone))
            new = "g"
            acts.append(dict(a="add", h="m", x=new, kind=rnd.choice(["op", "prior"]), op=5, parents=[], privs=[]))
            acts.append(dict(a="addedge", h="m", x=c, y=new, v=k + 1))
        else:               # a parentless node wired explicitly, positions in any order
            acts.append(dict(a="add", h="m", x=c, kind=ck, op=3, parents=[], privs=[]))
            order = rnd.choice([[0, 1], [1, 0]])
            for k in order:
                acts.append(dict(a="addedge", h="m", x=c, y=[a, b][k], v=k + 1))
        acts.append(dict(a=rnd.choice(["copy", "saveload"]), h="m", h2="k"))
        out.append(dict(acts=acts, fresh=True))
    return out


def scenarios(ctx):
    rnd = random.Random(ctx.seed)
    out = [dict(PINNED_F14)] + positional_histories(rnd, 24 if ctx.quick else 200)
    n_fresh = 1400 if ctx.quick else 8000
    for _ in range(n_fresh):
        out.append(dict(acts=random_history(rnd, rnd.randint(3, 9)), fresh=True))
    n_any = 60 if ctx.quick else 600
    for _ in range(n_any):
        out.append(dict(acts=random_history(rnd, rnd.randint(3, 8), fresh_only=False), fresh=False))
    return out


def nonfresh_become(sc, upto):
    """F14 classifier: the history (up to the failing action) contains a become whose replacement has children or is a
    descendant of the replaced node."""
    import networkx as nx
    gs = {"m": nx.DiGraph()}
    for e in sc["acts"][:upto]:
        G = gs[e["h"]]
        if e["a"] == "add":
            G.add_node(e["x"])
            for p in e.get("parents", []):
                G.add_edge(p, e["x"])
        elif e["a"] == "addedge":           # model.add_edge(parent y, child x)
            G.add_edge(e["y"], e["x"])
        elif e["a"] == "become":
            x, y = e["x"], e["y"]
            if not G.has_node(x) or not G.has_node(y):
                return True
            if list(G.successors(y)) or y in nx.descendants(G, x):
                return True
            for p in list(G.predecessors(x)):
                G.remove_edge(p, x)
            for p in list(G.predecessors(y)):
                G.add_edge(p, x)
            G.remove_node(y)
        elif e["a"] == "remove":
            if G.has_node(e["x"]):
                G.remove_node(e["x"])
        elif e["a"] in ("copy", "saveload"):
            gs[e["h2"]] = G.copy()
    return False


def check_scenarios(ctx, scs):
    workdir = os.path.join(ctx.outdir, "models")
    os.makedirs(workdir, exist_ok=True)
    traces = []
    for sc in scs:
        sc["workdir"] = workdir
        traces.append(record(sc))
    verdicts = ctx.validate("ElfiGraph_Trace", traces, chunk=300, timeout=1500)
    for sc, tr, v in zip(scs, traces, verdicts):
        key = json.dumps([[e["a"], e["h"], e.get("x"), e.get("y"), e.get("kind"), e.get("parents"), e.get("P")] for e in sc["acts"]])
        kinds = {e["a"] for e in sc["acts"]}
        ctx.case(key, nontrivial=bool(kinds & {"become", "remove", "copy", "saveload"}))
        ctx.trace_events += len(tr["acts"])
        if v["verdict"] != "ok":
            at = v["l"] - 1
            finding = "F14" if (not sc.get("fresh", True) and nonfresh_become(sc, at)) else None
            ctx.fail(v["verdict"], {k: sc[k] for k in sc if k != "workdir"}, detail=dict(at_action=at, action=tr["acts"][min(at, len(tr["acts"])) - 1]),
                     finding=finding)
        elif v["drift"]:
            ctx.drifted(v["drift"], {k: sc[k] for k in sc if k != "workdir"})
    return traces


def run(ctx):
    ctx.rule = ("seeded random valid edit histories of 3-9 actions over up to three model handles (add Operation/Prior/Simulator/Summary with "
                "node and literal parents, become with a fresh replacement, remove, parameter_names setter, observed data, copy(), save()+load()); "
                "a second family allows become() with any replacement (classified against known finding F14).  After every action every live "
                "model is projected through the public API, incl. a seeded generate() digest.  Non-trivial = contains become/remove/copy/saveload.")
    ctx.clauses_decided = ["a: consistent acyclic graph", "b: become contract", "c: remove contract", "d: parameter_names exact and sorted",
                           "e: copy / saved+loaded model generates the same seeded outputs", "f: changing the copy does not alter the original"]
    ctx.tlc("MC_ElfiGraph", "MC_ElfiGraph_main", cfg_text=mc_cfg(["a", "b", "c"], ["_p"], "Hs", 4 if ctx.quick else 5, False, True, INV),
            expect_actions=["Next"], timeout=3000, workers=16)
    ctx.tlc("MC_ElfiGraph", "MC_ElfiGraph_F13", cfg_text=mc_cfg(["a", "b", "c"], ["_p"], "Hs", 4, True, True, ["CopyIndependent"]), expect_ok=False, timeout=600)
    ctx.tlc("MC_ElfiGraph", "MC_ElfiGraph_F14", cfg_text=mc_cfg(["a", "b", "c"], ["_p"], "Hs", 4, False, False, ["AllConsistent"]), expect_ok=False, timeout=600)
    scs = scenarios(ctx)
    traces = check_scenarios(ctx, scs)
    for i in (1, len(scs) // 2):
        ctx.sample(dict(acts=[{k: v for k, v in e.items() if k != "obs"} for e in traces[i]["acts"]], last_projection=traces[i]["acts"][-1]["obs"]))
    from harness.props import x_naming
    x_naming.check_naming(ctx)      # extension: node naming / default model / references / context bookkeeping (E: clauses, drift only)


def replay(ctx, scenario):
    check_scenarios(ctx, [scenario])

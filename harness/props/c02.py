"""C02 - seeded runs are pure functions of (model, seed, configuration).

O1: TopoSort.tla: the transcribed nx_constant_topological_sort is dependency respecting, stays so when the
    cached order is restricted to any executed subset, and (negative control, finding F3) its order of
    the user's nodes depends on the suffix of auto-named private constants for prefix-related names.
    SubSeed.tla (C15) is the model of the (seed, batch index) -> generator seed map.
O3: one key K = (graph, seed, batch index, batch size, outputs) is executed repeatedly in one process
    after perturbation histories; recording stochastic operations log the generator object, its state
    before/after and the order; Purity_Trace.tla decides purity, single generator, seeding, order.
"""
import hashlib
import json
import random

import numpy as np

from harness import tlc
from harness.props.c15 import limb
from harness.util import Hang, time_limit

NAME_POOL = ["a", "a_b", "ab", "b", "b_1", "c", "c_a", "d", "e", "a_", "k"]

LOG = []        # draw log of the current execution (operations run in-process)


def state_digest(rs):
    st = rs.get_state()
    h = hashlib.sha256()
    h.update(np.asarray(st[1]).tobytes())
    h.update(str(st[2:]).encode())
    return h.hexdigest()[:12]


class RecDist:
    """scipy-like distribution: logs the generator it is handed, then draws from it"""

    def __init__(self, name):
        self.name = name

    def rvs(self, *params, size=None, random_state=None):
        before = state_digest(random_state)
        v = random_state.normal(size=size) + sum(np.asarray(p, dtype=float) * 0.25 for p in params)
        LOG.append([self.name, id(random_state), before, state_digest(random_state)])
        return v


class RecSim:
    def __init__(self, name):
        self.name = name
        self.__name__ = "sim_" + name

    def __call__(self, *params, batch_size=1, random_state=None):
        before = state_digest(random_state)
        v = random_state.uniform(size=batch_size) + sum(np.asarray(p, dtype=float) * 0.5 for p in params)
        LOG.append([self.name, id(random_state), before, state_digest(random_state)])
        return v


class DetOp:
    def __init__(self, name):
        self.__name__ = "op_" + name

    def __call__(self, *parents):
        return sum(np.asarray(p, dtype=float) for p in parents) * 1.5 + 1.0


def build(g, order=None, private_suffix=None):
    """g: nodes (topological), kind {name: const|prior|prior_scipy|sim|op}, pos {name: [parents | numbers]}"""
    import elfi
    m = elfi.ElfiModel(name="c02")
    for x in (order or g["nodes"]):
        k = g["kind"][x]
        parents = []
        for i, p in enumerate(g["pos"][x]):
            if isinstance(p, str):
                parents.append(m[p])
            elif private_suffix is not None:
                # a constant named the way elfi names implicit ones: _<child>_<4 hex>
                cname = "_%s_%s" % (x, private_suffix[x][i])
                elfi.Constant(p, model=m, name=cname)
                parents.append(m[cname])
            else:
                parents.append(p)          # literal: elfi creates an auto-named private constant
        if k == "const":
            elfi.Constant(g["value"][x], model=m, name=x)
        elif k == "prior":
            elfi.Prior(RecDist(x), *parents, model=m, name=x)
        elif k == "prior_scipy":
            elfi.Prior("uniform", *parents, model=m, name=x)
        elif k == "sim":
            elfi.Simulator(RecSim(x), *parents, model=m, name=x)
        elif k == "op":
            elfi.Operation(DetOp(x), *parents, model=m, name=x)
    return m


def out_digest(res, outs):
    h = hashlib.sha256()
    for o in outs:
        a = np.ascontiguousarray(np.asarray(res[o], dtype=float))
        h.update(o.encode() + str(a.shape).encode() + a.tobytes())
    return h.hexdigest()[:16]


def execute_K(m, sc, via="generate"):
    """One execution of the key; returns (digest, draws)."""
    import elfi
    import elfi.client
    del LOG[:]
    outs = sc["outs"]
    if via == "generate" and sc["bi"] == 0:
        res = m.generate(sc["bs"], outs, seed=sc["seed"])
    else:
        from elfi.model.elfi_model import ComputationContext
        ctx = ComputationContext(batch_size=sc["bs"], seed=sc["seed"])
        bh = elfi.client.BatchHandler(m, ctx, output_names=outs, client=elfi.client.get_client())
        if via == "handler-history":
            for b in sc.get("other_batches", [3, 0, 7, 1]):       # earlier batches through the same context (shared caches)
                bh.compute(b)
            del LOG[:]
        res = bh.compute(sc["bi"])
    return out_digest(res, outs), [list(x) for x in LOG]


def perturb(step, sc, rnd):
    import elfi
    if step == "np_consume":
        np.random.rand(rnd.randint(1, 50))
    elif step == "np_seed":
        np.random.seed(rnd.randint(0, 10 ** 6))
    elif step == "gen_other":
        g2 = dict(nodes=["u", "v"], kind=dict(u="prior_scipy", v="sim"), pos=dict(u=[0, 1], v=["u"]))
        build(g2).generate(3, seed=rnd.randint(0, 99))
    elif step == "gen_same_unseeded":
        build(sc["g"]).generate(2)
    elif step == "rej_other":
        from harness.t1 import T1Model
        tm = T1Model([3, 1, 2, 0, 5], name="c02o")
        elfi.Rejection(tm.model["d"], batch_size=2, seed=rnd.randint(0, 99)).sample(2, n_sim=4, bar=False)
    elif step == "gen_same_other_outputs":
        o = [x for x in sc["g"]["nodes"] if sc["g"]["kind"][x] != "const"][:1]
        build(sc["g"]).generate(sc["bs"] + 1, o, seed=sc["seed"] + 1)


PERTURBATIONS = ["np_consume", "np_seed", "gen_other", "gen_same_unseeded", "rej_other", "gen_same_other_outputs"]


def topo_orders(g, rnd):
    """a random valid insertion order"""
    remaining = list(g["nodes"])
    done, order = set(), []
    while remaining:
        ready = [x for x in remaining if all((not isinstance(p, str)) or p in done for p in g["pos"][x])]
        x = rnd.choice(ready)
        order.append(x)
        done.add(x)
        remaining.remove(x)
    return order


def _scalar_sim(t, c, random_state=None):
    return float(t) * 0.5 + float(c) + float(random_state.uniform())


def sampler_digest(sc):
    """A seeded Rejection / SMC run on a model with real random priors and simulator; digest of everything returned."""
    import elfi
    m = elfi.ElfiModel(name="c02s")
    if sc.get("latent"):
        # a latent stochastic ancestor of a parameter (a hyper-prior that is not itself a parameter): in SMC rounds > 0
        # the parameters are given, the ancestor is not needed and must not draw from the batch generator
        elfi.RandomVariable("uniform", 0, 1, model=m, name="h")
        elfi.Prior("uniform", m["h"], 2, model=m, name="t1")
    else:
        elfi.Prior("uniform", 0, 2, model=m, name="t1")
    elfi.Prior("normal", m["t1"], 1, model=m, name="t2")
    elfi.Simulator(RecSim("y"), m["t1"], m["t2"], model=m, name="y", observed=np.array([1.0]))
    if sc.get("vecsim"):
        # a second simulator written for ONE draw and vectorised with an explicit constants list (elfi.tools.vectorize)
        elfi.Constant(3.0, model=m, name="c3")
        elfi.Simulator(elfi.tools.vectorize(_scalar_sim, [1]), m["t2"], m["c3"], model=m, name="y2", observed=np.array([1.0]))
        elfi.Summary(DetOp("s"), m["y"], m["y2"], model=m, name="s")
    else:
        elfi.Summary(DetOp("s"), m["y"], model=m, name="s")
    elfi.Distance("euclidean", m["s"], model=m, name="d")
    if sc.get("pre_point"):
        # an earlier point evaluation on the SAME model object with a scalar parameter value: must not matter for what follows
        m.generate(1, ["s"], with_values={"t2": 0.25}, seed=5)
    h = hashlib.sha256()
    if sc["kind"] == "rejection":
        smp = elfi.Rejection(m["d"], batch_size=sc["bs"], seed=sc["seed"], output_names=["s"], **sc.get("sampler_kw", {}))
        res = smp.sample(sc["n"], bar=False, **sc["objective"])
        if sc.get("second_call"):       # the same sampler object asked again: same configuration, same result
            res = smp.sample(sc["n"], bar=False, **sc["objective"])
        pops = [res]
    else:
        res = elfi.SMC(m["d"], batch_size=sc["bs"], seed=sc["seed"], **sc.get("sampler_kw", {})).sample(sc["n"], bar=False, **sc["objective"])
        pops = res.populations
    for p in pops:
        for k in sorted(p.outputs):
            a = np.ascontiguousarray(np.asarray(p.outputs[k], dtype=float))
            h.update(k.encode() + a.tobytes())
        h.update(np.asarray([p.threshold], dtype=float).tobytes() + str(int(p.n_sim)).encode())
        if sc["kind"] == "smc":
            h.update(np.ascontiguousarray(p.weights).tobytes())
    return h.hexdigest()[:16], []


SAMPLER_HANGS = [0]


def record_sampler(sc):
    rnd = random.Random(sc["hseed"])
    runs = []

    def one(label, pre):
        r = dict(label=label, digest="", raised="", has_draws=False, draws=[])
        if SAMPLER_HANGS[0] >= 2:        # the samplers do not terminate on this tree: enough evidence, do not burn the time budget
            r["raised"] = "Hang"
            runs.append(r)
            return
        try:
            with time_limit(120):
                for step in pre:
                    perturb(step, dict(sc, g=dict(nodes=["u"], kind=dict(u="prior_scipy"), pos=dict(u=[0, 1]), value={})), rnd)
                r["digest"], _ = sampler_digest(sc)
        except Hang:
            SAMPLER_HANGS[0] += 1
            r["raised"] = "Hang"
        except Exception as ex:
            r["raised"] = "%s: %s" % (type(ex).__name__, str(ex)[:80])
        runs.append(r)
    one("reference", [])
    one("repeat", [])
    for h in sc["histories"]:
        one("after:" + "+".join(h), h)
    if sc["kind"] == "rejection":
        sc["second_call"] = True
        one("second-sample-call-on-the-same-sampler", [])
        sc["second_call"] = False
    sc["pre_point"] = True
    one("after-a-point-evaluation-on-the-same-model", [])
    sc["pre_point"] = False
    # "regardless of which client executes it": a client that keeps several batches outstanding (answers `not ready` while
    # the sampler may still submit, so max_parallel_batches are pending whenever a population or the run ends) - deterministic,
    # unlike the timing of real worker processes
    import elfi.client
    from harness.sched_client import ScheduledClient
    for maxpar, p_ready in ((4, 0.0), (3, 0.3)):
        old = elfi.client._client
        elfi.client.set_client(ScheduledClient(seed=sc["hseed"] % 1000, p_ready=p_ready, p_run=0.5, cores=maxpar))
        sc["sampler_kw"] = dict(max_parallel_batches=maxpar)
        try:
            one("parallel-client-keeping-%d-batches-outstanding" % maxpar, [])
        finally:
            sc.pop("sampler_kw", None)
            elfi.client.set_client(old)
    if sc.get("mp"):
        import elfi.client
        old = elfi.client._client
        elfi.client.set_client("multiprocessing", num_processes=2)
        try:
            one("multiprocessing-client", [])
        finally:
            try:
                elfi.client.get_client().reset()
            except Exception:
                pass
            elfi.client.set_client(old)
    return dict(bi=0, runs=runs, net_keys=[[97]], net_edges=[], need=[], all_recorded=False, stream=[[0, 1]], state_of=[])


def record(sc):
    import elfi
    import elfi.client
    if sc.get("kind") in ("rejection", "smc"):
        return record_sampler(sc)
    rnd = random.Random(sc["hseed"])
    g = sc["g"]
    runs = []
    tr = dict(bi=sc["bi"], runs=runs)

    def one(label, fn):
        r = dict(label=label, digest="", raised="", has_draws=True, draws=[])
        try:
            with time_limit(180):
                r["digest"], r["draws"] = fn()
        except Hang:
            r["raised"] = "Hang"
        except Exception as ex:
            r["raised"] = "%s: %s" % (type(ex).__name__, str(ex)[:80])
        runs.append(r)

    suffixes = sc.get("suffixes")          # F3 family: explicit auto-style names for the private constants
    m = build(g, private_suffix=suffixes[0] if suffixes else None)
    one("reference", lambda: execute_K(m, sc))
    one("repeat", lambda: execute_K(m, sc))
    for h in sc["histories"]:
        def run_h(h=h):
            for step in h:
                perturb(step, sc, rnd)
            return execute_K(m, sc)
        one("after:" + "+".join(h), run_h)
    one("shared-context-after-other-batches", lambda: execute_K(m, sc, via="handler-history"))
    for k in range(sc.get("rebuilds", 2)):
        def rebuilt(k=k):
            m2 = build(g, order=topo_orders(g, rnd), private_suffix=suffixes[(k + 1) % len(suffixes)] if suffixes else None)
            return execute_K(m2, sc)
        one("rebuilt-in-other-insertion-order", rebuilt)
    if sc.get("mp"):
        def mp_run():
            old = elfi.client._client
            elfi.client.set_client("multiprocessing", num_processes=2)
            try:
                d, _ = execute_K(m, sc, via="handler")
            finally:
                try:
                    elfi.client.get_client().reset()
                except Exception:
                    pass
                elfi.client.set_client(old)
            return d, []
        one("multiprocessing-client", mp_run)
        runs[-1]["has_draws"] = False
    # the loaded net of the key: names as character codes, edges, needed recording nodes
    cl = elfi.client.get_client()
    net = cl.compile(m.source_net, sc["outs"])
    names = sorted(net.nodes())
    idx = {n: i + 1 for i, n in enumerate(names)}
    tr["net_keys"] = [[ord(c) for c in n] for n in names]
    tr["net_edges"] = [[idx[p], idx[c]] for p, c in net.edges()]
    rec_nodes = [n for n in names if n in g["kind"] and g["kind"][n] in ("prior", "sim")]
    tr["need"] = [idx[n] for n in rec_nodes]
    tr["all_recorded"] = not any(g["kind"].get(n) == "prior_scipy" for n in names)
    for r in runs:
        r["draws"] = [[idx.get(d[0], 0), d[1] % 1000003, d[2], d[3]] for d in r["draws"]]
    # the numpy stream of the master seed and the generator state of each candidate sub seed
    n = max(8, 2 * (sc["bi"] + 1))
    stream = [int(x) for x in np.random.RandomState(sc["seed"]).randint(2 ** 31, size=n, dtype="uint32")]
    tr["stream"] = [limb(v) for v in stream]
    tr["state_of"] = [[limb(v), state_digest(np.random.RandomState(v))] for v in dict.fromkeys(stream)]
    return tr


def random_graph(rnd, literal=False):
    n = rnd.randint(3, 7)
    names = rnd.sample(NAME_POOL, n)
    kind, pos, value = {}, {}, {}
    for i, x in enumerate(names):
        earlier = names[:i]
        k = rnd.choice(["const", "prior", "prior", "prior_scipy", "sim", "sim", "op"] if earlier else ["const", "prior", "prior_scipy"])
        kind[x] = k
        pos[x] = []
        if k == "const":
            value[x] = float(rnd.randint(1, 4))
            continue
        if k == "prior_scipy":
            pos[x] = [0, rnd.randint(1, 3)] if (literal or not earlier) else [0, rnd.randint(1, 3)]
            continue
        npar = rnd.randint(1 if k == "op" else 0, min(2, len(earlier)))
        pos[x] = rnd.sample(earlier, npar)
        if literal and k == "prior" and rnd.random() < 0.7:
            pos[x] = pos[x] + [rnd.randint(0, 3)]
    return dict(nodes=names, kind=kind, pos=pos, value=value)


PINNED_F3 = dict(g=dict(nodes=["a", "a_b"], kind={"a": "prior", "a_b": "prior"}, pos={"a": [1], "a_b": [2]}, value={}),
                 seed=7, bi=0, bs=2, outs=["a", "a_b"], histories=[], hseed=1, rebuilds=1,
                 suffixes=[{"a": ["0abc"], "a_b": ["1234"]}, {"a": ["f123"], "a_b": ["1234"]}], pinned="F3")


def scenarios(ctx):
    rnd = random.Random(ctx.seed)
    out = [dict(PINNED_F3)]
    n = 60 if ctx.quick else 600
    for i in range(n):
        g = random_graph(rnd)
        while not any(g["kind"][x] != "const" for x in g["nodes"]):
            g = random_graph(rnd)
        non_const = [x for x in g["nodes"] if g["kind"][x] != "const"]
        outs = rnd.sample(non_const, rnd.randint(1, len(non_const))) if rnd.random() < 0.5 else list(non_const)
        hs = [rnd.sample(PERTURBATIONS, rnd.randint(1, 3)) for _ in range(2 if ctx.quick else 4)]
        out.append(dict(g=g, seed=(rnd.randint(0, 2 ** 31 - 1) if i % 10 else 0), bi=rnd.choice([0, 0, 1, 2, 5, 17]), bs=rnd.choice([1, 2, 5]), outs=outs,
                        histories=hs, hseed=rnd.randint(0, 10 ** 6), rebuilds=2, mp=(i % (20 if ctx.quick else 15) == 0)))
    # literal parents (auto-named private constants): same checks; failures are classified against F3
    for i in range(20 if ctx.quick else 200):
        g = random_graph(rnd, literal=True)
        while not any(g["kind"][x] != "const" for x in g["nodes"]):
            g = random_graph(rnd, literal=True)
        non_const = [x for x in g["nodes"] if g["kind"][x] != "const"]
        out.append(dict(g=g, seed=rnd.randint(0, 2 ** 31 - 1), bi=rnd.choice([0, 1, 4]), bs=2, outs=list(non_const),
                        histories=[rnd.sample(PERTURBATIONS, 2)], hseed=rnd.randint(0, 10 ** 6), rebuilds=3, literal=True))
    # seeded sampler runs (batches go through BatchHandler.submit with a shared context)
    for i in range(8 if ctx.quick else 60):
        kind = "rejection" if i % 2 == 0 else "smc"
        obj = rnd.choice([dict(n_sim=12), dict(quantile=0.5), dict(threshold=1.5)]) if kind == "rejection" else \
            rnd.choice([dict(thresholds=[2.0, 1.0]), dict(quantiles=[0.5, 0.5])])
        out.append(dict(kind=kind, seed=(rnd.randint(0, 2 ** 31 - 1) if i > 1 else 0), bs=rnd.choice([1, 3]), n=rnd.choice([2, 4]), objective=obj,
                        histories=[rnd.sample(PERTURBATIONS, 2) for _k in range(2)], hseed=rnd.randint(0, 10 ** 6),
                        latent=(i % 4 in (1, 2)), mp=(i % 4 in (1, 3)), vecsim=(i % 2 == 0)))
    return out


def is_f3(sc, tr, v):
    """F3 classifier: the failing run is a rebuild, the model has private constants that are auto-named (literal parents, or the
    pinned scenario's auto-style names), and two dependency-unordered stochastic nodes have prefix-related names."""
    if v["verdict"] not in ("P:bit-identical-whatever-happened-before", "P:order-is-fixed") or "g" not in sc:
        return False
    run = tr["runs"][v["l"] - 2]
    if not run["label"].startswith("rebuilt"):
        return False
    g = sc["g"]
    has_private = sc.get("suffixes") or any(not isinstance(p, str) for x in g["nodes"] for p in g["pos"][x])
    st = [x for x in g["nodes"] if g["kind"][x] in ("prior", "prior_scipy", "sim")]
    prefix = any(a != b and b.startswith(a) for a in st for b in st)
    return bool(has_private and prefix)


def check_scenarios(ctx, scs):
    traces = [record(sc) for sc in scs]
    verdicts = ctx.validate("Purity_Trace", traces, chunk=40, timeout=1500)
    for sc, tr, v in zip(scs, traces, verdicts):
        ctx.case(json.dumps([sc.get("g"), sc.get("kind"), sc["seed"], sc.get("bi"), sc["bs"], sc.get("outs"), sc["histories"], sc.get("objective")],
                            sort_keys=True), nontrivial=len(tr["need"]) >= 2 or "kind" in sc)
        ctx.trace_events += len(tr["runs"])
        if v["verdict"] != "ok":
            run = tr["runs"][min(v["l"] - 2, len(tr["runs"]) - 1)]
            ctx.fail(v["verdict"], sc, detail=dict(run=run["label"], raised=run["raised"], reference=tr["runs"][0]["digest"], got=run["digest"]),
                     finding="F3" if is_f3(sc, tr, v) else None)
        elif v["drift"]:
            ctx.drifted(v["drift"], sc)
    return traces


def mc_cfg(keys, edges, invs):
    return """SPECIFICATION Spec
CONSTANTS
  UserKeys <- %s
  Hex <- HexSmall
  UserEdges <- %s
%s
CHECK_DEADLOCK FALSE
""" % (keys, edges, "\n".join("INVARIANT " + i for i in invs))


def run(ctx):
    ctx.rule = ("random model graphs of 3-7 named nodes (recording priors and simulators, scipy priors, deterministic operations, explicit "
                "constants; names from a pool with prefix-related names) x integer seeds x batch indices {0,1,2,5,17} x batch sizes x output "
                "subsets; each key executed: twice plainly, after 2-4 perturbation histories over {consume np.random, reseed np.random, generate "
                "another model, unseeded generate of the same model, a Rejection run on another model, the same model with other outputs/seed}, "
                "through a BatchHandler whose context first computed other batch indices (shared executor / sub-seed caches), after rebuilding the "
                "model in another insertion order, and (every 15-20th key) on the multiprocessing client.  Non-trivial = at least two recording "
                "stochastic nodes are needed.")
    ctx.clauses_decided = ["a: repeatable bit-identically", "b: independent of np.random state", "c: independent of earlier computations and shared caches",
                           "d: independent of node insertion order", "e: native vs multiprocessing client", "f: one generator per batch seeded by (seed, batch index), fixed dependency-respecting order"]
    good = ["Topological", "CacheSound", "OrderIndependentOfPrivateNames"]
    ctx.tlc("MC_TopoSort", "MC_TopoSort_plain0", cfg_text=mc_cfg("KeysPlain", "E0", good), expect_actions=["Next"], timeout=600)
    ctx.tlc("MC_TopoSort", "MC_TopoSort_plain2", cfg_text=mc_cfg("KeysPlain", "E2", good), expect_actions=["Next"], timeout=600)
    ctx.tlc("MC_TopoSort", "MC_TopoSort_prefix1", cfg_text=mc_cfg("KeysPrefix", "E1", ["Topological", "CacheSound"]), expect_actions=["Next"], timeout=600)
    ctx.tlc("MC_TopoSort", "MC_TopoSort_F3", cfg_text=mc_cfg("KeysPrefix", "E0", ["OrderIndependentOfPrivateNames"]), expect_ok=False, timeout=600)
    scs = scenarios(ctx)
    traces = check_scenarios(ctx, scs)
    # "regardless of what was computed earlier" for a sampler OBJECT: advanced by hand under another objective and abandoned with
    # batches outstanding on a lazy client, then asked to sample() - the seeded result is that of a fresh sampler (driver and
    # trace spec shared with C04)
    from harness.props import c04
    c04.check_abandoned(ctx)
    for i in (1, len(scs) // 3):
        ctx.sample(dict(key={k: scs[i][k] for k in ("g", "seed", "bi", "bs", "outs", "histories")},
                        runs=[dict(label=r["label"], digest=r["digest"], draws=r["draws"][:3]) for r in traces[i]["runs"][:4]]))


def replay(ctx, scenario):
    if scenario.get("family") == "abandoned":
        from harness.props import c04
        return c04.check_abandoned(ctx, [scenario])
    check_scenarios(ctx, [scenario])

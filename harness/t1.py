"""T1 models: elfi models whose values are their own provenance.

A simulated row is the integer id = batch_index*batch_size + row (obtained from `meta`), a summary
is id + 10000*k, a discrepancy is a table lookup disc[id] chosen by the scenario (ties, inf and
nan placed at will).  The operations keep their own log of what they simulated - an independent
record that does not go through elfi's pools.
"""
import numpy as np

import elfi

INF = float("inf")
NAN = float("nan")


def decode(x):
    """scenario value -> float: numbers or the strings 'inf' / 'nan'."""
    if isinstance(x, str):
        return {"inf": INF, "-inf": -INF, "nan": NAN}[x]
    return float(x)


class _Summary:
    """summary k of a simulated id: id + 10000*k (optionally as a vector); picklable (worker processes)"""

    def __init__(self, k, width):
        self.k, self.width = k, width
        self.__name__ = "summary%d" % k

    def __call__(self, y):
        y = np.asarray(y, dtype=float)
        out = y + 10000.0 * self.k
        if self.width:
            out = np.repeat(out.reshape(-1, 1), self.width, axis=1) + np.arange(self.width) * 0.125
        return out


class T1Model:
    """prior(s) -> sim (ids from meta) -> summaries -> discrepancy (table)."""

    def __init__(self, table, name="t1", n_params=1, n_summaries=1, width=0, prior="uniform",
                 observed_id=7, disc_fn=None, hier=False):
        self.table = [decode(v) for v in table]
        self.n_params = n_params
        self.width = width
        self.calls = {}           # node -> list of (batch_index, n_rows)
        self.param_of = {}        # id -> tuple of parameter values the simulator received
        self.sim_rows = {}        # id -> True (simulated)
        self.model = elfi.ElfiModel(name=name)
        m = self.model
        self.param_names = []
        for k in range(n_params):
            pname = "t%d" % (k + 1)
            if prior == "uniform":
                if hier and k > 0:
                    elfi.Prior("uniform", 0, m[self.param_names[0]], model=m, name=pname)
                else:
                    elfi.Prior("uniform", 0, 1, model=m, name=pname)
            elif prior == "normal":
                elfi.Prior("norm", 0, 1, model=m, name=pname)
            self.param_names.append(pname)
        parents = [m[p] for p in self.param_names]
        sim = elfi.Simulator(self._sim, *parents, model=m, name="sim", observed=np.array([float(observed_id)]))
        sim.uses_meta = True
        self.summary_names = []
        for k in range(n_summaries):
            sname = "S%d" % (k + 1)
            elfi.Summary(self._make_summary(k + 1), sim, model=m, name=sname)
            self.summary_names.append(sname)
        elfi.Discrepancy(disc_fn or self._disc, *[m[s] for s in self.summary_names], model=m, name="d")

    # ---- operations
    def _count(self, node, bi, n):
        self.calls.setdefault(node, []).append((bi, n))

    def _sim(self, *params, batch_size=1, random_state=None, meta=None):
        bi = int(meta["batch_index"])
        ids = bi * batch_size + np.arange(batch_size)
        self._count("sim", bi, batch_size)
        cols = [np.broadcast_to(np.asarray(p, dtype=float).reshape(-1), (batch_size,)) if np.ndim(p) <= 1
                else np.asarray(p, dtype=float)[:, 0] for p in params]
        for r, i in enumerate(ids):
            self.param_of[int(i)] = tuple(float(c[r]) for c in cols)
            self.sim_rows[int(i)] = True
        return ids.astype(float)

    def _make_summary(self, k):
        return _Summary(k, self.width)

    def id_of_summary(self, k, v):
        """inverse of summary k on one row (any width)."""
        v = np.asarray(v, dtype=float).reshape(-1)[0]
        return int(round(v - 10000.0 * k))

    def _disc(self, *summaries, observed=None):
        s = np.asarray(summaries[0], dtype=float)
        if s.ndim > 1:
            s = s[:, 0]
        ids = np.rint(s - 10000.0).astype(int)
        return np.array([self.table[i % len(self.table)] for i in ids], dtype=float)

    def disc_of(self, i):
        return self.table[i % len(self.table)]

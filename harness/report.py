"""python harness/report.py -> markdown tables for DESIGN.md section 10 from evidence/*.json, out/selftest.json, seeded/*/meta.json"""
import glob
import json
import os

ROOT = os.path.dirname(os.path.dirname(os.path.abspath(__file__)))


def main():
    print("| id | tier | TLC states (design + traces) | traces validated | distinct non-trivial | known seen | wall s | clauses not decided |")
    print("|----|------|------------------------------|------------------|----------------------|------------|--------|---------------------|")
    for f in sorted(glob.glob(os.path.join(ROOT, "evidence", "C*.json"))):
        e = json.load(open(f))
        c = e["coverage"]
        nd = "; ".join(c.get("clauses_not_decided", []))[:160]
        print("| %s | %s | %d | %d | %d | %s | %.0f | %s |" % (e["property_id"], e["tier"], c["states"], c["traces_validated_against_impl"],
                                                            c["distinct_nontrivial"], ",".join(sorted(c.get("known_findings_seen", {}))) or "-",
                                                            e["wall_s"], nd or "-"))
    st = os.path.join(ROOT, "out", "selftest.json")
    if os.path.exists(st):
        print("\n| property | own mutant | result | failing clause(s) |")
        print("|----------|-----------|--------|-------------------|")
        for r in json.load(open(st)):
            print("| %s | %s | %s | %s |" % (r["pid"], r["diff"].replace(".diff", "").split("__", 1)[-1], r["status"], ", ".join(r.get("clauses", []))[:140]))
    print("\n| seeded change | property | confirmed | caught by | clause(s) |")
    print("|---------------|----------|-----------|-----------|-----------|")
    for f in sorted(glob.glob(os.path.join(ROOT, "seeded", "*", "meta.json"))):
        m = json.load(open(f))
        hit = next((c for c in m["checks"] if c["rc"] == 1 and c["clauses"]), None)
        print("| %s | %s | %s | %s | %s |" % (os.path.basename(os.path.dirname(f)), m["property"], m["confirmed"],
                                           (hit["tier"] if hit else "MISSED"), ", ".join(hit["clauses"])[:120] if hit else "-"))


if __name__ == "__main__":
    main()

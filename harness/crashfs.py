"""File-object proxy for elfi.store: numbers every low-level file call and can kill the process
(os._exit) before or after call number k.  Installed by shadowing the name `open` in the module
elfi.store at run time; nothing in /repo changes."""
import builtins
import os

LOW = ("seek", "write", "truncate", "flush", "close")


class Counter:
    def __init__(self, kill_at=None, phase="after"):
        self.n = 0
        self.kill_at = kill_at
        self.phase = phase
        self.log = []          # (n, op name, current api call index)
        self.call_index = 0    # set by the driver before each public call

    def before(self, name):
        self.n += 1
        self.log.append((self.n, name, self.call_index))
        if self.kill_at == self.n and self.phase == "before":
            os._exit(77)

    def after(self, name):
        if self.kill_at == self.n and self.phase == "after":
            os._exit(77)


class FileProxy:
    def __init__(self, f, counter):
        object.__setattr__(self, "_f", f)
        object.__setattr__(self, "_c", counter)

    def _wrap(self, name, *a, **k):
        self._c.before(name)
        r = getattr(self._f, name)(*a, **k)
        self._c.after(name)
        return r

    def seek(self, *a, **k):
        return self._wrap("seek", *a, **k)

    def write(self, *a, **k):
        return self._wrap("write", *a, **k)

    def truncate(self, *a, **k):
        return self._wrap("truncate", *a, **k)

    def flush(self, *a, **k):
        return self._wrap("flush", *a, **k)

    def close(self, *a, **k):
        if self._f.closed:
            return self._f.close()
        return self._wrap("close", *a, **k)

    def read(self, *a, **k):
        return self._f.read(*a, **k)

    def readinto(self, *a, **k):
        return self._f.readinto(*a, **k)

    def tell(self):
        return self._f.tell()

    def fileno(self):
        return self._f.fileno()

    @property
    def name(self):
        return self._f.name

    @property
    def closed(self):
        return self._f.closed

    @property
    def mode(self):
        return self._f.mode

    def __getattr__(self, item):
        return getattr(self._f, item)


def install(counter):
    import elfi.store

    def proxy_open(file, mode="r", *a, **k):
        f = builtins.open(file, mode, *a, **k)
        if "b" in mode and str(file).endswith(".npy"):
            return FileProxy(f, counter)
        return f
    elfi.store.open = proxy_open


def uninstall():
    import elfi.store
    if "open" in elfi.store.__dict__:
        del elfi.store.open

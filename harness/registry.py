"""Per-property registration: what is claimed, at which level, with which trusted base."""
import json
import os

ROOT = os.path.dirname(os.path.dirname(os.path.abspath(__file__)))
BASELINE = ("cd /repo && /venv/bin/python -m pytest -ra -q -p no:cacheprovider --timeout=900 "
            "--continue-on-collection-errors")

# id -> dict(text, note, technique, design_ref)   (claimed)
CLAIMED = {}
# id -> reason  (not claimed)
NOT_APPLICABLE = {}


def claim(pid, text, note, technique, design_ref):
    CLAIMED[pid] = dict(text=text, note=note, technique=technique, design_ref=design_ref)


claim("C15",
      "TLC checks SubSeed.tla exhaustively (all draw streams over 0..High-1, all call histories sharing one cache, "
      "High<=3 quick / <=4 thorough) for history independence, distinctness, range and rejection; every recorded "
      "call history of the real get_sub_seed (exhaustive for high<=4/5, random for high up to 2^31, and through "
      "RandomStateLoader with a shared ComputationContext) is validated by TLC against SubSeed_Trace.tla, whose P: "
      "clauses transcribe the four clauses of the property and whose M: clauses bind the code to the design module.",
      "Small-scope: exhaustive only for small high and short histories; numpy's RandomState stream is taken as given "
      "(the harness draws it in one chunk, the code in several - chunk invariance is an M: clause).",
      "TLA+ design model checked by TLC + TLC trace validation of recorded get_sub_seed histories", "5/C15")

claim("C04",
      "TLC checks Batches.tla exhaustively: every interleaving of Submit / GoWait / WaitNext / Finish against an adversarial "
      "client (free is_ready answers), every objective function with a fix point, MaxPar<=3, up to 3 SMC rounds with "
      "round-end cancellation and per-round proposal generators; invariants InOrderOnce, Bounded, NoCancelledUsed, NoLeak, "
      "ScheduleIndependent and liveness Terminates.  Real Rejection and SMC runs on id-valued models are executed through a "
      "scheduled ClientBase (all is_ready answer scripts of a fixed length, plus seeded random schedules with out-of-order "
      "task execution); TLC validates each event log against Batches_Trace.tla (P: clauses = the five clauses of C04, "
      "including digest equality with the sequential native-client run).  The same comparison is made with the REAL multiprocessing "
      "client (2-3 worker processes), and the real native / multiprocessing client objects are validated against ClientContract.tla - "
      "the contract Batches.tla assumes of a client: a P: clause for elfi's own native and multiprocessing clients, drift only for dask; a sampler advanced by hand "
      "under another objective and abandoned with batches outstanding, then asked to sample(), returns the fresh sequential result and leaves no task.",
      "Small-scope bounds on MaxPar / consumed batches / rounds at design level (thorough adds TLC simulation beyond them); "
      "dask/ipyparallel clusters are not available; digests are sha256 of the returned arrays.  The run also carries the RoundGate extension "
      "(round / acquisition gating of ModelBased = BSL, BOLFIRE and of BayesianOptimization; E: clauses, reported as drift only, DESIGN 10.6).",
      "TLA+ design model checked by TLC (safety+liveness) + TLC trace validation of scheduled-client event logs", "5/C04")

claim("C01",
      "TLC checks Rejection.tla exhaustively (set_objective / update / extract_result as actions; all batches over small "
      "discrepancy sets with ties, +inf and nan; the unstable argsort modelled as a free choice among sorting permutations; "
      "threshold, quantile and n_sim objectives incl. the rational form of the threshold-mode objective estimate) for BestN, "
      "AreConsumedDraws, Sorted, ThrIsMax, BudgetBatches and the inductive buffer invariant, with the +inf filler anomaly (F2) as a "
      "refuted negative control.  Real executions - the public stepping API driven with id-carrying batches (exhaustive for the "
      "smallest sizes, seeded random up to 5x6) and Rejection.sample through the engine on id-valued models with a recording "
      "subclass - are validated by TLC against Rejection_Trace.tla: P: clauses are the six clauses of C01 evaluated on the returned "
      "Sample against the consumed batches; M: clauses compare buffer, threshold and objective after every update with the design "
      "module.",
      "Small-scope at design level; quantiles restricted to dyadic rationals (ceil exact in floats); discrepancies are small "
      "integers / inf / nan; known finding F2 (filler rows displace inf/nan draws) is classified by its exact input class.",
      "TLA+ design model checked by TLC + TLC trace validation of recorded update/result sequences", "5/C01")

claim("C06",
      "TLC checks NpyStore.tla exhaustively at file-operation grain: every history of public calls (append, in-place overwrite, "
      "truncate/delete-last/clear, read, flush, close+reopen, pickle round trip), each a program of low-level file operations, with "
      "Python's write buffer drained non-deterministically and a process kill between any two operations; invariants FlushExact, "
      "CrashSafe and the action property Refines; the two original operation orders (findings F6, F7, now repaired) are negative "
      "controls that TLC refutes.  Real NpyArray / NpyStore histories over 6 dtypes, several row shapes and batch sizes are recorded "
      "(a) without kill, observing the store after every call or only at the end and numpy.load-ing the file after every flush/close, "
      "and (b) in forked children that os._exit() before/after every low-level file call and after every public call; TLC validates "
      "each against NpyStore_Trace.tla, which re-uses the design module's actions and infers how far the killed call got and which "
      "buffered writes had reached the OS.",
      "Process kill only (no power-failure / page-cache loss); the file proxy shadows elfi.store.open at run time; CPython's "
      "BufferedRandom is over-approximated (any prefix of the buffered writes may have reached the OS).  The run also carries the PoolLife "
      "extension (ArrayPool / OutputPool directory and pickle lifecycle; E: clauses, reported as drift only, DESIGN 10.6).",
      "TLA+ crash model checked by TLC + TLC trace validation of kill-injected executions", "5/C06")

claim("C03",
      "TLC checks the design theorem of Compile.tla - Execute(Load(Compile(G, outs), with_values)) = Meaning(G)|outs, executed set = "
      "operations the meaning needs, rejection exactly when required - over ALL model graphs with <= 3 nodes (six node kinds, positional "
      "and named parents, partial observations, uses_meta, requested subsets including observed twins, with_values subsets), one operator "
      "per compiler pass / loader and the executor's dependency rule, with a refuted negative control.  TLC emits the graphs it explores; "
      "each, plus seeded random 3-8 node ELFI-shaped DAGs, is built through the public node constructors with symbolic operations and run "
      "with model.generate on the real code; TLC then recomputes the meaning from the graph description (Compile_Trace.tla) and compares "
      "returned terms, per-operation call counters and exceptions (P: clauses a-f), and compares with the compiled-net semantics (M:).",
      "Small-scope at design level (<= 3 nodes exhaustive); named parents of Prior / Discrepancy nodes and duplicate parents (known "
      "finding F20) are outside the generated family; symbolic operations stand for arbitrary user operations.",
      "TLA+ denotational-vs-operational model checked by TLC + TLC-emitted graphs replayed + TLC trace validation", "5/C03")

claim("C14",
      "TLC checks ElfiGraph.tla exhaustively: all edit histories (add node with node / literal parents, become, remove, parameter_names "
      "setter, observed data, copy, save+load) of bounded length over a store with explicit addresses for node state dicts and observed "
      "dicts (aliasing between a model and its copy is representable); invariants AllConsistent, CopyIndependent, CopySame, BecomeContract, "
      "RemoveContract; negative controls: copy() sharing state (F13, repaired) and become() with a non-fresh replacement (F14, known).  "
      "Seeded random edit histories are replayed on real ElfiModels with symbolic operations; after every action every live model is "
      "projected through the public API (nodes, classes, operation ids, edges with params, observed, parameter flags and parameter_names, "
      "seeded generate() digest) and TLC validates the trace against ElfiGraph_Trace.tla (P: clauses a-f on the observed projections, M: "
      "equality with the design store after each action).",
      "Small-scope at design level (3 user names, <= 5 edits, 2 handles); node names from a "
      "fixed alphabet (sortedness is checked through a rank table).  The run also carries the Naming extension (node naming, default model, "
      "references, context bookkeeping; E: clauses, reported as drift only, DESIGN 10.6).",
      "TLA+ model of the edit operations checked by TLC + replay of edit histories + TLC trace validation", "5/C14")

claim("C02",
      "TLC checks TopoSort.tla (a literal transcription of nx_constant_topological_sort over names as character-code sequences): the order is "
      "topological, the cached full order restricted to any executed subset stays dependency respecting (CacheSound), and - negative control, "
      "known finding F3 - the order of the user's nodes depends on the random suffix of auto-named private constants for prefix-related names.  "
      "One key K = (graph, seed, batch index, batch size, outputs) is executed repeatedly in one process: plainly, after perturbation histories "
      "(consume / reseed np.random, generate other models, unseeded generate, Rejection on another model, other outputs), through a shared "
      "ComputationContext that first computed other batch indices, after rebuilding the model in another insertion order, and on the "
      "multiprocessing client; recording stochastic operations log the generator object and its state before/after.  TLC validates each "
      "trace against Purity_Trace.tla: bit-identical digests, single generator, generator state = RandomState(SubSeed(seed, batch index)) with "
      "SubSeed computed by the C15 operators from the real numpy stream, states chained, order dependency-respecting and fixed (P:), order "
      "equal to the transcribed constant topological sort of the real compiled net (M:).  Seeded Rejection and SMC runs are compared the same way.",
      "Digest = sha256 of the returned float arrays; the multiprocessing client is compared by results only; statement's 'model' is read up to "
      "the names of auto-named private constants (F3 is the case where that matters).",
      "TLA+ transcription of the sort checked by TLC + TLC trace validation of repeated executions under perturbation histories", "5/C02")

claim("C05",
      "TLC checks Pool.tla exhaustively: histories of runs over one pool (fill, rerun, rerun needing more batches, remove a store, replace "
      "the summary / distance) for every stored set of the stated form, on the canonical graph parameters -> simulator -> summary -> "
      "distance with values that record WHICH DRAW of the batch generator each stochastic node consumed (a generator shifted by a skipped "
      "node is visible); invariants Transparent, NoResim, PoolFresh; refuted controls: a strict subset of the parameters stored, and a "
      "store removal that leaves only parameters.  The same kinds of histories run on real OutputPool and on-disk ArrayPool objects "
      "(incl. close + reopen, and runs with another batch_size / seed) with Rejection on a model whose simulator output encodes batch, "
      "row, received parameters and its own random draw; every run has a pool-free twin; operations log calls per (node, batch); the pool "
      "content is compared with a fresh computation of every held batch.  TLC validates each history against Pool_Trace.tla.",
      "Rejection-type runs only (parameters from the prior); canonical graph shape with two parameters; known finding F29 (all parameters "
      "stored, simulator not, an un-stored simulator-dependent output requested) is classified by its exact configuration.",
      "TLA+ pool/loader model checked by TLC + TLC trace validation of run histories with pool-free twins", "5/C05")

claim("C18",
      "TLC checks Vectorize.tla exhaustively (arity<=3, each input non-array or array of length 0..3, every constants mask, batch_size "
      "None/0..3, dtype None/False/some, meta absent/fresh/stale): the transcription of run_vectorized equals the declarative per-row "
      "definition (length, per-row arguments, constants, keywords, row index in meta, container); and External.tla (all templates of <=2-3 "
      "literal/positional/keyword fields x explicit keywords x meta x generator x all draw streams over 0..High-1): substitution with "
      "explicit keywords winning, seed = sub-seed of the generator state at the row index, distinct per row when meta is passed; 7 broken "
      "variants and 16 corrupted traces are refuted.  The real elfi.tools.vectorize is called with id-carrying symbolic operations "
      "(exhaustive arity<=3 x masks x scalar/array x batch_size x dtype, random, and as Simulator/Summary of real model runs) and the real "
      "external_operation runs echo/printf templates (exhaustive short templates in 6 contexts, random, model runs repeated with "
      "equal/different seeds); TLC recomputes the expected per-row applications, command lines, parsed arrays and seed relations "
      "(Vectorize_Trace.tla, External_Trace.tla).",
      "Small-scope bounds at design level; values restricted to small integers and multiples of 1/8 (exact text<->float); /bin/sh "
      "echo/printf, numpy array construction and the harness projections are trusted; batch_size is treated as the vectorizer's own "
      "parameter; known finding F26 (no meta => rows share one seed) is classified, pinned and reported on every run.",
      "TLA+ design models checked by TLC + TLC trace validation of recorded vectorize / external_operation calls", "5/C18")

claim("C12",
      "TLC checks Distance.tla exhaustively (ndarray-grain transcription of distance_as_discrepancy - column_stack / atleast_2d / "
      "concatenate / cdist / reshape - against the statement-level definition, for batch sizes 1..3(4), all 84 layouts of 1-3 summaries of "
      "widths scalar..3, 14 metric descriptors with and without p / w / V / VI, patterned and exhaustive small integer data) and "
      "Welford.tla exhaustively (the batched recurrence of AdaptiveDistance.add_data over exact rationals: every integer data set of <= 6(7) "
      "rows x 1 column / <= 3(5) rows x 2 columns with EVERY ordered partition into add_data calls gives the population variance and mean; "
      "up to 4 update rounds: distance function r+1 is Euclidean / scale of round r, no action changes an existing column).  Real "
      "elfi.Distance and elfi.AdaptiveDistance nodes are run on integer data (node.generate(with_values) with and without batch_size, "
      "model.generate, Rejection.sample; all ordered partitions of small adaptation sets, several update rounds, every batch size dividing "
      "n_sim) and TLC validates every recorded evaluation against Distance_Trace.tla / Welford_Trace.tla, which recompute the expected "
      "values from the logged inputs in exact integer / rational arithmetic.",
      "Integer sub-domain only (cityblock, chebyshev, sqeuclidean, minkowski p in {1,2}, euclidean, seuclidean V in {1,2,4}, mahalanobis "
      "with integer VI; Euclidean forms compared through d*d to 1e-3, scales through scale^2 to 1e-6..1e-3); scipy's metric definitions are "
      "transcribed in DistanceOps.tla; rounds with a constant column only decide the scale clause; AdaptiveDistanceSMC is covered only "
      "through the Rejection sampler it delegates to.",
      "TLA+ design models checked by TLC + TLC trace validation of recorded Distance / AdaptiveDistance evaluations", "5/C12")

claim("C13",
      "TLC checks WQuantile.tla (code scan => definition, least valid element, tie-order irrelevance, monotone in alpha, scale invariance; "
      "samples <=4, values 0..3, weights 0..3, alpha k/8), WeightedStats.tla (code-shaped rational evaluation == reliability-weights variance / "
      "(sum w)^2/sum w^2, scale invariance, zero weights irrelevant) and GmRvs.tla (accept loop: exact count, all valid, disjoint windows, "
      "termination under fairness) exhaustively with refuted negative controls; the real weighted_sample_quantile / weighted_var / compute_ess / "
      "GMDistribution.pdf, logpdf, rvs are run on the same finite domains (all sample x weight pairs up to length 4 x 9 alphas, plus seeded "
      "random cases) and TLC validates every call against WStats_Trace.tla / GmRvs_Trace.tla, recomputing the expected value from the logged "
      "inputs in exact integer / rational arithmetic.",
      "Exact sub-domains only: integer samples/weights (power-of-two rescaling), variance/ESS at 1e-6 fixed point, mixture density on the "
      "integer lattice with diagonal covariance (table of (2pi)^(-d/2)exp(-k/2) to 1e-8), logpdf vs math.log of the function's own pdf; "
      "M:wq-scan only where floats are provably exact, boundary alphas judged by the definition both ways; non-diagonal covariances and "
      "unsatisfiable constraints not decided.",
      "TLA+ design models checked by TLC + TLC trace validation of recorded calls with recording random_state / prior_logpdf", "5/C13")

claim("C19",
      "TLC checks LineSearch.tla (all objective predicates, K<=4/6, rep_lim<=5/8: positive result, below-up-to-result, never passes a failed "
      "probe, termination), BBox.tla (every signed-permutation rotation in 1-3 D x centres x raw limits incl. degenerate and threshold ones: "
      "sample inside contains, forward/inverse maps agree, density 1/volume, integral one) and RomcPosterior.tla (indicator counting with <= "
      "and weights with <), each with refuted negative controls.  Every terminal behaviour of LineSearch.tla is replayed into the real "
      "line_search; real line_search / RegionConstructor, NDimBoundingBox (all exact rotations plus random orthonormal ones) and RomcPosterior "
      "executions are validated by TLC against LineSearch_Trace, BBox_Trace and RomcPosterior_Trace, with expected values recomputed from the "
      "inputs in exact big-number arithmetic.",
      "Small scope at design level; clause (b) exact only for signed-permutation rotations (orthonormal rotations rely on the harness's float "
      "forward map); faces, the 1e-6 shell around them and the exact 0.001 widening threshold are not decided; floats compared at seven "
      "significant digits; stub prior; known finding F25 (rep_lim=0).",
      "TLA+ design models checked by TLC + TLC behaviour emission + TLC trace validation", "5/C19")

claim("C17",
      "TLC checks LinAdjust.tla exhaustively (all row multisets over small integer data with non-finite markers, 1-2 regressors, 1-2 "
      "parameters, n<=3-5): centred normal equations and least-squares optimality of the Cramer slope, theta - X.b, finite-mask-only, "
      "fixed-point row, invariance under integer affine maps of determinant +-1, +-2; and ModelCompare.tla exhaustively (2-3 models, free tie "
      "order at the n_min cut): shares of the jointly smallest, sum to one, proportionality, permutation equivariance.  Five negative controls "
      "are refuted.  Real adjust_posterior and compare_models calls on real elfi Sample objects (built directly and by real Rejection runs, "
      "with inf/nan in summaries, parameters and discrepancies, and an ElfiModel giving the observed summaries), followed by calls on "
      "affinely re-expressed summaries and permuted model lists, are validated by TLC against LinAdjust_Trace / ModelCompare_Trace, which "
      "recompute the expected values from the logged inputs in exact rational arithmetic (unit 1e-6).",
      "Small-scope; value comparison only where the LS slope is unique and cond <= 1e4, on integer data where float error < 1e-12; "
      "rank-deficient designs and parameters without finite rows are not decided (only mask length and fixed-point row); sklearn "
      "LinearRegression is the engine the code delegates to (its result is checked, not trusted); free tie order at the n_min cut.",
      "TLA+ design models checked by TLC + TLC trace validation of logged real calls", "5/C17")

claim("C07",
      "TLC checks Smc.tla exhaustively (set_objective with threshold or quantile lists, round ends, extract_result, a second sample() call "
      "on the same sampler in all four orders): one population per list entry, the threshold in force of a quantile round is the quantile of "
      "the PREVIOUS population, proposals and weights come from the latest population, n_sim adds over all rounds, and no IndexError - with "
      "the stale-quantiles history of finding F22 (repaired) as a refuted negative control; Batches.tla (C04) covers the scheduling of the "
      "rounds, Rejection.tla (C01) each round's sample, WQuantile.tla (C13) the quantile.  Real SMC.sample runs over bounded-uniform, "
      "unbounded-normal and hierarchical priors with dyadic discrepancies, threshold lists and dyadic quantile lists, half of them continued, "
      "are logged population by population; TLC validates each against Smc_Trace.tla: size, discrepancies within the user threshold or "
      "within a threshold that IS a weighted alpha-quantile of the previous population (WQuantileOps with rounding slack), positive prior "
      "density, first weights 1, log w = log prior - log mixture(previous population, its weights, its covariance) and cov = 2 x "
      "reliability-weights variance as oracle-field relations, n_sim = batch_size x consumed batches per round and summed.",
      "Clauses d and e are relation checks against scipy / numpy oracle fields (technique T4 of DESIGN: the weakest form used); the density "
      "values themselves are trusted to scipy; weights logged to 1e-4.",
      "TLA+ round model checked by TLC + TLC trace validation of logged populations with oracle fields", "5/C07")

claim("C11",
      "TLC checks BoLoop.tla (the BO loop on top of the batch scheduling of Batches.tla: acquisition queue of prepare_new_batch, the refined "
      "_allow_submit, evidence bookkeeping of update) over every client schedule for several (MaxPar, batches_per_acquisition, initial "
      "batches) with liveness: EvidenceIsConsumedSequence, QueueExact, AcquisitionSeesAllEarlierEvidence => ScheduleIndependentEvidence for "
      "synchronous acquisition, refuted for async_acq (negative control).  Real BayesianOptimization fits (LCBSC with zero / scalar / "
      "per-parameter noise, UniformAcquisition; all initial-evidence forms; batch sizes, batches_per_acquisition, update intervals; priors "
      "wider and narrower than the bounds) run through the scheduled client with max_parallel_batches 1-3; the simulator logs the parameters "
      "it receives; acquire() is wrapped to log n, t, the points and the number of pending batches.  Direct acquire(n, t) calls of LCBSC, "
      "MaxVar, RandMaxVar, ExpIntVar and UniformAcquisition on fitted surrogates, and gradient-vs-central-difference checks for LCBSC and "
      "MaxVar.  TLC validates every trace against BoLoop_Trace.tla (bounded / in-order / no-leak scheduling clauses, points inside bounds "
      "in fixed point, exact count, surrogate X/Y rows = precomputed + consumed simulator pairs in order, n_evidence, digest equality with "
      "the sequential run).",
      "GPy and scipy.optimize are black boxes that return some point; clause e only for LCBSC and MaxVar and only as the relation between "
      "evaluate_gradient and a central difference of evaluate (relative 2e-3); coordinates in fixed point 1e-6; known finding F12 (RandMaxVar "
      "with its default NUTS sampler raises TypeError under numpy 2).  The run also carries the BolfiPipeline extension (the BOLFI public call "
      "pipeline as a state machine; E: clauses, reported as drift only, DESIGN 10.6).",
      "TLA+ BO-loop model checked by TLC (safety+liveness) + TLC trace validation of scheduled BO fits and direct acquisition calls", "5/C11")

claim("C09",
      "TLC checks Metropolis.tla exhaustively (n<=4, warm-up<=3, adversarial target values Fin/-inf/+inf/NaN and generator outcomes: "
      "ChainIsRandomWalk, AcceptIff, OutputIsChainTail, OutputsFinite, LengthExact) and NutsTree.tla (control skeleton of "
      "nuts/_build_tree_nuts over all leaf-outcome assignments, U-turn answers and selection draws to depth 3: the selected state is the "
      "previous sample or an in-slice leaf), with 5 refuted negative controls.  Real metropolis chains are recorded through a target "
      "callable that logs every proposal; the harness replays RandomState(seed) (d normals then one uniform per iteration) and finds "
      "bit-exactly which earlier state each proposal was built from; Metropolis_Trace.tla lets TLC infer accept/reject of every step and "
      "checks proposal = current + sigma*z, state = previous or proposal, accept iff u below the ratio and the proposed log-target finite "
      "(computed by TLC in integers on k*ln2 lattice targets), exact length and warm-up slice, determinism, finite outputs; Nuts_Trace.tla "
      "checks length, determinism, finite outputs (P:) and binds real runs to NutsTree (M:).  Clause e (moments of standard targets) is judged "
      "as a statistical relation on logged oracle fields: long seeded runs of both kernels on four standard targets (uniform square with hard "
      "boundaries, truncated normal, correlated Gaussian, independent normals), Moments_Trace.tla accepts |average - exact| <= 6 batch-means "
      "standard errors + 0.002.",
      "Trusted: numpy RandomState replay order; harness float evaluation of exp(dt) < u off the lattice (cross-checked by integer arithmetic "
      "on lattice targets); frame inspection for NUTS leaf outcomes (M: only).  Assumes n_samples >= 1 and a finite log-target at the start.  "
      "The statistical clause (reproduces the target's moments) is not a state-space argument: it is a statistical test on deterministic seeded runs "
      "wrapped in the trace interface (false-alarm probability < 1e-5 per statistic; blind to biases below the tolerance of the run length).",
      "TLA+ design models checked by TLC + trace validation with TLC-inferred accept/reject", "5/C09")

claim("C08",
      "For every prior DAG with <=3 parameters and <=2 distribution arguments, and for 4-parameter DAGs with <=1 argument in any name order "
      "or <=2 arguments topologically named (arguments constants or other parameters), and every requested order of every parent-closed "
      "subset, TLC checks on ModelPrior.tla (built on CompileOps of C03) that ModelPrior's augment / compile / load / override / execute "
      "evaluates to the fold of the conditional (log-)densities at the query columns and runs only the pdf nodes, plus the shape table and the "
      "central-difference = derivative lemma on piecewise-linear log densities; refuted controls incl. the subset defect F8 (repaired).  "
      "1.4k (quick) / 14k (thorough) real ModelPrior objects (TLC-emitted and random DAGs, exact fake distributions with integer-polynomial "
      "densities + scipy.stats.uniform) have pdf / logpdf / gradient_logpdf / rvs validated by TLC against the exact rational product / log "
      "sum / derivative / shape / positivity recomputed from the DAG and the query points (ModelPrior_Trace.tla).",
      "Trusted: scipy.stats.uniform; exact sub-domain: quarter-lattice points, integer fake arguments, power-of-two uniform scales.  Not "
      "decided: smooth-density gradients and stencils touching kinks or boundaries; invalid distribution parameters (nan); subsets not closed "
      "under parameter-parents; duplicate parents (F20); other scipy densities.",
      "TLA+ design model checked by TLC + TLC-emitted DAGs + TLC trace validation with exact fake distributions", "5/C08")

claim("C10",
      "TLC checks BolfiPosterior.tla (query machine on the lattice mu,h integers, sigma 1..4, z -4..4: outside = -inf, inclusive bounds, "
      "shape table, coherence of the Phi/logPhi/Mills tables, the code's gradient factor equals the slope of z on two surrogate families, "
      "gradient operator bracketed by finite differences of the log-density operator; 3 negative controls refuted) and Surrogate.tla "
      "(evidence, gpVersion, cacheVersion, cached, isSampling; AppendOnly, FastPathFresh; the original cache rule of finding F10 and a "
      "prepending update refuted).  A real BolfiPosterior over a stub surrogate/prior answering lattice values is queried inside/on/outside "
      "the bounds in scalar/1-D/2-D float and integer shapes through logpdf, gradient_logpdf, pdf; real GPyRegression objects (dims 1-3, "
      "optimised hyper-parameters) are driven along one shortest history per abstract transition emitted by TLC and by real BOLFI "
      "fit/sample runs; TLC validates the logs against BolfiPosterior_Trace (table arithmetic, +-2e-6) and Surrogate_Trace (fast path = GPy "
      "model, X/Y ids append-only).",
      "Posterior arithmetic decided on the lattice only; GPy's predict/predictive_gradients are the trusted side of clause d (tolerance "
      "5e-6 + 1e-5 rel., measured difference 0); single-row queries on the fast path; default RBF+bias kernel; gradient outside the bounds "
      "and threshold=None not decided.",
      "TLA+ design models checked by TLC + TLC behaviour emission + TLC trace validation (T3 tables, differential check against GPy)", "5/C10")

claim("C16",
      "TLC checks ResultObjects.tla exhaustively (constructor, samples_array, rational means, weighted-quantile intervals via WQuantileOps, "
      "BOLFI slice-and-reshape vs. chain-by-chain concatenation, and the Save/Load state machine over csv/json/pkl histories <= 3-4 with the "
      "aliasing of the JSON save) and ChainDiag.tla exhaustively (split R-hat = BDA3 11.4 = cleared integer form; eff_sample_size "
      "transcription = cleared big-natural form; invariance under shifts, integer scalings, chain reordering; shapes up to 1x7, 2x5, 3x4).  "
      "Eight negative controls are refuted, incl. the JSON save as originally coded (F30, repaired).  Real Sample / SmcSample / BolfiSample "
      "objects built from id-valued arrays with dyadic weights are taken through every save/read-back history <= 3-4 and seeded random "
      "ones; real gelman_rubin_statistic / eff_sample_size calls on all small and seeded random integer chains (<= 4x16) and on exactly "
      "transformed copies; ResultObjects_Trace / ChainDiag_Trace recompute the expected values from the logged inputs (ids, fixed point "
      "1e-6, big-natural rationals 5e-8).",
      "Small-scope; values are ids mapped through strictly increasing tables, means judged only on id*2^-sh tables; interval ends judged by "
      "the quantile definition (both neighbours accepted on exact boundaries); reading back = python csv/json/pickle; scalar parameter "
      "columns only; 'ESS = the estimator its docstring cites (BDA3 / Stan 2.14)' is a P: clause (scope decision of DESIGN 5/C16 revised, see 10.5 round 4); affine maps "
      "restricted to +-2^k x + c with integer c.",
      "TLA+ design models checked by TLC + TLC trace validation of logged real calls", "5/C16")

claim("C20",
      "TLC checks SynLik.tla (standard, unbiased and misspecification-adjusted synthetic likelihoods on small integer data, d<=2: table "
      "consistency incl. the published Ghurye-Olkin constant, determinant lemma, support of the unbiased estimator, whitening equivariance, "
      "zero-gamma), BslMh.tla (4 bound types x widths x e^theta~ in {1/3,1/2,1,2,3}: inverse, Jacobian = derivative by the chord identity, "
      "reciprocity, detailed balance w.r.t. posterior x Jacobian) and BslRound.tla (ModelBased/BSL round machine against an adversarial "
      "client: no simulation for out-of-support proposals, chain length, rounds aligned, termination), with seven refuted negative "
      "controls.  Real calls of the transform helpers, the Jacobian helper and _get_mh_ratio on constructed sampler states, of the "
      "likelihood functions on lattice matrices, and real BSL.sample runs (scripted-lattice and seeded, native and scheduled client) are "
      "validated by TLC against BslMh_Trace, SynLik_Trace and BslRound_Trace, which recompute expected values from logged inputs in exact "
      "rational arithmetic plus logarithm tables.",
      "Small scope; clauses a, b only on the {2,3,5,7}-smooth lattice, d<=2, Warton's 1e-5 guard inside an explicit tolerance; glasso, "
      "semi-parametric likelihood, gamma samplers and seeded accept decisions not decided; round trip off the lattice to 1e-9; scripted "
      "runs replace sampler.random_state with a duck-typed object.",
      "TLA+ design models checked by TLC + TLC trace validation", "5/C20")

ALL = ["C%02d" % i for i in range(1, 21)]


def manifest():
    checks = []
    for pid in ALL:
        if pid not in CLAIMED:
            continue
        c = CLAIMED[pid]
        checks.append(dict(
            property_id=pid,
            quick_cmd="./check %s --tier quick" % pid,
            thorough_cmd="./check %s --tier thorough" % pid,
            evidence_file="/verif/evidence/%s.json" % pid,
            replay_cmd_template="./check replay {path}",
            engine="tlc",
            level_claimed=dict(category="model_checking", text=c["text"], design_ref="DESIGN.md section " + c["design_ref"]),
            level_note=c["note"],
            technique=c["technique"]))
    na = [dict(property_id=p, reason=NOT_APPLICABLE.get(p, "check not built yet in this round (planned: see DESIGN.md section 5/%s); nothing is claimed for it" % p))
          for p in ALL if p not in CLAIMED]
    return dict(
        version=1,
        setup_cmd="./setup.sh",
        hooks=dict(guard="ELFI_VERIF_TRACE",
                   enable="no source hooks: all observation is through harness-supplied operations, clients, pools, "
                          "random states and file-object proxies; ELFI_VERIF_TRACE=1 only switches harness recorders on",
                   baseline_off_cmd=BASELINE, source_commits=[], add_only=True),
        engines=[dict(name="tlc", path="/verif/harness/tlc.py", serves_properties=sorted(CLAIMED),
                      kind_free_text="TLC 1.8.0 explicit-state model checker: exhaustive/simulation runs of the TLA+ design modules "
                                     "in /verif/spec and batch trace validation of executions recorded from the real code")],
        checks=checks,
        notes="Model-based verification with an explicit TLA+ specification (spec/*.tla). ./check <id> runs O1 (TLC on the design "
              "module), then records executions of the real code and validates them with TLC against the module's trace spec. "
              "See DESIGN.md.",
        not_applicable=na)


def write():
    with open(os.path.join(ROOT, "MANIFEST.json"), "w") as f:
        json.dump(manifest(), f, indent=1)


if __name__ == "__main__":
    write()

"""Per-property registration: what is claimed, at which level, with which trusted base."""
import json
import os

ROOT = os.path.dirname(os.path.dirname(os.path.abspath(__file__)))
BASELINE = ("cd /repo && /venv/bin/python -m pytest -ra -q -p no:cacheprovider --timeout=900 "
            "--continue-on-collection-errors")

# id -> dict(text, note, technique, design_ref)   (claimed)
CLAIMED = {}
# id -> reason  (not claimed)
NOT_APPLICABLE = {}


def claim(pid, text, note, technique, design_ref):
    CLAIMED[pid] = dict(text=text, note=note, technique=technique, design_ref=design_ref)


claim("C15",
      "TLC checks SubSeed.tla exhaustively (all draw streams over 0..High-1, all call histories sharing one cache, "
      "High<=3 quick / <=4 thorough) for history independence, distinctness, range and rejection; every recorded "
      "call history of the real get_sub_seed (exhaustive for high<=4/5, random for high up to 2^31, and through "
      "RandomStateLoader with a shared ComputationContext) is validated by TLC against SubSeed_Trace.tla, whose P: "
      "clauses transcribe the four clauses of the property and whose M: clauses bind the code to the design module.",
      "Small-scope: exhaustive only for small high and short histories; numpy's RandomState stream is taken as given "
      "(the harness draws it in one chunk, the code in several - chunk invariance is an M: clause).",
      "TLA+ design model checked by TLC + TLC trace validation of recorded get_sub_seed histories", "5/C15")

claim("C04",
      "TLC checks Batches.tla exhaustively: every interleaving of Submit / GoWait / WaitNext / Finish against an adversarial "
      "client (free is_ready answers), every objective function with a fix point, MaxPar<=3, up to 3 SMC rounds with "
      "round-end cancellation and per-round proposal generators; invariants InOrderOnce, Bounded, NoCancelledUsed, NoLeak, "
      "ScheduleIndependent and liveness Terminates.  Real Rejection and SMC runs on id-valued models are executed through a "
      "scheduled ClientBase (all is_ready answer scripts of a fixed length, plus seeded random schedules with out-of-order "
      "task execution); TLC validates each event log against Batches_Trace.tla (P: clauses = the five clauses of C04, "
      "including digest equality with the sequential native-client run).",
      "Small-scope bounds on MaxPar / consumed batches / rounds at design level; the code is bound through the ClientBase "
      "contract only (native-style in-process execution; dask/ipyparallel clusters are not available); digests are sha256 of "
      "the returned arrays.",
      "TLA+ design model checked by TLC (safety+liveness) + TLC trace validation of scheduled-client event logs", "5/C04")

claim("C01",
      "TLC checks Rejection.tla exhaustively (set_objective / update / extract_result as actions; all batches over small "
      "discrepancy sets with ties, +inf and nan; the unstable argsort modelled as a free choice among sorting permutations; "
      "threshold, quantile and n_sim objectives incl. the rational form of the threshold-mode objective estimate) for BestN, "
      "AreConsumedDraws, Sorted, ThrIsMax, BudgetBatches and the inductive buffer invariant, with the +inf filler anomaly (F2) as a "
      "refuted negative control.  Real executions - the public stepping API driven with id-carrying batches (exhaustive for the "
      "smallest sizes, seeded random up to 5x6) and Rejection.sample through the engine on id-valued models with a recording "
      "subclass - are validated by TLC against Rejection_Trace.tla: P: clauses are the six clauses of C01 evaluated on the returned "
      "Sample against the consumed batches; M: clauses compare buffer, threshold and objective after every update with the design "
      "module.",
      "Small-scope at design level; quantiles restricted to dyadic rationals (ceil exact in floats); discrepancies are small "
      "integers / inf / nan; known finding F2 (filler rows displace inf/nan draws) is classified by its exact input class.",
      "TLA+ design model checked by TLC + TLC trace validation of recorded update/result sequences", "5/C01")

claim("C06",
      "TLC checks NpyStore.tla exhaustively at file-operation grain: every history of public calls (append, in-place overwrite, "
      "truncate/delete-last/clear, read, flush, close+reopen, pickle round trip), each a program of low-level file operations, with "
      "Python's write buffer drained non-deterministically and a process kill between any two operations; invariants FlushExact, "
      "CrashSafe and the action property Refines; the two original operation orders (findings F6, F7, now repaired) are negative "
      "controls that TLC refutes.  Real NpyArray / NpyStore histories over 6 dtypes, several row shapes and batch sizes are recorded "
      "(a) without kill, observing the store after every call or only at the end and numpy.load-ing the file after every flush/close, "
      "and (b) in forked children that os._exit() before/after every low-level file call and after every public call; TLC validates "
      "each against NpyStore_Trace.tla, which re-uses the design module's actions and infers how far the killed call got and which "
      "buffered writes had reached the OS.",
      "Process kill only (no power-failure / page-cache loss); the file proxy shadows elfi.store.open at run time; CPython's "
      "BufferedRandom is over-approximated (any prefix of the buffered writes may have reached the OS).",
      "TLA+ crash model checked by TLC + TLC trace validation of kill-injected executions", "5/C06")

claim("C03",
      "TLC checks the design theorem of Compile.tla - Execute(Load(Compile(G, outs), with_values)) = Meaning(G)|outs, executed set = "
      "operations the meaning needs, rejection exactly when required - over ALL model graphs with <= 3 nodes (six node kinds, positional "
      "and named parents, partial observations, uses_meta, requested subsets including observed twins, with_values subsets), one operator "
      "per compiler pass / loader and the executor's dependency rule, with a refuted negative control.  TLC emits the graphs it explores; "
      "each, plus seeded random 3-8 node ELFI-shaped DAGs, is built through the public node constructors with symbolic operations and run "
      "with model.generate on the real code; TLC then recomputes the meaning from the graph description (Compile_Trace.tla) and compares "
      "returned terms, per-operation call counters and exceptions (P: clauses a-f), and compares with the compiled-net semantics (M:).",
      "Small-scope at design level (<= 3 nodes exhaustive); named parents of Prior / Discrepancy nodes and duplicate parents (known "
      "finding F20) are outside the generated family; symbolic operations stand for arbitrary user operations.",
      "TLA+ denotational-vs-operational model checked by TLC + TLC-emitted graphs replayed + TLC trace validation", "5/C03")

claim("C14",
      "TLC checks ElfiGraph.tla exhaustively: all edit histories (add node with node / literal parents, become, remove, parameter_names "
      "setter, observed data, copy, save+load) of bounded length over a store with explicit addresses for node state dicts and observed "
      "dicts (aliasing between a model and its copy is representable); invariants AllConsistent, CopyIndependent, CopySame, BecomeContract, "
      "RemoveContract; negative controls: copy() sharing state (F13, repaired) and become() with a non-fresh replacement (F14, known).  "
      "Seeded random edit histories are replayed on real ElfiModels with symbolic operations; after every action every live model is "
      "projected through the public API (nodes, classes, operation ids, edges with params, observed, parameter flags and parameter_names, "
      "seeded generate() digest) and TLC validates the trace against ElfiGraph_Trace.tla (P: clauses a-f on the observed projections, M: "
      "equality with the design store after each action).",
      "Small-scope at design level (3 user names, <= 5 edits, 2 handles); named edges are not part of the edit histories; node names from a "
      "fixed alphabet (sortedness is checked through a rank table).",
      "TLA+ model of the edit operations checked by TLC + replay of edit histories + TLC trace validation", "5/C14")

claim("C02",
      "TLC checks TopoSort.tla (a literal transcription of nx_constant_topological_sort over names as character-code sequences): the order is "
      "topological, the cached full order restricted to any executed subset stays dependency respecting (CacheSound), and - negative control, "
      "known finding F3 - the order of the user's nodes depends on the random suffix of auto-named private constants for prefix-related names.  "
      "One key K = (graph, seed, batch index, batch size, outputs) is executed repeatedly in one process: plainly, after perturbation histories "
      "(consume / reseed np.random, generate other models, unseeded generate, Rejection on another model, other outputs), through a shared "
      "ComputationContext that first computed other batch indices, after rebuilding the model in another insertion order, and on the "
      "multiprocessing client; recording stochastic operations log the generator object and its state before/after.  TLC validates each "
      "trace against Purity_Trace.tla: bit-identical digests, single generator, generator state = RandomState(SubSeed(seed, batch index)) with "
      "SubSeed computed by the C15 operators from the real numpy stream, states chained, order dependency-respecting and fixed (P:), order "
      "equal to the transcribed constant topological sort of the real compiled net (M:).  Seeded Rejection and SMC runs are compared the same way.",
      "Digest = sha256 of the returned float arrays; the multiprocessing client is compared by results only; statement's 'model' is read up to "
      "the names of auto-named private constants (F3 is the case where that matters).",
      "TLA+ transcription of the sort checked by TLC + TLC trace validation of repeated executions under perturbation histories", "5/C02")

ALL = ["C%02d" % i for i in range(1, 21)]


def manifest():
    checks = []
    for pid in ALL:
        if pid not in CLAIMED:
            continue
        c = CLAIMED[pid]
        checks.append(dict(
            property_id=pid,
            quick_cmd="./check %s --tier quick" % pid,
            thorough_cmd="./check %s --tier thorough" % pid,
            evidence_file="/verif/evidence/%s.json" % pid,
            replay_cmd_template="./check replay {path}",
            engine="tlc",
            level_claimed=dict(category="model_checking", text=c["text"], design_ref="DESIGN.md section " + c["design_ref"]),
            level_note=c["note"],
            technique=c["technique"]))
    na = [dict(property_id=p, reason=NOT_APPLICABLE.get(p, "check not built yet in this round (planned: see DESIGN.md section 5/%s); nothing is claimed for it" % p))
          for p in ALL if p not in CLAIMED]
    return dict(
        version=1,
        setup_cmd="./setup.sh",
        hooks=dict(guard="ELFI_VERIF_TRACE",
                   enable="no source hooks: all observation is through harness-supplied operations, clients, pools, "
                          "random states and file-object proxies; ELFI_VERIF_TRACE=1 only switches harness recorders on",
                   baseline_off_cmd=BASELINE, source_commits=[], add_only=True),
        engines=[dict(name="tlc", path="/verif/harness/tlc.py", serves_properties=sorted(CLAIMED),
                      kind_free_text="TLC 1.8.0 explicit-state model checker: exhaustive/simulation runs of the TLA+ design modules "
                                     "in /verif/spec and batch trace validation of executions recorded from the real code")],
        checks=checks,
        notes="Model-based verification with an explicit TLA+ specification (spec/*.tla). ./check <id> runs O1 (TLC on the design "
              "module), then records executions of the real code and validates them with TLC against the module's trace spec. "
              "See DESIGN.md.",
        not_applicable=na)


def write():
    with open(os.path.join(ROOT, "MANIFEST.json"), "w") as f:
        json.dump(manifest(), f, indent=1)


if __name__ == "__main__":
    write()

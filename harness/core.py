"""Check context: accumulates what TLC explored / validated and turns it into verdict lines
and an evidence file.  Standard library only (elfi is imported by the property drivers)."""
import concurrent.futures
import hashlib
import json
import os
import re
import shutil
import time

from . import tlc

ROOT = os.path.dirname(os.path.dirname(os.path.abspath(__file__)))
OUT = os.environ.get("VERIF_OUT") or os.path.join(ROOT, "out")
EVID = os.path.join(ROOT, "evidence") if not os.environ.get("VERIF_OUT") else os.path.join(OUT, "evidence")
KNOWN_FILE = os.path.join(ROOT, "KNOWN_FINDINGS.txt")


def load_known():
    """KNOWN_FINDINGS.txt -> {property: {finding id: text}} (only 'known:' lines suppress)."""
    known = {}
    if not os.path.exists(KNOWN_FILE):
        return known
    for line in open(KNOWN_FILE):
        line = line.strip()
        m = re.match(r"known:\s+property=(\S+)\s+finding=(\S+)\s+(.*)$", line)
        if m:
            known.setdefault(m.group(1), {})[m.group(2)] = m.group(3)
    return known


def digest(obj):
    return hashlib.sha256(json.dumps(obj, sort_keys=True, default=str).encode()).hexdigest()[:16]


class Ctx:
    def __init__(self, pid, tier, seed):
        self.pid = pid
        self.tier = tier
        self.seed = seed
        self.quick = tier == "quick"
        self.outdir = os.path.join(OUT, pid)
        shutil.rmtree(self.outdir, ignore_errors=True)
        os.makedirs(self.outdir, exist_ok=True)
        self.replay_dir = os.path.join(OUT, "replay", pid)
        shutil.rmtree(self.replay_dir, ignore_errors=True)
        os.makedirs(self.replay_dir, exist_ok=True)
        self.t0 = time.time()
        self.states = 0
        self.transitions = 0
        self.tlc_runs = []
        self.traces_validated = 0
        self.trace_events = 0
        self.evaluations = 0
        self.nontrivial_keys = set()
        self.samples = []
        self.violations = []
        self.known_seen = {}
        self.drift = []
        self.notes = []
        self.clauses_decided = []
        self.clauses_not_decided = []
        self.assumptions = []
        self.trusted_base = ["TLC 1.8.0", "CPython 3.12 / numpy RNG", "harness projection functions"]
        self.rule = ""
        self.exhaustive = False
        self.known = load_known().get(pid, {})
        self.negative_controls = []
        self.replaying = False

    # ------------------------------------------------------------------ TLC: design level
    def tlc(self, module, cfg=None, expect_actions=None, expect_ok=True, label=None, **kw):
        """Exhaustive / simulation run of a design module.  Accumulates states & transitions.

        expect_ok=True : any violation is a machinery failure (the design does not satisfy its own
                         theorem - nothing in /repo can cause that).
        expect_ok=False: negative control - the run MUST find a violation (non-vacuity).
        """
        kw.setdefault("metadir", os.path.join(self.outdir, "meta_%s" % (cfg or module)))
        r = tlc.run(module, cfg, **kw)
        self.states += r.distinct
        self.transitions += r.generated
        summ = r.as_dict()
        summ["label"] = label or (cfg or module)
        summ["expect_ok"] = expect_ok
        self.tlc_runs.append(summ)
        if expect_actions and not kw.get("simulate"):
            for a in expect_actions:
                if r.coverage.get(a, [0, 0])[1] == 0:
                    raise tlc.MachineryFailure("action %s of %s never taken (vacuous run)\n%s" % (a, module, r.out[-1500:]))
        if expect_ok and not r.ok:
            raise tlc.MachineryFailure("design module %s/%s violates %s\n%s" % (module, cfg, r.violated, r.trace_text[:3000]))
        if not expect_ok:
            if r.ok:
                raise tlc.MachineryFailure("negative control %s/%s found no violation" % (module, cfg))
            self.negative_controls.append(dict(run=summ["label"], refuted=r.violated))
        return r

    # ------------------------------------------------------------------ TLC: trace validation
    def validate(self, trace_module, traces, cfg=None, chunk=1500, env=None, timeout=900, name="traces",
                 workers_per_chunk=1, dfs=False):
        """Validate recorded traces with a trace spec.  Returns a list, aligned with `traces`, of
        (l, verdict): verdict == "ok" iff TLC found a way through the whole trace that satisfies
        every clause; else the clause name the longest matched prefix failed on."""
        if not traces:
            return []
        chunks = [traces[i:i + chunk] for i in range(0, len(traces), chunk)]
        results = [None] * len(chunks)

        def one(ci):
            path = os.path.join(self.outdir, "%s_%s_%d.json" % (name, trace_module, ci))
            tlc.write_json(path, chunks[ci])
            e = {"TRACE_FILE": path}
            if env:
                e.update(env)
            r = tlc.run(trace_module, cfg or trace_module, workers=workers_per_chunk, env=e, timeout=timeout,
                        coverage=False, metadir=os.path.join(self.outdir, "meta_%s_%s_%d" % (name, trace_module, ci)),
                        deadlock=None, dfs=dfs)
            if not r.ok:
                raise tlc.MachineryFailure("trace spec %s reported %s (trace specs are total)\n%s" % (trace_module, r.violated, r.trace_text[:3000]))
            return r

        with concurrent.futures.ThreadPoolExecutor(max_workers=min(14, len(chunks))) as ex:
            futs = {ex.submit(one, ci): ci for ci in range(len(chunks))}
            for f in concurrent.futures.as_completed(futs):
                results[futs[f]] = f.result()
        verdicts = []
        for ci, r in enumerate(results):
            self.states += r.distinct
            self.transitions += r.generated
            per = {}
            for v in r.printed:
                if isinstance(v, list) and len(v) >= 4 and v[0] == "V":
                    per.setdefault(v[1], []).append((v[2], v[3], v[4] if len(v) > 4 else ""))
            for k in range(1, len(chunks[ci]) + 1):
                got = per.get(k)
                if not got:
                    raise tlc.MachineryFailure("trace %d of chunk %d produced no verdict in %s\n%s" % (k, ci, trace_module, r.out[-3000:]))
                if any(g[1].startswith("X:") or g[2].startswith("X:") for g in got):
                    raise tlc.MachineryFailure("trace %d of chunk %d: harness-side insufficiency %r in %s" % (k, ci, got, trace_module))
                oks = [g for g in got if g[1] == "ok"]
                if oks:
                    # accepted: some resolution of the unlogged choices satisfies every P: clause;
                    # prefer a resolution that also has no drift
                    oks.sort(key=lambda g: (g[2] == "", g[0]))
                    best = oks[-1]
                else:
                    # failing branches only: report the clause of the longest matched prefix
                    got.sort(key=lambda g: (g[0], g[1].startswith("P:")))
                    best = got[-1]
                verdicts.append(dict(l=best[0], verdict=best[1], drift=best[2]))
        self.traces_validated += len(traces)
        self.tlc_runs.append(dict(label="trace:%s:%s" % (trace_module, name), traces=len(traces),
                                  generated=sum(r.generated for r in results),
                                  distinct=sum(r.distinct for r in results),
                                  wall_s=round(sum(r.wall_s for r in results), 2)))
        return verdicts

    # ------------------------------------------------------------------ bookkeeping
    def case(self, key=None, nontrivial=True):
        self.evaluations += 1
        if nontrivial and key is not None:
            self.nontrivial_keys.add(key if isinstance(key, (str, int, tuple)) else digest(key))

    def sample(self, obj, limit=6):
        if len(self.samples) < limit:
            self.samples.append(obj)

    def fail(self, clause, scenario, detail=None, finding=None, trace=None):
        """A P: clause failed on an execution of the real code.

        finding: id of the known finding whose *specific classifier* matched this failure (decided
        by the caller), or None.  Only findings listed as 'known:' in KNOWN_FINDINGS.txt for this
        property are suppressed; everything else is a VIOLATION."""
        if finding is not None and finding in self.known:
            k = self.known_seen.setdefault(finding, dict(count=0, what=self.known[finding], example=None))
            k["count"] += 1
            if k["example"] is None:
                k["example"] = dict(clause=clause, scenario=scenario, detail=detail)
            return False
        n = len(self.violations) + 1
        path = os.path.join(self.replay_dir, "%d.json" % n)
        if n <= 50:
            with open(path, "w") as f:
                json.dump(dict(property=self.pid, clause=clause, scenario=scenario, detail=detail, trace=trace,
                               seed=self.seed, tier=self.tier), f, indent=1, default=str)
        self.violations.append(dict(clause=clause, replay=path, detail=detail))
        return True

    def drifted(self, clause, scenario, detail=None):
        self.drift.append(dict(clause=clause, scenario=scenario, detail=detail))

    # ------------------------------------------------------------------ finish
    def finish(self):
        wall = time.time() - self.t0
        cov = dict(
            states=self.states, transitions=self.transitions,
            traces_validated_against_impl=self.traces_validated,
            evaluations=self.evaluations, distinct_nontrivial=len(self.nontrivial_keys),
            rule=self.rule, samples=self.samples[:8] or [dict(note="no sample recorded")],
            exhaustive=self.exhaustive, tlc_runs=self.tlc_runs, negative_controls=self.negative_controls,
            drift=len(self.drift), drift_examples=self.drift[:5],
            known_findings_seen={k: dict(count=v["count"], example=v["example"]) for k, v in self.known_seen.items()},
            clauses_decided=self.clauses_decided, clauses_not_decided=self.clauses_not_decided,
            trusted_base=self.trusted_base, notes=self.notes,
            violations_detail=self.violations[:10],
        )
        ev = dict(property_id=self.pid, tier=self.tier, seed=self.seed, level="model_checking", coverage=cov,
                  assumptions=self.assumptions, wall_s=round(wall, 2), violations=len(self.violations))
        if not self.replaying:
            os.makedirs(EVID, exist_ok=True)
            with open(os.path.join(EVID, "%s.json" % self.pid), "w") as f:
                json.dump(ev, f, indent=1, default=str)
        dcl = {}
        for d in self.drift:
            dcl[d["clause"]] = dcl.get(d["clause"], 0) + 1
        for c, n in sorted(dcl.items()):
            print("DRIFT property=%s clause=%s count=%d" % (self.pid, c, n))
        for fid, k in sorted(self.known_seen.items()):
            print("KNOWN-FINDING: property=%s finding=%s %s (seen %d times)" % (self.pid, fid, k["what"], k["count"]))
        seen = {}
        for v in self.violations:
            seen[v["clause"]] = seen.get(v["clause"], 0) + 1
            if seen[v["clause"]] <= 2:
                print("VIOLATION property=%s replay=%s clause=%s" % (self.pid, v["replay"], v["clause"]))
        print("%s %s tier=%s seed=%d states=%d transitions=%d traces=%d evaluations=%d nontrivial=%d drift=%d known=%d violations=%d wall=%.1fs"
              % ("PASS" if not self.violations else "FAIL", self.pid, self.tier, self.seed, self.states, self.transitions,
                 self.traces_validated, self.evaluations, len(self.nontrivial_keys), len(self.drift),
                 len(self.known_seen), len(self.violations), wall))
        return 1 if self.violations else 0

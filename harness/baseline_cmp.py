"""python harness/baseline_cmp.py <junit.xml>: are all stable_pass tests of BASELINE.json passing?"""
import json
import sys
import xml.etree.ElementTree as ET

base = json.load(open("/root/.vp/BASELINE.json"))
stable = set(base["stable_pass"])
tree = ET.parse(sys.argv[1])
status = {}
for tc in tree.iter("testcase"):
    name = "%s::%s" % (tc.get("classname"), tc.get("name"))
    bad = any(ch.tag in ("failure", "error", "skipped") for ch in tc)
    status[name] = not bad
missing = [s for s in stable if s not in status]
failing = [s for s in stable if s in status and not status[s]]
newpass = [s for s, ok in status.items() if ok and s not in stable]
print("stable=%d passing=%d missing=%d failing=%d newly-passing=%d" % (len(stable), len(stable) - len(missing) - len(failing), len(missing), len(failing), len(newpass)))
for s in missing[:20]:
    print("  MISSING", s)
for s in failing[:20]:
    print("  FAILING", s)
sys.exit(1 if (missing or failing) else 0)

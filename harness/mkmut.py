"""python harness/mkmut.py Cxx name path/in/repo 'old text' 'new text' [count]  -> mutants/Cxx__name.diff
Several (path, old, new) triples may be given.  /repo is not modified."""
import difflib
import os
import sys

ROOT = os.path.dirname(os.path.dirname(os.path.abspath(__file__)))


def main(argv):
    pid, name = argv[0], argv[1]
    rest = argv[2:]
    out = []
    files = {}
    while rest:
        path, old, new = rest[0], rest[1], rest[2]
        rest = rest[3:]
        src = files.get(path) or open(os.path.join("/repo", path)).read()
        if src.count(old) != 1:
            print("ERROR: %r occurs %d times in %s" % (old, src.count(old), path))
            return 1
        files[path] = src.replace(old, new)
    for path, new_src in files.items():
        orig = open(os.path.join("/repo", path)).read()
        out += list(difflib.unified_diff(orig.splitlines(True), new_src.splitlines(True), "a/" + path, "b/" + path))
    dst = os.path.join(ROOT, "mutants", "%s__%s.diff" % (pid, name))
    open(dst, "w").write("".join(out))
    print("wrote", dst)
    return 0


if __name__ == "__main__":
    sys.exit(main(sys.argv[1:]))

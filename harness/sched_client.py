"""A ClientBase implementation driven by an explicit schedule.

The schedule controls (i) every answer to is_ready and (ii) when and in which order outstanding
tasks are executed.  Every client call is recorded together with scalars probed from the
inference object at that moment.  Tasks run in-process, so harness operations can keep logs.
"""
import itertools
import random

import elfi.client


class ScheduledClient(elfi.client.ClientBase):
    def __init__(self, script=None, seed=0, p_ready=0.5, p_run=0.5, cores=2):
        self.tasks = {}           # id -> [kallable, args, kwargs, has_result, result]
        self._ids = itertools.count()
        self.script = list(script) if script is not None else None
        self.script_pos = 0
        self.rnd = random.Random(seed)
        self.p_ready = p_ready
        self.p_run = p_run
        self.cores = cores
        self.events = []
        self.probe = None
        self.bi_of = {}
        self.exec_order = []

    # ---- recording
    def _log(self, ev, tid, **kw):
        e = dict(ev=ev, id=int(tid))
        if self.probe is not None:
            e.update(self.probe())
        e.update(kw)
        self.events.append(e)

    # ---- execution of tasks ("workers")
    def _execute(self, tid):
        t = self.tasks[tid]
        if not t[3]:
            t[4] = t[0](*t[1], **t[2])
            t[3] = True
            self.exec_order.append(tid)

    def _workers_progress(self):
        """Some outstanding tasks finish, in an arbitrary order."""
        ids = [i for i, t in self.tasks.items() if not t[3]]
        self.rnd.shuffle(ids)
        for i in ids:
            if self.rnd.random() < self.p_run:
                self._execute(i)

    # ---- ClientBase
    def apply(self, kallable, *args, **kwargs):
        tid = next(self._ids)
        self.tasks[tid] = [kallable, args, kwargs, False, None]
        bi = -1
        try:
            bi = int(args[0].nodes['_meta']['output']['batch_index'])
        except Exception:
            pass
        self.bi_of[tid] = bi
        self._log("submit", tid, bi=bi)
        return tid

    def apply_sync(self, kallable, *args, **kwargs):
        return kallable(*args, **kwargs)

    def is_ready(self, task_id):
        self._workers_progress()
        if self.script is not None and self.script_pos < len(self.script):
            ans = bool(self.script[self.script_pos])
            self.script_pos += 1
        else:
            ans = self.rnd.random() < self.p_ready
        if ans and task_id in self.tasks:
            self._execute(task_id)
        self._log("ready", task_id, ans=ans)
        return ans

    def get_result(self, task_id):
        self._log("get", task_id)
        self._workers_progress()
        self._execute(task_id)
        t = self.tasks.pop(task_id)
        return t[4]

    def remove_task(self, task_id):
        self._log("rm", task_id)
        if task_id in self.tasks:
            del self.tasks[task_id]

    def reset(self):
        self.tasks.clear()

    @property
    def num_cores(self):
        return self.cores

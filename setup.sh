#!/bin/sh
# Offline set-up: nothing is built; verify the tools the checks need and parse the specification.
set -e
cd "$(dirname "$0")"
java -version >/dev/null 2>&1 || { echo "java missing"; exit 2; }
test -f /opt/veriftools/tla/tla2tools.jar || { echo "tla2tools.jar missing"; exit 2; }
/venv/bin/python -c "import numpy, scipy, networkx, elfi" || { echo "cannot import elfi from /repo"; exit 2; }
mkdir -p out evidence
./check sany || echo "WARNING: some modules do not parse (their checks will report machinery failure)"
